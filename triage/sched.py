"""Development-time one-preemption scheduler (dynamic; NOT referenced by any MANIFEST command).
run_with_preempt(A, B, file suffix, line): run A in a thread, pause it when it is about to
execute file:line (first time, or the n-th time with hit=n), run B to completion, resume A.
Used only to triage findings of the static race inventory (C20) before listing them."""
import sys
import threading


def run_with_preempt(A, B, fname_suffix, lineno, hit=1):
    res = {}
    reached = threading.Event()
    resume = threading.Event()
    count = [0]

    def tracer(frame, event, arg):
        if frame.f_code.co_filename.endswith(fname_suffix):
            def local(frame, event, arg):
                if event == "line" and frame.f_lineno == lineno and count[0] >= 0:
                    count[0] += 1
                    if count[0] == hit:
                        count[0] = -10 ** 9
                        reached.set()
                        resume.wait()
                return local
            return local
        return None

    def ta():
        sys.settrace(tracer)
        try:
            res["A"] = A()
        except Exception as e:
            res["A"] = ("EXC", type(e).__name__, str(e))
        finally:
            sys.settrace(None)

    t = threading.Thread(target=ta)
    t.start()
    if reached.wait(20):
        try:
            res["B"] = B()
        except Exception as e:
            res["B"] = ("EXC", type(e).__name__, str(e))
        resume.set()
    else:
        res["B"] = "A never reached the line"
        resume.set()
    t.join()
    return res

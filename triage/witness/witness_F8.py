"""F8: dictionary.py readers do `if key not in cache: build` ... `return cache[key][name]`, while
_add_to_cache (any thread, any locale: the caches are class-level) evicts the oldest OTHER key when
len(cache) > CACHE_SIZE_LIMIT. Pause A on the final `return cache[key][name]` of a reader, let B
(other settings dict -> other registry key, other locale) insert its key: A's key is evicted."""
import datetime
import os
import subprocess
import sys

RB = datetime.datetime(2020, 6, 15, 12, 0)
SUFFIX = 'dateparser/languages/dictionary.py'
READERS = {  # reader name -> text of its final return statement (1st line)
    'split_regex': 'return self._split_regex_cache[self._settings.registry_key]',
    'sorted_words': 'return self._sorted_words_cache[self._settings.registry_key]',
    'split_relative': 'return self._split_relative_regex_cache[self._settings.registry_key]',
    'sorted_relative': 'return self._sorted_relative_strings_cache[self._settings.registry_key]',
    'match_relative': 'return self._match_relative_regex_cache[self._settings.registry_key]',
}


def line_of(suffix, needle, nth=1):
    import dateparser
    path = os.path.join(os.path.dirname(os.path.dirname(dateparser.__file__)), suffix)
    return [i for i, l in enumerate(open(path, encoding='utf-8'), 1) if needle in l][nth - 1]


def A():
    import dateparser
    return dateparser.parse('10 March 2020', languages=['en'], settings={'CACHE_SIZE_LIMIT': 1, 'RELATIVE_BASE': RB})


def B():
    import dateparser
    return dateparser.parse('10 mars 2020', languages=['fr'],
                            settings={'CACHE_SIZE_LIMIT': 1, 'RELATIVE_BASE': RB, 'PREFER_DATES_FROM': 'past'})


def main(mode):
    import dateparser  # noqa
    if mode == 'AB':
        a = A(); b = B()
    elif mode == 'BA':
        b = B(); a = A()
    else:
        from sched import run_with_preempt
        line = line_of(SUFFIX, READERS[mode])
        r = run_with_preempt(A, B, SUFFIX, line, hit=1)
        a, b, mode = r['A'], r['B'], '%s@%d' % (mode, line)
    print('%-19s A=%r  B=%r' % (mode, a, b))


if __name__ == '__main__':
    if len(sys.argv) > 1:
        main(sys.argv[1])
    else:
        for m in ['AB', 'BA'] + list(READERS):
            subprocess.run([sys.executable, __file__, m], check=True)

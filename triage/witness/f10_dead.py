import datetime, sys, json
import dateparser
from dateparser.search import search_dates
from dateparser.languages.loader import default_loader
RB = datetime.datetime(2020, 6, 15, 12, 0)
ODD = ['t', 'x:y', 'a+b', 'c/d', 'e-f', 'g.h', 'ñ', '—', '::', "o'c", 'q r']
BATT = ['10:30 3/4/2020', '3-4-2020 10.30', 'March 5, 2020 +0200', "5 o'clock", '2 hours ago', 'in 3 days', '2020.03.05',
        '12/13/14 1:2:3', 'x:y 3 March 2020', 'a+b 5 May', 'Tue 3 Mar 2020 10:30:00 GMT+2', '1e-f2 weeks ago', 'g.h. 2020-03-05T10:30:00Z']
if sys.argv[1] == 'polluted':
    for lang in ('en', 'fr', 'de'):
        dateparser.parse('1 2 3', languages=[lang], settings={'RELATIVE_BASE': RB, 'SKIP_TOKENS': ODD})
        dateparser.parse('1 2 3', languages=[lang], settings={'RELATIVE_BASE': RB, 'SKIP_TOKENS': ODD, 'NORMALIZE': False})
out = {}
for lang in ('en', 'fr', 'de'):
    for t in BATT:
        for norm in (True, False):
            S = {'RELATIVE_BASE': RB, 'NORMALIZE': norm}
            out['%s|%s|%s|parse' % (lang, t, norm)] = repr(dateparser.parse(t, languages=[lang], settings=S))
            out['%s|%s|%s|ddp' % (lang, t, norm)] = repr(dateparser.date.DateDataParser(languages=[lang], settings=S).get_date_data(t, date_formats=['%d.%m %Y']))
        out['%s|%s|search' % (lang, t)] = repr(search_dates('foo ' + t + ' bar', languages=[lang], settings={'RELATIVE_BASE': RB}))
en = default_loader.get_locale('en')
print(sys.argv[1], 'wordchars-extra:', sorted(en._wordchars - set('abcdefghijklmnopqrstuvwxyz0123456789')), 'splitters:', {k: sorted(v) for k, v in en._splitters.items()}, file=sys.stderr)
json.dump(out, open('dead_%s.json' % sys.argv[1], 'w'), indent=0, sort_keys=True)

"""F4: search.py parse_item writes RELATIVE_BASE into the registry-shared Settings instance.
A = search_dates(two dates, settings=S); B = dateparser.parse('10 March', settings=equal dict).
Pause A on the re-parse line that follows `parser._settings.RELATIVE_BASE = relative_base`.
B's apply_settings re-runs Settings.__init__ on the SAME cached instance, which resets
RELATIVE_BASE, so A re-parses 'July 13th' relative to now instead of relative to 2014-07-12.
(RELATIVE_BASE cannot be fixed in S: a truthy RELATIVE_BASE disables this code path.)"""
import os
import subprocess
import sys

S = {'PREFER_DATES_FROM': 'past'}
TEXT = 'July 12th, 2014. July 13th'
SUFFIX = 'dateparser/search/search.py'


def line_of(suffix, needle, nth=1):
    import dateparser
    path = os.path.join(os.path.dirname(os.path.dirname(dateparser.__file__)), suffix)
    return [i for i, l in enumerate(open(path, encoding='utf-8'), 1) if needle in l][nth - 1]


def A():
    from dateparser.search import search_dates
    return search_dates(TEXT, languages=['en'], settings=dict(S))


def B():
    import dateparser
    return dateparser.parse('10 March', languages=['en'], settings=dict(S))


def B2():  # pre-built parser sharing the cached Settings instance; no Settings re-init inside B2
    return DDP.get_date_data('10 March').date_obj


def main(mode):
    global DDP, B
    import dateparser, dateparser.search  # noqa: import only, no locale is touched
    DDP = dateparser.date.DateDataParser(languages=['en'], settings=dict(S))
    if mode.endswith('2'):
        B, mode = B2, mode[:-1]
    if mode == 'AB':
        a = A(); b = B()
    elif mode == 'BA':
        b = B(); a = A()
    else:
        from sched import run_with_preempt
        # 2nd `parsed_item = parser.get_date_data(item)` in the file = the re-parse after the write
        line = line_of(SUFFIX, 'parsed_item = parser.get_date_data(item)', 2)
        r = run_with_preempt(A, B, SUFFIX, line, hit=1)
        a, b = r['A'], r['B']
        mode = 'SCHED@%d' % line
    print('%-9s %-2s A=%r\n             B=%r' % (mode, B.__name__, a, b))


if __name__ == '__main__':
    if len(sys.argv) > 1:
        main(sys.argv[1])
    else:
        for m in ('AB', 'BA', 'SCHED', 'AB2', 'BA2', 'SCHED2'):
            subprocess.run([sys.executable, __file__, m], check=True)

"""F9: locale.py Locale.clean_dictionary deletes 1-character keys IN PLACE from the cached, shared
`self._split_dictionary`. First detection use of 'en' in the process: pause A on `for del_key in
del_keys:` (del_keys computed, nothing deleted yet); B runs the same detection and deletes the keys;
A resumes and `del dictionary[del_key]` raises KeyError."""
import datetime
import os
import subprocess
import sys

S = {'RELATIVE_BASE': datetime.datetime(2020, 6, 15, 12, 0)}
SUFFIX = 'dateparser/languages/locale.py'


def line_of(suffix, needle, nth=1):
    import dateparser
    path = os.path.join(os.path.dirname(os.path.dirname(dateparser.__file__)), suffix)
    return [i for i, l in enumerate(open(path, encoding='utf-8'), 1) if needle in l][nth - 1]


def A():
    from dateparser.search import search_dates
    return search_dates('le 3 mars 2020', languages=['en', 'fr'], settings=dict(S), add_detected_language=True)


def B():
    from dateparser.search import search_dates
    return search_dates('le 4 mars 2020', languages=['en', 'fr'], settings=dict(S), add_detected_language=True)


def main(mode):
    import dateparser.search  # noqa
    if mode == 'AB':
        a = A(); b = B()
    elif mode == 'BA':
        b = B(); a = A()
    else:
        from sched import run_with_preempt
        line = line_of(SUFFIX, 'for del_key in del_keys:')
        r = run_with_preempt(A, B, SUFFIX, line, hit=1)
        a, b, mode = r['A'], r['B'], 'SCHED@%d' % line
    print('%-9s A=%r\n          B=%r' % (mode, a, b))


if __name__ == '__main__':
    if len(sys.argv) > 1:
        main(sys.argv[1])
    else:
        for m in ('AB', 'BA', 'SCHED'):
            subprocess.run([sys.executable, __file__, m], check=True)

"""F10: per-locale attributes built once from a SKIP_TOKENS-dependent Dictionary view and cached forever.
abbr : Locale._abbreviations     - caller's SKIP_TOKENS reach it directly -> plain SEQUENTIAL history dependence
abbr2: same attribute, per-call one-preemption witness through the shared Dictionary._settings swap
wcd  : _wordchars_for_detection  } detection always runs with DEFAULT settings (detect_language drops them), so
sdict: _split_dictionary         } no sequential history differs; one preemption + shared Dictionary._settings swap does.
usage: witness_F10.py [case mode]   (no args: run every case in AB, BA, SCHED order, each in a fresh process)"""
import datetime
import os
import subprocess
import sys

RB = datetime.datetime(2020, 6, 15, 12, 0)
LOC, DIC = 'dateparser/languages/locale.py', 'dateparser/languages/dictionary.py'
CASES = {  # case: (A=(fn, text, languages, extra settings), B=(...), pause file, anchor text, nth anchor, hit)
    'abbr': (('search', 'meeting on 5 March 2020 at. 10:30 we start', ['en'], {'SKIP_TOKENS': ['t', 'at.']}),
             ('search', 'meeting on 5 March 2020 at. 10:30 we start', ['en'], {}),
             LOC, 'self._abbreviations = abbreviations', 1, 1),
    'abbr2': (('search', 'meeting on 5 March 2020 at. 10:30 we start', ['en'], {}),
              ('parse', '3 March 2020', ['en'], {'SKIP_TOKENS': ['t', 'at.']}),
              LOC, 'for item in dictionary:', 1, 1),                   # in _get_abbreviations, before iter() is taken
    'wcd': (('search', 'señor, le 3 mars 2020', ['en', 'fr'], {}),
            ('parse', '3 March 2020', ['en'], {'SKIP_TOKENS': ['señor'], 'NORMALIZE': False}),
            DIC, 'return chain(self._settings.SKIP_TOKENS', 1, 1),   # 1st Dictionary.__iter__ = en wordchars build
    'sdict': (('search', 'foo. 3 mar 2020', ['fr', 'en'], {}),
              ('parse', '3 March 2020', ['en'], {'SKIP_TOKENS': ['foo']}),
              LOC, 'newdict = {}', 1, 2),                              # 2nd _split_dict call = en (fr is 1st)
}


def line_of(suffix, needle, nth=1):
    import dateparser
    path = os.path.join(os.path.dirname(os.path.dirname(dateparser.__file__)), suffix)
    return [i for i, l in enumerate(open(path, encoding='utf-8'), 1) if needle in l][nth - 1]


def call(fn, text, languages, extra):
    import dateparser
    from dateparser.search import search_dates
    settings = dict({'RELATIVE_BASE': RB}, **extra)
    if fn == 'parse':
        return dateparser.parse(text, languages=languages, settings=settings)
    return search_dates(text, languages=languages, settings=settings, add_detected_language=True)


def main(case, mode):
    ca, cb, suffix, needle, nth, hit = CASES[case]
    A, B = (lambda: call(*ca)), (lambda: call(*cb))
    if mode == 'AB':
        a = A(); b = B()
    elif mode == 'BA':
        b = B(); a = A()
    else:
        from sched import run_with_preempt
        line = line_of(suffix, needle, nth)
        r = run_with_preempt(A, B, suffix, line, hit)
        a, b, mode = r['A'], r['B'], 'SCHED %s:%d hit=%d' % (suffix.split('/')[-1], line, hit)
    print('%-5s %-28s A=%r\n%34s B=%r' % (case, mode, a, '', b))


if __name__ == '__main__':
    if len(sys.argv) > 2:
        main(sys.argv[1], sys.argv[2])
    else:
        for c in CASES:
            for m in ('AB', 'BA', 'SCHED'):
                subprocess.run([sys.executable, __file__, c, m], check=True)

"""F7: locale.py _get_simplifications publishes `self._normalized_simplifications = []` and fills it afterwards.
First use of 'fr' in the process: pause A on the line after the assignment (list published, still empty),
or inside the fill loop (3rd iteration: list published with 2 of N entries), run B
on the same locale: B simplifies with an EMPTY list ('une' -> '1' missing)."""
import datetime
import os
import subprocess
import sys

S = {'RELATIVE_BASE': datetime.datetime(2020, 6, 15, 12, 0)}


def line_of(suffix, needle, nth=1):
    import dateparser
    path = os.path.join(os.path.dirname(os.path.dirname(dateparser.__file__)), suffix)
    return [i for i, l in enumerate(open(path, encoding='utf-8'), 1) if needle in l][nth - 1]


def A():
    import dateparser
    return dateparser.parse('il y a une heure', languages=['fr'], settings=dict(S))


def B():
    import dateparser
    return dateparser.parse('il y a une heure', languages=['fr'], settings=dict(S))


def main(mode):
    import dateparser  # noqa
    if mode == 'AB':
        a = A(); b = B()
    elif mode == 'BA':
        b = B(); a = A()
    else:
        from sched import run_with_preempt
        needle, hit = {'SCHED_EMPTY': ('simplifications = self._generate_simplifications(normalize=True)', 1),
                       'SCHED_LOOP3': ('self._normalized_simplifications.append(', 3)}[mode]
        line = line_of('dateparser/languages/locale.py', needle)
        r = run_with_preempt(A, B, 'dateparser/languages/locale.py', line, hit)
        a, b, mode = r['A'], r['B'], '%s@%d,hit=%d' % (mode, line, hit)
    print('%-23s A=%r  B=%r' % (mode, a, b))


if __name__ == '__main__':
    if len(sys.argv) > 1:
        main(sys.argv[1])
    else:
        for m in ('AB', 'BA', 'SCHED_EMPTY', 'SCHED_LOOP3'):
            subprocess.run([sys.executable, __file__, m], check=True)

"""F5: search.py detect_language stores the per-call FullTextLanguageDetector on the module-level singleton
`_search_with_detection`; the following statement reads it back. Pause A on that read, run B, resume A:
A detects its language with B's detector (B's candidate languages)."""
import datetime
import os
import subprocess
import sys

S = {'RELATIVE_BASE': datetime.datetime(2020, 6, 15, 12, 0)}
TEXT_A = 'Rendez-vous le 3 mars 2020 ou mardi'
TEXT_B = 'Nos vemos el 5 de abril de 2019'


def line_of(suffix, needle, nth=1):
    import dateparser
    path = os.path.join(os.path.dirname(os.path.dirname(dateparser.__file__)), suffix)
    return [i for i, l in enumerate(open(path, encoding='utf-8'), 1) if needle in l][nth - 1]


def A():
    from dateparser.search import search_dates
    return search_dates(TEXT_A, languages=['fr', 'en'], settings=dict(S), add_detected_language=True)


def B():
    from dateparser.search import search_dates
    return search_dates(TEXT_B, languages=['es', 'de'], settings=dict(S), add_detected_language=True)


def main(mode):
    import dateparser.search  # noqa
    if mode == 'AB':
        a = A(); b = B()
    elif mode == 'BA':
        b = B(); a = A()
    else:
        from sched import run_with_preempt
        line = line_of('dateparser/search/search.py', 'detected_language = self.language_detector._best_language(text)')
        r = run_with_preempt(A, B, 'dateparser/search/search.py', line)
        a, b, mode = r['A'], r['B'], 'SCHED@%d' % line
    print('%-9s A=%r\n          B=%r' % (mode, a, b))


if __name__ == '__main__':
    if len(sys.argv) > 1:
        main(sys.argv[1])
    else:
        for m in ('AB', 'BA', 'SCHED'):
            subprocess.run([sys.executable, __file__, m], check=True)

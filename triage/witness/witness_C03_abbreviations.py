import sys, datetime
from dateparser.search import search_dates
RB = datetime.datetime(2020, 6, 15, 12, 0)
T = 'meeting on 5 March 2020 at. 10:30 we start'
A = lambda: search_dates(T, languages=['en'], settings={'SKIP_TOKENS': ['t', 'at.'], 'RELATIVE_BASE': RB})
B = lambda: search_dates(T, languages=['en'], settings={'RELATIVE_BASE': RB})
order = sys.argv[1]
res = {}
for c in order:
    res[c] = (A if c == 'A' else B)()
print(order, 'B ->', res.get('B'))

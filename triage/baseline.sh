#!/bin/sh
# development-time helper (not referenced by MANIFEST): run the repo's suite, compare with BASELINE.json
cd /repo && /venv/bin/python -m pytest -q -p no:cacheprovider --timeout=900 --continue-on-collection-errors --junitxml=/tmp/vt_junit.xml >/tmp/vt_pytest.log 2>&1
/venv/bin/python - <<'PY'
import json, xml.etree.ElementTree as ET
b=json.load(open('/root/.vp/BASELINE.json'))
stable=set(b['stable_pass'])
t=ET.parse('/tmp/vt_junit.xml')
passed=set()
for tc in t.iter('testcase'):
    if not any(c.tag in('failure','error','skipped') for c in tc):
        passed.add(tc.get('classname')+'::'+tc.get('name'))
miss=stable-passed
print('stable_pass',len(stable),'passed now',len(passed),'missing',len(miss))
for m in sorted(miss)[:20]: print('  MISSING',m)
PY

"""Development-time triage (dynamic; NOT referenced by MANIFEST): every static C05/C06 finding is run against the
real parser; a finding that parses correctly for all probes is a false report and must be fixed in the rule."""
import sys, json, datetime, collections
sys.path.insert(0, '/verif')
from sa.core.context import Ctx
from sa.core.report import Check
from sa.core.data import MONTHS, WEEKDAYS
import importlib
prop = sys.argv[1] if len(sys.argv) > 1 else 'C05'
mod = importlib.import_module('sa.rules.' + prop.lower())
ctx = Ctx(); chk = Check(prop, quiet=True); mod.run(ctx, chk)
from dateparser.date import DateDataParser
BASE = datetime.datetime(2020, 6, 17, 12, 0)   # a Wednesday, mid-month
res = collections.Counter(); out = []
parsers = {}
def P(loc, normalize):
    k = (loc, normalize)
    if k not in parsers:
        st = {'RELATIVE_BASE': BASE, 'NORMALIZE': normalize}
        try:
            parsers[k] = DateDataParser(languages=[loc], settings=st)
            parsers[k].get_date_data('1')
        except Exception:
            parsers[k] = DateDataParser(locales=[loc], settings=st)
    return parsers[k]
for f in chk.findings.values():
    k = f.key
    if 'word' not in k or 'meaning' not in k: continue
    loc, w, m, n = k['locale'], k['word'], k['meaning'], k.get('normalize', True)
    ok_all = True; got = []
    if m in MONTHS:
        for d in (5, 12, 23):
            for y in (2015, 1999):
                try: r = P(loc, n).get_date_data('%d %s %d' % (d, w, y)).date_obj
                except Exception as e: r = 'EXC ' + type(e).__name__
                good = r == datetime.datetime(y, MONTHS.index(m) + 1, d)
                ok_all &= good; got.append(str(r))
    elif m in WEEKDAYS:
        try: r = P(loc, n).get_date_data(w).date_obj
        except Exception as e: r = 'EXC ' + type(e).__name__
        good = isinstance(r, datetime.datetime) and r.weekday() == WEEKDAYS.index(m) and 0 <= (BASE.date() - r.date()).days < 7
        ok_all &= good; got.append(str(r))
    else:
        continue
    res['FALSE-REPORT' if ok_all else 'confirmed'] += 1
    out.append({'key': k, 'rule': f.rule, 'verdict': 'FALSE-REPORT' if ok_all else 'confirmed', 'got': got[:3], 'why': f.why})
print(res)
for o in out:
    if o['verdict'] == 'FALSE-REPORT': print('FALSE', o['key'], o['got'][:2], o['why'][:100])
json.dump(out, open('/tmp/%s_triage.json' % prop, 'w'), ensure_ascii=False, indent=1)

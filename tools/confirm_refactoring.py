#!/venv/bin/python
"""tools/confirm_refactoring.py <prop> <k> [src_dir]: confirm a sub-agent's behaviour-preserving refactoring in a scratch worktree:
the patch applies to HEAD; its equivalence script prints the same DIGEST on the clean and on the patched tree; the full suite still
passes every test of BASELINE.json's stable_pass.  On success copies patch/equiv/notes to /verif/seeded/refactorings/<prop>-r<k>/."""
import json, os, re, shutil, subprocess, sys, xml.etree.ElementTree as ET
prop, k = sys.argv[1], sys.argv[2]
src = sys.argv[3] if len(sys.argv) > 3 else "/tmp/ref6_%s" % prop
WT = "/tmp/wt_confirm_%s" % prop
def sh(cmd, **kw):
    return subprocess.run(cmd, shell=True, capture_output=True, text=True, **kw)
head = sh("git -C /repo rev-parse HEAD").stdout.strip()
if not os.path.isdir(WT):
    r = sh("git -C /repo worktree add -f --detach %s HEAD" % WT)
    assert r.returncode == 0, r.stderr
sh("git -C %s checkout -q --detach %s; git -C %s checkout -- .; git -C %s clean -fdq" % (WT, head, WT, WT))
patch = "%s/patch%s.diff" % (src, k); equiv = "%s/equiv%s.py" % (src, k)
env = "cd %s && PYTHONPATH=%s /venv/bin/python" % (WT, WT)
def digest(out):
    m = re.findall(r"^DIGEST (\S+)\s*$", out, re.M)
    return m[-1] if m else None
res = {"property": prop, "k": k, "head": head}
r = sh("%s %s" % (env, equiv)); res["clean_exit"] = r.returncode; res["clean_digest"] = digest(r.stdout)
a = sh("git -C %s apply %s" % (WT, patch)); res["applies"] = a.returncode == 0
if a.returncode:
    print("PATCH DOES NOT APPLY", a.stderr[:300]); print(json.dumps(res)); sys.exit(1)
r = sh("%s %s" % (env, equiv)); res["patched_exit"] = r.returncode; res["patched_digest"] = digest(r.stdout)
j = "/tmp/confirmr_%s_%s.xml" % (prop, k)
sh("%s -m pytest -q -p no:cacheprovider --timeout=900 --continue-on-collection-errors --junitxml=%s" % (env, j))
stable = set(json.load(open("/root/.vp/BASELINE.json"))["stable_pass"])
passed = set()
for tc in ET.parse(j).iter("testcase"):
    if not any(c.tag in ("failure", "error", "skipped") for c in tc):
        passed.add(tc.get("classname") + "::" + tc.get("name"))
miss = sorted(stable - passed)
res["suite_missing"] = miss[:10]; res["suite_ok"] = not miss
sh("git -C %s checkout -- .; git -C %s clean -fdq" % (WT, WT))
ok = res["clean_exit"] == 0 and res["patched_exit"] == 0 and res["clean_digest"] and res["clean_digest"] == res["patched_digest"] and res["suite_ok"]
res["confirmed"] = bool(ok)
print(json.dumps(res))
if ok:
    d = "/verif/seeded/refactorings/%s-r%s" % (prop, k)
    os.makedirs(d, exist_ok=True)
    shutil.copy(patch, d + "/patch.diff"); shutil.copy(equiv, d + "/equiv.py")
    notes = src + "/notes.md"
    if os.path.exists(notes): shutil.copy(notes, d + "/agent_notes.md")
    json.dump({"property": prop, "kind": "behaviour-preserving refactoring (the checks must stay silent)", "base_commit": head,
               "source": "independent sub-agent (given only the property text and a scratch worktree)",
               "what_i_ran": ["git apply patch.diff in a scratch worktree of /repo HEAD", "equiv.py on the clean and on the patched tree: same DIGEST %s" % res["clean_digest"],
                              "full pytest suite with the patch: all %d stable_pass tests of BASELINE.json pass" % len(stable)],
               "reported_by": None}, open(d + "/meta.json", "w"), indent=1)

#!/usr/bin/env python3
"""development helper: writes the sub-agent prompts of a seeding round (one file per property) from the previous round's
prompt, replacing the round number, the list of places already used (derived from seeded/*/patch.diff) and the style paragraph.
usage: mkprompts.py <round> <outdir> <style-file>"""
import glob
import json
import os
import re
import sys

HERE = os.path.dirname(os.path.dirname(os.path.abspath(__file__)))


def places(prop):
    out = set()
    for d in sorted(glob.glob(os.path.join(HERE, "seeded", prop + "-*"))):
        try:
            txt = open(os.path.join(d, "patch.diff"), encoding="utf-8").read()
        except OSError:
            continue
        cur = None
        for line in txt.splitlines():
            m = re.match(r"\+\+\+ b/(.*)", line)
            if m:
                cur = m.group(1)
            m = re.match(r"@@ -(\d+).*@@ ?(.*)", line)
            if m and cur:
                ctx = m.group(2).strip()
                fn = re.search(r"(?:def|class) (\w+)", ctx)
                out.add("%s: %s" % (cur, fn.group(1) if fn else "module level (line %s)" % m.group(1)))
    return sorted(out)


def main():
    rnd, outdir, style = int(sys.argv[1]), sys.argv[2], open(sys.argv[3]).read().strip()
    os.makedirs(outdir, exist_ok=True)
    props = [json.loads(l) for l in open(os.path.join(HERE, "properties.jsonl"))]
    prev = os.path.join(HERE, "seeded", "_prompts", "round%d" % (rnd - 1))
    words = {2: "one earlier round", 3: "two earlier rounds", 4: "three earlier rounds", 5: "four earlier rounds", 6: "five earlier rounds"}
    for p in props:
        pid = p["id"]
        t = open(os.path.join(prev, pid + ".txt"), encoding="utf-8").read()
        t = t.replace("wt%d_" % (rnd - 1), "wt%d_" % rnd).replace("mut%d_" % (rnd - 1), "mut%d_" % rnd)
        a = t.index("DIVERSITY REQUIREMENT:")
        b = t.index("NOTE: the tree is at a newer commit")
        div = "DIVERSITY REQUIREMENT: %s already produced mutants for this property at these places:\n%s\n%s\n" % (
            words.get(rnd, "%d earlier rounds" % (rnd - 1)), "\n".join("  - " + x for x in places(pid)), style)
        t = t[:a] + div + t[b:]
        open(os.path.join(outdir, pid + ".txt"), "w", encoding="utf-8").write(t)
    print("wrote", len(props), "prompts to", outdir)


if __name__ == "__main__":
    main()

#!/venv/bin/python
"""tools/twins2.py [twin names...] [--props C01,C02]: development helper - runs the second-generation whole-tree twins through every check
(the same way the self-test does) and prints what each check says.  A twin belongs into the self-test only when every check is silent."""
import os, sys
sys.path.insert(0, os.path.dirname(os.path.dirname(os.path.abspath(__file__))))
from concurrent.futures import ProcessPoolExecutor
from sa.core.repo import Repo
from sa.selftest import transforms as T
from sa.selftest.harness import run_variant, Variant

TWINS = ["fold_returns", "unfold_returns", "guard_clauses", "no_loop_else", "dict_calls", "fstrings"]


def main():
    args = [a for a in sys.argv[1:] if not a.startswith("--")]
    props = ["C%02d" % i for i in range(1, 21)]
    for a in sys.argv[1:]:
        if a.startswith("--props"):
            props = a.split("=", 1)[1].split(",")
    names = args or TWINS
    repo = Repo("/repo")
    # the twin must still be valid python and must differ from the tree
    jobs = []
    for n in names:
        ov = getattr(T, n)(repo)
        changed = sum(1 for f, t in ov.items() if t != __import__("ast").unparse(__import__("ast").parse(repo.text(f))) + "\n")
        for f, t in ov.items():
            compile(t, f, "exec")
        print("%s: %d files differ from the tree" % (n, changed), flush=True)
        edits = [(rel, None, txt) for rel, txt in sorted(ov.items())]
        for p in props:
            jobs.append(("/repo", p, n + ":" + p, edits, "silent", None))
    with ProcessPoolExecutor(max_workers=16) as ex:
        for name, status, info in ex.map(run_variant, jobs):
            if status != "ok":
                print("%-28s %-12s %s" % (name, status, info[:400]), flush=True)
    print("done")


if __name__ == "__main__":
    main()

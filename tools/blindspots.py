#!/venv/bin/python
"""development helper: which functions reachable from the public entry points does NO rule look at?
Runs every property's quick rules in-process, records the `function=` of every obligation and lists the
reachable functions (with their size) that never appear.  Not a check; a map of where to look next."""
import ast
import importlib
import os
import sys

HERE = os.path.dirname(os.path.dirname(os.path.abspath(__file__)))
sys.path.insert(0, HERE)
sys.dont_write_bytecode = True
from sa.core.context import Ctx          # noqa: E402
from sa.core.repo import Repo            # noqa: E402
from sa.core.report import Check         # noqa: E402

ENTRIES = ["dateparser:parse", "dateparser.date:DateDataParser.__init__", "dateparser.date:DateDataParser.get_date_data",
           "dateparser.date:DateDataParser.get_date_tuple", "dateparser.search:search_dates",
           "dateparser.calendars:CalendarBase.parse", "dateparser.timezone_parser:_load_offsets"]


def main():
    ctx = Ctx(Repo(os.environ.get("VERIF_REPO", "/repo")))
    seen = {}
    for i in range(1, 21):
        prop = "C%02d" % i
        if prop in ("C05", "C06") and "--all" not in sys.argv:
            mods = [prop]
        mod = importlib.import_module("sa.rules." + prop.lower())
        chk = Check(prop, "quick", None)
        chk.repo = ctx.repo
        orig = chk.ob

        def ob(rule, construct, ok, detail="", key=None, file=None, function=None, line=None, text=None, path=None, nontrivial=True, _o=orig, _p=prop):
            fn = function or (key or {}).get("function")
            if fn:
                seen.setdefault(fn.split(":")[-1], set()).add(rule)
            if isinstance(key, dict) and key.get("function"):
                seen.setdefault(str(key["function"]).split(":")[-1], set()).add(rule)
            return _o(rule, construct, ok, detail, key, file, function, line, text, path, nontrivial)
        chk.ob = ob
        try:
            mod.run(ctx, chk)
        except Exception as e:
            print("!!", prop, type(e).__name__, e)
    reach = ctx.cg.reachable([k for k in ENTRIES if k in ctx.ix.funcs])
    rows = []
    for fk in sorted(reach):
        f = ctx.ix.funcs[fk]
        if not f.module.rel.startswith("dateparser/") or f.module.rel.startswith("dateparser/data/") or isinstance(f.node, ast.Lambda):
            continue
        size = sum(1 for _ in ast.walk(f.node))
        rules = seen.get(f.qual, set())
        rows.append((len(rules), -size, f.key, sorted(rules)))
    rows.sort()
    for n, size, k, rules in rows:
        if n <= int(os.environ.get("MAXRULES", "1")):
            print("%2d rules  %4d nodes  %s  %s" % (n, -size, k, ",".join(rules)))
    print(len(rows), "reachable functions;", sum(1 for r in rows if r[0] == 0), "never named by an obligation")


if __name__ == "__main__":
    main()

#!/venv/bin/python
"""Run the checks against a seeded change: tools/seedtest.py <patch.diff> [ids...]
Applies the patch in a dedicated scratch worktree of /repo (/tmp/wt_seedtest), runs ./check <id> --repo <worktree>
for every property (or the given ids), reports which exit 1 (VIOLATION) / 2 (ANALYSIS-ERROR), then resets the worktree."""
import json, os, subprocess, sys
WT = os.environ.get("SEEDTEST_WT", "/tmp/wt_seedtest")
def sh(*a, **k):
    return subprocess.run(a, capture_output=True, text=True, **k)
def main():
    patch = os.path.abspath(sys.argv[1])
    ids = sys.argv[2:] or ["C%02d" % i for i in range(1, 21)]
    if not os.path.isdir(WT):
        r = sh("git", "-C", "/repo", "worktree", "add", "-f", "--detach", WT, "HEAD")
        if r.returncode: print(r.stderr); sys.exit(3)
    sh("git", "-C", WT, "checkout", "-q", "--detach", sh("git", "-C", "/repo", "rev-parse", "HEAD").stdout.strip())
    sh("git", "-C", WT, "checkout", "--", ".")
    sh("git", "-C", WT, "clean", "-fdq")
    r = sh("git", "-C", WT, "apply", patch)
    if r.returncode:
        print("patch does not apply:", r.stderr); sys.exit(3)
    out = {}
    from concurrent.futures import ThreadPoolExecutor
    def run(i):
        env = dict(os.environ, VERIF_JOBS="4", VERIF_EVIDENCE_DIR=os.environ.get("SEEDTEST_EVIDENCE", "/tmp/seedtest_evidence"))
        ev = "/tmp/seedtest_evidence"
        r = subprocess.run(["/verif/check", i, "--repo", WT], capture_output=True, text=True, cwd="/verif", env=env)
        lines = [l for l in r.stdout.splitlines() if l.startswith(("VIOLATION", "ANALYSIS-ERROR", "  rule="))]
        return i, r.returncode, lines
    with ThreadPoolExecutor(6) as ex:
        for i, code, lines in ex.map(run, ids):
            out[i] = code
            if code:
                print(i, "exit", code)
                for l in lines[:6]: print("    ", l[:220])
    sh("git", "-C", WT, "checkout", "--", ".")
    sh("git", "-C", WT, "clean", "-fdq")
    print("SUMMARY", json.dumps({k: v for k, v in out.items() if v}))
    # evidence files were rewritten by these runs against the scratch tree: callers should re-run the real checks before committing evidence
if __name__ == "__main__":
    main()

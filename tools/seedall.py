#!/venv/bin/python
"""tools/seedall.py [--from-log file] [ids...]: run every registered check (quick tier) against every seeded change under
/verif/seeded/<id>/patch.diff (in the scratch worktree used by tools/seedtest.py), record which checks report a
violation in each meta.json (detected_by) and write seeded/RESULTS.md.  Never touches /repo."""
import glob, json, os, re, subprocess, sys
ROOT = "/verif/seeded"
def main():
    args = sys.argv[1:]
    log = None
    if args[:1] == ["--from-log"]:
        log = open(args[1]).read(); args = args[2:]
    dirs = sorted(d for d in glob.glob(ROOT + "/C*-*") if os.path.isdir(d))
    if args:
        dirs = [d for d in dirs if os.path.basename(d) in args or os.path.basename(d).split("-")[0] in args]
    res = {}
    if log:
        cur = None
        for l in log.splitlines():
            if l.startswith("=== "): cur = l[4:].strip()
            elif l.startswith("SUMMARY") and cur: res[cur] = json.loads(l[8:])
    for d in dirs:
        n = os.path.basename(d)
        if n in res: continue
        r = subprocess.run(["/verif/tools/seedtest.py", d + "/patch.diff"], capture_output=True, text=True)   # honours SEEDTEST_WT / SEEDTEST_EVIDENCE
        m = re.search(r"^SUMMARY (.*)$", r.stdout, re.M)
        if not m:
            print(n, "seedtest failed:", r.stdout[-300:], r.stderr[-300:]); continue
        res[n] = json.loads(m.group(1))
        print(n, res[n], flush=True)
    for n, codes in res.items():
        mp = "%s/%s/meta.json" % (ROOT, n)
        if not os.path.exists(mp): continue
        meta = json.load(open(mp))
        meta["detected_by"] = sorted(k for k, v in codes.items() if v == 1)
        meta["analysis_errors"] = sorted(k for k, v in codes.items() if v == 2)
        json.dump(meta, open(mp, "w"), indent=1, ensure_ascii=False)
    # RESULTS.md from all meta.json
    rows = []
    for d in sorted(glob.glob(ROOT + "/C*-*")):
        mp = d + "/meta.json"
        if not os.path.exists(mp): continue
        meta = json.load(open(mp))
        files = sorted(set(re.findall(r"^\+\+\+ b/(\S+)", open(d + "/patch.diff").read(), re.M)))
        rows.append((os.path.basename(d), meta["breaks"], ", ".join(files), meta.get("summary", ""), ", ".join(meta.get("detected_by") or []) or "—",
                     ", ".join(meta.get("analysis_errors") or [])))
    with open(ROOT + "/RESULTS.md", "w") as f:
        f.write("# Seeded changes (independent sub-agents) and the checks that report them\n\n"
                "Each change was produced by a fresh sub-agent that saw only the property text and a scratch worktree; each was "
                "confirmed (patch applies, demo exits 0 on the clean tree and 1 with the patch, the pinned suite still passes) "
                "with tools/confirm_seed.py; detection is the quick tier of every registered check run with tools/seedall.py.\n\n"
                "| id | breaks | files | change | reported by (exit 1) | analysis-broken (exit 2) |\n|---|---|---|---|---|---|\n")
        for r in rows:
            f.write("| %s | %s | %s | %s | %s | %s |\n" % r)
        own = sum(1 for r in rows if r[1] in r[4].split(", "))
        anyc = sum(1 for r in rows if r[4] != "—")
        f.write("\n%d changes; %d reported by at least one check; %d reported by the check of the property the change was written against.\n" % (len(rows), anyc, own))
    print("wrote RESULTS.md:", len(rows), "rows")
if __name__ == "__main__":
    main()

#!/usr/bin/env python3
"""development helper: writes seeded/refactorings/RESULTS.md from the logs of tools/seedtest.py runs over the confirmed
behaviour-preserving refactorings (one log per shard: '=== <id>' followed by the lines seedtest printed, ending in SUMMARY {...}).
usage: refall.py <log files...>"""
import glob, json, os, re, sys
HERE = os.path.dirname(os.path.dirname(os.path.abspath(__file__)))
rows = {}
cur = None
for path in sys.argv[1:]:
    for line in open(path, encoding="utf-8", errors="replace"):
        m = re.match(r"=== (\S+)", line)
        if m:
            cur = m.group(1)
            rows[cur] = {"summary": {}, "violations": 0}
        elif cur and "VIOLATION" in line:
            rows[cur]["violations"] += 1
        elif cur and line.startswith("SUMMARY"):
            rows[cur]["summary"] = json.loads(line.split(" ", 1)[1])
out = ["# Behaviour-preserving refactorings (independent sub-agents) and what the checks say about them", "",
       "Each refactoring was confirmed by tools/confirm_refactoring.py (patch applies to HEAD, its equivalence script prints the same digest on the",
       "clean and on the patched tree, the pinned suite still passes).  Expected: silence.  `exit 2` = ANALYSIS-ERROR (the check says it cannot",
       "decide the restructured code), `exit 1` = a VIOLATION line, i.e. a false alarm.", "",
       "| id | property it was written for | files | silent | exit 2 (cannot decide) | exit 1 (false alarm) |", "|---|---|---|---|---|---|"]
silent = e2 = e1 = 0
for rid in sorted(rows):
    d = os.path.join(HERE, "seeded", "refactorings", rid)
    files = sorted(set(re.findall(r"^\+\+\+ b/(.*)$", open(os.path.join(d, "patch.diff")).read(), re.M)))
    s = rows[rid]["summary"]
    x2 = sorted(k for k, v in s.items() if v == 2)
    x1 = sorted(k for k, v in s.items() if v == 1)
    if not s:
        silent += 1
    elif x1:
        e1 += 1
    else:
        e2 += 1
    out.append("| %s | %s | %s | %s | %s | %s |" % (rid, rid.split("-")[0], ", ".join(files), "yes" if not s else "", ", ".join(x2), ", ".join(x1)))
    meta = os.path.join(d, "meta.json")
    if os.path.exists(meta):
        mj = json.load(open(meta))
        mj["reported_by"] = {"exit_1": x1, "exit_2": x2}
        json.dump(mj, open(meta, "w"), indent=1)
out += ["", "%d refactorings: %d silent on all 20 checks, %d with at least one ANALYSIS-ERROR and no VIOLATION, %d with a VIOLATION line." % (len(rows), silent, e2, e1)]
open(os.path.join(HERE, "seeded", "refactorings", "RESULTS.md"), "w").write("\n".join(out) + "\n")
print(out[-1])

#!/venv/bin/python
"""development helper: writes sa/known_functions.json - the functions of the pinned tree the rule instances were confirmed against
(by reading).  A function that is not in this list is one no rule author has looked at: findings located in it, or in a function
that calls it or is called by it directly, are reported as ANALYSIS-ERROR (cannot decide), not as VIOLATION (see sa/core/unconfirmed.py)."""
import ast, json, os, sys
HERE = os.path.dirname(os.path.dirname(os.path.abspath(__file__)))
sys.path.insert(0, HERE)
from sa.core.repo import Repo
from sa.core.index import Index
ix = Index(Repo(os.environ.get("VERIF_REPO", "/repo")))
ix2 = Index(Repo(os.environ.get("VERIF_REPO", "/repo")), roots=["dateparser_scripts"])
keys = sorted(k for k, f in list(ix.funcs.items()) + list(ix2.funcs.items()) if not isinstance(f.node, ast.Lambda))
# attributes every class of the pinned tree has (class-level assignments and self.X / cls.X stores in its methods): a store to an
# attribute that is NOT in this list creates new state, it cannot be a moved construct
state = {}
for ck, c in ix.classes.items():
    names = set(c.attrs)
    for n in ast.walk(c.node):
        if isinstance(n, ast.Attribute) and isinstance(n.ctx, ast.Store) and isinstance(n.value, ast.Name) and n.value.id in ("self", "cls"):
            names.add(n.attr)
        if isinstance(n, ast.Call) and isinstance(n.func, ast.Name) and n.func.id == "setattr" and len(n.args) == 3 and isinstance(n.args[1], ast.Constant):
            names.add(str(n.args[1].value))
    state[ck] = sorted(names)
json.dump({"_comment": "function keys and per-class attribute names of the pinned tree (tools/mkinventory.py)", "functions": keys, "state": state},
          open(os.path.join(HERE, "sa", "known_functions.json"), "w"), indent=0)
print(len(keys), "functions;", sum(len(v) for v in state.values()), "attributes of", len(state), "classes")

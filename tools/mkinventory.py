#!/venv/bin/python
"""development helper: writes sa/known_functions.json - the functions of the pinned tree the rule instances were confirmed against
(by reading).  A function that is not in this list is one no rule author has looked at: findings located in it, or in a function
that calls it or is called by it directly, are reported as ANALYSIS-ERROR (cannot decide), not as VIOLATION (see sa/core/unconfirmed.py)."""
import ast, json, os, sys
HERE = os.path.dirname(os.path.dirname(os.path.abspath(__file__)))
sys.path.insert(0, HERE)
from sa.core.repo import Repo
from sa.core.index import Index
ix = Index(Repo(os.environ.get("VERIF_REPO", "/repo")))
ix2 = Index(Repo(os.environ.get("VERIF_REPO", "/repo")), roots=["dateparser_scripts"])
keys = sorted(k for k, f in list(ix.funcs.items()) + list(ix2.funcs.items()) if not isinstance(f.node, ast.Lambda))
json.dump({"_comment": "function keys of the pinned tree (tools/mkinventory.py)", "functions": keys},
          open(os.path.join(HERE, "sa", "known_functions.json"), "w"), indent=0)
print(len(keys), "functions")

#!/venv/bin/python
"""tools/confirm_seed.py <prop> <k> [src_dir [out_k]]: confirm a sub-agent's mutant in the scratch worktree /tmp/wt_confirm:
patch applies to HEAD; demo exits 0 on the clean tree and 1 with the patch; the full suite still passes every test of
BASELINE.json's stable_pass. On success copies patch/demo/notes to /verif/seeded/<prop>-<k>/ and writes meta.json."""
import json, os, shutil, subprocess, sys, xml.etree.ElementTree as ET
prop, k = sys.argv[1], sys.argv[2]
src = sys.argv[3] if len(sys.argv) > 3 else "/tmp/mut_%s" % prop
out_k = sys.argv[4] if len(sys.argv) > 4 else k
WT = "/tmp/wt_confirm_%s" % prop
def sh(cmd, **kw):
    return subprocess.run(cmd, shell=True, capture_output=True, text=True, **kw)
head = sh("git -C /repo rev-parse HEAD").stdout.strip()
if not os.path.isdir(WT):
    r = sh("git -C /repo worktree add -f --detach %s HEAD" % WT)
    assert r.returncode == 0, r.stderr
sh("git -C %s checkout -q --detach %s; git -C %s checkout -- .; git -C %s clean -fdq" % (WT, head, WT, WT))
patch = "%s/patch%s.diff" % (src, k); demo = "%s/demo%s.py" % (src, k)
env = "cd %s && PYTHONPATH=%s /venv/bin/python" % (WT, WT)
res = {"property": prop, "k": k, "head": head}
r = sh("%s %s" % (env, demo)); res["demo_clean_exit"] = r.returncode; res["demo_clean_out"] = r.stdout[-600:]
a = sh("git -C %s apply %s" % (WT, patch)); res["applies"] = a.returncode == 0
if a.returncode:
    print("PATCH DOES NOT APPLY", a.stderr); print(json.dumps(res, indent=1)); sys.exit(1)
r = sh("%s %s" % (env, demo)); res["demo_mutant_exit"] = r.returncode; res["demo_mutant_out"] = r.stdout[-600:]
j = "/tmp/confirm_%s_%s.xml" % (prop, k)
sh("%s -m pytest -q -p no:cacheprovider --timeout=900 --continue-on-collection-errors --junitxml=%s" % (env, j))
stable = set(json.load(open("/root/.vp/BASELINE.json"))["stable_pass"])
passed = set()
for tc in ET.parse(j).iter("testcase"):
    if not any(c.tag in ("failure", "error", "skipped") for c in tc):
        passed.add(tc.get("classname") + "::" + tc.get("name"))
miss = sorted(stable - passed)
res["suite_missing"] = miss[:10]; res["suite_ok"] = not miss
sh("git -C %s checkout -- .; git -C %s clean -fdq" % (WT, WT))
ok = res["demo_clean_exit"] == 0 and res["demo_mutant_exit"] == 1 and res["suite_ok"]
res["confirmed"] = ok
print(json.dumps({x: res[x] for x in ("confirmed", "demo_clean_exit", "demo_mutant_exit", "suite_ok", "suite_missing")}))
if ok:
    d = "/verif/seeded/%s-%s" % (prop, out_k)
    os.makedirs(d, exist_ok=True)
    shutil.copy(patch, d + "/patch.diff"); shutil.copy(demo, d + "/demo.py")
    notes = src + "/notes.md"
    if os.path.exists(notes): shutil.copy(notes, d + "/agent_notes.md")
    meta = {"property": prop, "breaks": prop, "source": "independent sub-agent (given only the property text and a scratch worktree)",
            "base_commit": head,
            "what_i_ran": ["git apply patch.diff in a scratch worktree of /repo HEAD", "demo.py on the clean tree -> exit 0",
                           "demo.py with the patch -> exit 1", "full pytest suite with the patch: all %d stable_pass tests of BASELINE.json pass" % len(stable)],
            "demo_output_clean": res["demo_clean_out"][-300:], "demo_output_mutant": res["demo_mutant_out"][-300:],
            "needs_to_manifest": "see agent_notes.md", "detected_by": None}
    json.dump(meta, open(d + "/meta.json", "w"), indent=1, ensure_ascii=False)

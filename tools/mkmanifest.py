#!/venv/bin/python
"""Regenerates MANIFEST.json from the table below (development helper)."""
import json, os, subprocess
HERE = os.path.dirname(os.path.dirname(os.path.abspath(__file__)))
props = [json.loads(l) for l in open(os.path.join(HERE, "properties.jsonl"))]

CLAIMED = {
 "C02": dict(cat="other", tech="exception-escape dataflow over resolved call graph + CFG dominance + table agreement (ast)",
   text="Decides, for every path from parse/DateDataParser.__init__/get_date_data/get_date_tuple: no exception class born at a modelled raising operation (datetime/pytz arithmetic, int/strptime/datetime(), None-able match objects, look-ahead subscripts, dynamic regexes, explicit raises, asserts) can escape, except TypeError/ValueError raised by the argument-validation functions; check_settings dominates the store of the settings and every normal exit of the constructor; a caller-supplied settings dict always builds and validates a parser; every dispatch dict covers the value set its setting is validated against; the str type guard dominates every use of the input. Does not decide exceptions from operations outside the primitive table.",
   note="Trusted: CPython ast; the primitive may-raise table of DESIGN 1.1; call resolution by class hierarchy + light type inference with name-based fallback; 14 exemptions each with a precondition re-checked on every run (listed in the evidence).",
   ref="DESIGN.md §4 C02"),
 "C04": dict(cat="other", tech="table agreement + handler coverage + guard truth table + linear-form extraction (ast)",
   text="Decides structural necessary conditions of exact relative arithmetic: unit vocabulary agrees across regex, word filter, known-word list, future-word table and relativedelta keywords; decades folded into years with factor 10; the freshness handler covers the parser's whole may-raise set and yields None; the add/subtract decision is equivalent to in ∨ (future ∧ ¬ago) (8-row truth table); period candidates weeks<months<years only without days; the parsed clock time replaces hour/minute/second/microsecond; English fixed words sit under canonical keys with the documented shift. Does not decide relativedelta's arithmetic.",
   note="Trusted: the unit semantics of dateutil.relativedelta; regex package for compiling table patterns.", ref="DESIGN.md §4 C04"),
 "C17": dict(cat="other", tech="exception-escape dataflow incl. look-ahead index rule + structural shape rules (ast)",
   text="Decides: from search_dates no modelled raising operation escapes except the documented argument validation (look-ahead subscripts need a bound guard or covering handler; divisions need a zero guard; assembled regexes must be built from compiling constants and re.escape()d text); hit and substring lists are appended pairwise; nothing on the hit flow sorts/reverses/sets; the list is returned only when truthy; the attached language is the single search language. Does not decide non-blank / substring-of-text.",
   note="Same trusted base as C02.", ref="DESIGN.md §4 C17"),
}
CLAIMED.update({
 "C16": dict(cat="translation_validation", tech="static artefact comparison: modelled generator vs shipped modules; symbolic pickle disassembly vs table rebuilt from literals (ast, pickletools)",
   text="Decides the property as stated, without running any generator: all language modules are byte-equal to a model of write_complete_data applied to the CLDR JSON, supplementary YAML and base YAML (model literals extracted from the generator's AST each run, skeleton and both combine_dicts copies conformance-checked); the pickled timezone table (names, patterns, IGNORECASE flag, offsets, both search regexes, stored hash) equals the table rebuilt from timezones.py by a conformance-checked model of build_tz_offsets; language_order / language_locale_dict / language_map agree with the module set and the modules' locale_specific keys.",
   note="Trusted: stdlib json/zlib/pickletools; the YAML-subset reader (exit 2 outside the subset; cross-validated against PyYAML at development time); the regex package applied to table patterns; the compiled-code blob inside each pickled regex is assumed to belong to its (pattern, flags).", ref="DESIGN.md §4 C16"),
 "C19": dict(cat="other", tech="handler-coverage, CFG definite-assignment and must-pass-through rules (ast + CFG with exception edges)",
   text="Decides: the try around open+pickle.load+unpack in _load_offsets handles every exception class a missing, empty, truncated or garbage cache can raise and falls through to the rebuild; on every path to a normal return the three module tables are assigned (exception edges out of the unpack do not count); every normal return is either the early return dominated by the complete unpack or passes through the pickle.dump of the same tuple; none of those classes escapes the module's import-time code; MANIFEST.in ships the file CACHE_PATH denotes.",
   note="Assumes a proper prefix of a pickle stream makes pickle.load raise (no STOP opcode), so 'cut off at any byte' reduces to handler coverage. The atomic-write clause of DESIGN (C19.R2) is not claimed: with complete handler coverage an in-place write cannot break the property.", ref="DESIGN.md §4 C19"),
})
CLAIMED.update({
 "C11": dict(cat="other", tech="first-match shadowing analysis of the ordered regex table + structural rules (table evaluation, ast)",
   text="Decides: for every abbreviation listed with one offset (upper and lower case) and every supported UTC offset in 8-10 spellings, the first table entry whose regex matches carries exactly the listed offset and the case-insensitive prefilter admits it (exhaustive over the table; the pickle is proved equal to this table by C16); pop_tz_offset_from_string uses the IGNORECASE prefilter, pairs name and offset of the same entry, returns the first match and keeps the captured leading character; StaticTzInfo has a constant offset, zero dst, a wall-clock-preserving localize and a __getinitargs__ mirroring __init__; DateParser.parse attaches the zone before any conversion; zone-less strings stay naive by default. Does not decide strings carrying several zone-like tokens.",
   note="Trusted: the regex package for evaluating table patterns on table strings; the model of build_tz_offsets (conformance-checked, exit 2 if the function changes shape).", ref="DESIGN.md §4 C11"),
 "C12": dict(cat="other", tech="guard truth tables (concrete evaluation), naive/aware typestate with reaching definitions, CFG ordering (ast)",
   text="Decides: in the absolute, relative and helper (timestamp/custom-format) pipelines the tzinfo strip is enabled exactly for RETURN_AS_TIMEZONE_AWARE=False or (default and no zone in the string) - all 15 setting/zone rows evaluated concretely; every replace(tzinfo=Z)/Z.localize(d) acts on a provably naive value (dominating tzinfo test, naive constructor via reaching definitions, or all callers pass naive values) so aware values change zone only via astimezone; the single TO_TIMEZONE conversion is guarded by exactly the setting's truthiness, never follows the strip, and follows every application of TIMEZONE; timestamps are expressed in TIMEZONE by fromtimestamp(seconds, zone). Does not decide DST gaps/ambiguity, pytz tables or tzlocal.",
   note="Assumes custom formats carry no %z (strptime results are naive); absolute parser results are naive (params literal without tzinfo: checked).", ref="DESIGN.md §4 C12"),
})
CLAIMED.update({
 "C03": dict(cat="other", tech="alias/taint dataflow to mutation sinks; restore-on-all-exits on a CFG with class-refined exception edges; cache single-writer/key/eviction rules (ast)",
   text="Decides necessary conditions of history independence: no in-place mutation is reachable through any alias of the caller's containers (settings dict, its list values, languages, locales, date_formats; interprocedural, field-based); every temporary store to a field of a Settings object (cached per settings hash, hence shared between calls) is stored back from a saved value on every normal and exceptional exit of the function or of all its callers; the five class-level dictionary caches are written only by _add_to_cache, keyed by (settings hash, globally distinct locale name), with an eviction that cannot remove the entry just written; the settings hash digests every key with its value; no set-typed value is joined, indexed or early-returned from. Does not decide equality of results across arbitrary histories.",
   note="Lazy per-locale attributes that depend on the first caller's SKIP_TOKENS are NOT armed here (no history with a differing result could be produced); they appear in C20's inventory only. Exemption with checked precondition: settings.NORMALIZE = True in Locale._get_split_dictionary.", ref="DESIGN.md §4 C03"),
})
CLAIMED.update({
 "C08": dict(cat="other", tech="guard-formula extraction with finite truth tables; option/directive table agreement (ast)",
   text="Decides: none of the statements that change the result in the absolute parser's correction stages is enabled for a date that states day, month and a four-digit year (guards evaluated over all assignments of the token/preference atoms); the month (day) completion is disabled whenever the string states the month (day) and enabled for year-only (month-year) strings; the month is completed before the day; the option dicts map first->1, last->last valid day of that year/month resp. 12, current->reference value else clock, with a ValueError fallback to `last` (clamp); callers pass the reference day/month; the directive table deciding which parts a custom format states agrees with strptime's semantics for every standard directive; period follows the finest part present. Does not decide calendar.monthrange or periods of arbitrary strings.",
   note="Trusted: the directive->parts oracle taken from the Python documentation; component parsed <=> its token attribute set (constraint of the truth tables).", ref="DESIGN.md §4 C08"),
 "C09": dict(cat="other", tech="guard implication (pairwise unsatisfiability) + sign analysis over the extracted effect pipeline (ast)",
   text="Decides: for every shift effect and every later absolute set of month/day the guard conjunction is unsatisfiable (otherwise KNOWN-FINDING: the month completion clobbers weekday-only and time-only shifts - pinned by an existing test); every shift enabled under 'past' is <= 0 and under 'future' >= 0 (sign domain {-,0,+}; counters shown non-negative); non-weekday shifts need an explicit past/future preference; the same-weekday step is 7 under past/future and 0 otherwise; the comparisons against the reference instant point the right way. Does not decide nearest-occurrence arithmetic or the Feb-29 repair.",
   note="Same extraction and constraints as C08.", ref="DESIGN.md §4 C09"),
 "C10": dict(cat="other", tech="non-interference (raise-only reader), must-pass-through on CFG dominators with callee summaries, context rule for clock reads (ast)",
   text="Decides: STRICT_PARSING/REQUIRE_PARTS are read only in a function whose sole effect is raising ValueError and whose calls are statements, so strictness can only reject; every completion site (set_correct_*_from_settings, `part or now.part` defaults, datetime.today() in the custom-format parser) is dominated by a filter call that receives the computed missing parts - directly, through a callee all of whose exits are dominated by the filter, or in all callers; a format rejected by the filter is skipped; every read of the reference time / system clock in the absolute and custom-format paths is a default of `part or ...`, a comparison operand, an initialisation of self.now, or under a missing-part guard. Does not decide fall-through to later parsers/locales.",
   note="The two-digit-year century choice is the one accepted clock dependence (C09's subject).", ref="DESIGN.md §4 C10"),
 "C20": dict(cat="other", tech="ownership fixpoint + inventory/classification of writes to process-wide state (lockset-style, ast + type inference)",
   text="Decides the static part: every attribute/item store, delete, setattr and mutating call whose receiver is process-wide (module variables, class attributes, class-level containers, fields of shared instances - least fixpoint) and that is reachable from the public API is construction of an unpublished object, a keyed memo, an argument-independent and completely published lazy memo, lock-protected, or guarded by a feature the property excludes; every other write is reported with its site. The 15 sites reported on today's tree are genuine (each confirmed with a one-preemption schedule A|B|A against the real code, scripts under triage/witness) and are listed as known findings; any additional unsynchronised shared write, temporary override, per-call value on a singleton or partially published cache is a new VIOLATION. Does not enumerate interleavings.",
   note="Class-based ownership with two instance-level refinements (fresh local from a constructor call; objects reachable only through a reported publication). Two checked exemptions: settings.NORMALIZE=True on the default Settings; cached values whose argument-dependent part has no reader (_wordchars, _splitters).", ref="DESIGN.md §4 C20"),
})
CLAIMED.update({
 "C01": dict(cat="other", tech="regex-AST / linear-form agreement, table agreement, guard truth tables (ast, re._parser)",
   text="Decides structural necessary conditions only: the timestamp regexes have the shape ^-?(10 digits)(3 digits)?(3 digits)? and get_date_from_timestamp feeds group 1 alone to fromtimestamp and computes microsecond = 1000*g2 + g3 (linear form extracted); the %f recovery pads to the 6 digits the microsecond group allows; the month/weekday names the translator emits are exactly the patched strptime tables and every English name/3-letter abbreviation maps to itself in both NORMALIZE modes; no correction stage is enabled for a complete four-digit-year date under any PREFER_* setting (with or without a clock time). Does NOT decide the round trip of arbitrary datetimes through tokenisation and strptime.",
   note="Partial by nature (see DESIGN): the calendar round trip quantifies over values.", ref="DESIGN.md §4 C01"),
 "C05": dict(cat="other", tech="dead-entry analysis of vocabulary tables against the code-extracted pre-lookup rewriting (ast-extracted model + regex evaluation of table patterns on table strings)",
   text="Decides, exhaustively over 504 locales x NORMALIZE on/off (39k name instances): every month/weekday name listed with a single meaning still contains a dictionary key of that meaning after sanitize -> numeral translation -> NFKD normalisation -> simplifications (all extracted from the code each run), is not shadowed by a hard-coded token or lost in the normalised dictionary's conflict policy, and is not torn apart by a counted relative pattern; vocabulary alternations are built longest-first. 119 entries fail today (fr 'sept', vi 'Tháng năm', Indic/Thai/Burmese abbreviations that lose a combining mark, ...); each was confirmed against the real parser and is a KNOWN-FINDING. Does not decide tokenisation of multi-word names or the weekday date arithmetic; names containing numerals are not decided.",
   note="Model parameters are extracted and conformance-checked (exit 2 on a shape change). Trusted: regex package, unicodedata.", ref="DESIGN.md §4 C05"),
 "C06": dict(cat="other", tech="grammar membership of table keys under the extracted acceptor + shadowing analysis (ast-extracted model, regex evaluation on table strings)",
   text="Decides, over all 504 locales: every canonical relative key (13.9k, with \\1 instantiated by integers and a decimal) is accepted by the freshness parser's own word filter and yields a (count, unit) under its PATTERN; every counted pattern compiles the way the code compiles it, in both modes, with the number as capturing group 1; every single-meaning fixed phrase (19.8k instances) is not shadowed after the extracted rewriting and is not split by a counted pattern of its locale. 7 findings remain (lo 'today' reads as March; id 'minggu ini/lalu/depan'), confirmed against the real parser, KNOWN-FINDING. Does not decide equality of the resulting datetimes.",
   note="Same model as C05.", ref="DESIGN.md §4 C06"),
 "C07": dict(cat="other", tech="table agreement + guard facts + def-use plumbing (ast)",
   text="Decides: the six-order tables agree letter by letter (chart_list components, date_order_chart directives, no-spaces per-order tables and their sort keys, numeric directive table); all 504 locales carry a valid date_order or none; the locale's order is stored into DATE_ORDER only under PREFER_LOCALE_DATE_ORDER and 'DATE_ORDER not in the caller's settings', with the saved order as fallback, before the parse call that receives the same settings; ordered_num_directives is built from resolve_date_order(settings.DATE_ORDER, lst=True) and drives the numeric assignment loop; the year is pinned only by a four-character token taken as year. Does not decide which field a concrete token lands in.",
   note="", ref="DESIGN.md §4 C07"),
 "C13": dict(cat="other", tech="CFG reachability between yield groups, keyword/attribute plumbing, guard facts (ast + CFG)",
   text="Decides: _get_applicable_locales can never yield a default-language locale before a requested one, nor a requested one before a previous one (reachability on the CFG); previous locales only under try_previous_locales, defaults only when DEFAULT_LANGUAGES is set; the loader is called with exactly the constructor's languages/locales/region/use_given_order, which parse() forwards by keyword; requested locales are yielded only if applicable; the reported locale is the shortname of the locale being tried and the first valid result returns; the loader sorts by language_order.index only when use_given_order is false and rejects unknown languages/locales before its first yield. Does not decide applicability or equality with single-language runs.",
   note="", ref="DESIGN.md §4 C13"),
 "C14": dict(cat="other", tech="CFG dominance + plumbing + directive-table agreement (ast + CFG)",
   text="Decides: in get_date_data the given formats are applied to the raw argument before sanitising and before any locale work, and a match is returned; parse_with_formats walks the formats in order with strptime, continues on mismatch and returns the first match; month/day completion and the current-year default are each guarded by 'the format lacks that part', and the table deciding that agrees with strptime's directive semantics; the localized path translates with keep_formatting=True, the heuristic parsers with False. Does not decide the strptime round trip.",
   note="", ref="DESIGN.md §4 C14"),
 "C15": dict(cat="other", tech="table well-formedness + ordered-rewrite interference analysis + plumbing (ast, table evaluation)",
   text="Decides: the Jalali month table has 12 entries whose stored index equals their position (the code derives the month number from the position), lengths 31x6/30x5/29; the digit table is the Unicode-value bijection onto 0..9; spelled days cover 0..31 without duplicates; to_latin's step order (extracted) and the ordered list of 72 str.replace pairs contain no earlier pattern that is a proper substring of a later one with a different replacement, and no spelled day contains a suffix the ordinal strip removes; year/month/day reach to_gregorian by keyword and the clock fields are carried over unchanged; the Hijri wrapper forwards the same keywords. Does not decide the conversion arithmetic (convertdate / hijridate).",
   note="", ref="DESIGN.md §4 C15"),
 "C18": dict(cat="other", tech="taint analysis (source: raw date string, sanitiser: numeral translation) to regex-literal sinks + regex-AST digit-class query (ast, re._parser)",
   text="Decides the digit-script clause: every regex literal applied to the date string before Locale._translate_numerals (13 sites: sanitize_date, sanitize_spaces, the timestamp regexes) is free of constructs that separate ASCII digits from other Unicode decimal digits; numeral translation dominates all vocabulary work in translate/is_applicable and converts exactly the str.isdecimal runs with their width preserved. The whitespace clause is NOT decided (no sound structural rule; see DESIGN).",
   note="Table-driven timezone regexes are outside R1.", ref="DESIGN.md §4 C18"),
})
NA_REASON = {}

def main():
    fixes = subprocess.run(["git", "-C", "/repo", "log", "--format=%H %s"], capture_output=True, text=True).stdout.splitlines()
    fix_commits = [l.split()[0] for l in fixes if l.split(" ", 1)[1].startswith("fix:")]
    checks = []
    for p in props:
        c = CLAIMED.get(p["id"])
        if not c:
            continue
        checks.append({
            "property_id": p["id"],
            "quick_cmd": "./check %s" % p["id"],
            "thorough_cmd": "./check %s --tier thorough" % p["id"],
            "evidence_file": "/verif/evidence/%s.json" % p["id"],
            "replay_cmd_template": "./check %s --explain {path}" % p["id"],
            "engine": "sa",
            "level_claimed": {"category": c["cat"], "text": c["text"], "design_ref": c["ref"]},
            "level_note": c["note"],
            "technique": c["tech"],
        })
    na = [{"property_id": p["id"], "reason": NA_REASON.get(p["id"], "check not yet implemented in this session (planned in DESIGN.md); not claimed")}
          for p in props if p["id"] not in CLAIMED]
    m = {
        "version": 1,
        "setup_cmd": "true",
        "hooks": {"guard": "SCRAPINGHUB_DATEPARSER_VERIF",
                  "enable": "no hooks: every check reads /repo's source files (ast, literal tables, pickle bytes) and never imports or runs them; the guard variable is unused",
                  "baseline_off_cmd": "cd /repo && /venv/bin/python -m pytest -ra -q -p no:cacheprovider --timeout=900 --continue-on-collection-errors",
                  "source_commits": fix_commits, "add_only": True},
        "engines": [{"name": "sa", "path": "/verif/sa", "serves_properties": sorted(CLAIMED),
                     "kind_free_text": "repository-specific static analysis on Python ast: index, type inference, resolved call graph, statement CFG with exception edges and dominators, exception-escape fixpoint, ownership/heap inventory, guard formulas with truth tables, regex ASTs, literal-table / YAML-subset / pickle-opcode readers"}],
        "checks": checks,
        "notes": "All checks are static (source text only). Exit 0 = obligations discharged (KNOWN-FINDING lines for listed findings), 1 = VIOLATION, 2 = ANALYSIS-ERROR (anchor vanished / idiom not understood). known_findings.json lists known and fixed findings; hooks.source_commits lists the unguarded fix: commits in /repo.",
        "not_applicable": na,
    }
    json.dump(m, open(os.path.join(HERE, "MANIFEST.json"), "w"), indent=1, ensure_ascii=False)
    print("checks:", [c["property_id"] for c in checks], "n/a:", len(na))

if __name__ == "__main__":
    main()

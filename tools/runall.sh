#!/bin/sh
# development helper: run every registered quick (or thorough with $1=thorough) check and summarise
cd /verif
tier=${1:-quick}
fail=0
for i in 01 02 03 04 05 06 07 08 09 10 11 12 13 14 15 16 17 18 19 20; do
  out=$(./check C$i --tier $tier 2>&1); code=$?
  line=$(echo "$out" | tail -1)
  if [ $code -ne 0 ]; then fail=1; echo "FAIL($code) $line"; echo "$out" | grep -E "VIOLATION|ANALYSIS-ERROR" | head -5; else echo "ok      $line"; fi
done
if [ "$tier" = thorough ]; then
  python3 - <<'PY'
import json, glob
for f in sorted(glob.glob('/verif/evidence/C*.json')):
    d = json.load(open(f))['coverage'].get('selftest')
    if d and (d['skipped'] or d['ok'] != d['variants']):
        print("SELFTEST-STALE", f, [x for x in d['details'] if x['status'] != 'ok'])
PY
fi
exit $fail

"""Checker self-test: seeded-fault variants of the real source applied as in-memory
overlays; the property's rules must fire (and name the rule) on a faulty variant and stay
silent on a behaviour-preserving refactoring or a repaired twin."""
import importlib
import os
import traceback
from concurrent.futures import ProcessPoolExecutor

from ..core.context import Ctx
from ..core.repo import AnalysisError, Repo
from ..core.report import Check, load_known


class Variant:
    def __init__(self, name, prop, edits, expect, rule=None, note=""):
        self.name = name
        self.prop = prop
        self.edits = edits      # [(rel path, old text, new text)]
        self.expect = expect    # "fire" | "silent"
        self.rule = rule        # rule id prefix that must be among the new findings (fire)
        self.note = note


def apply_edits(repo, edits):
    ov = {}
    for rel, old, new in edits:
        txt = ov.get(rel)
        if txt is None:
            txt = repo.text(rel)
        if old is None:
            ov[rel] = new
            continue
        if txt.count(old) != 1:
            return None, "anchor text occurs %d times in %s: %r" % (txt.count(old), rel, old[:60])
        ov[rel] = txt.replace(old, new)
    return ov, None


def run_variant(args):
    root, prop, name, edits, expect, rule = args
    try:
        repo = Repo(root)
        ov, err = apply_edits(repo, edits)
        if ov is None:
            return name, "skipped", err
        mod = importlib.import_module("sa.rules." + prop.lower())
        from ..core.unconfirmed import with_helpers_inlined, withdraw_by_second_pass, withdraw_unconfirmed
        memo = {}

        def make_ctx(overlay=None):
            if overlay is not None:
                memo["ov"] = overlay
            o2 = dict(ov)
            o2.update(memo.get("ov") or {})
            return Ctx(repo.with_overlay(o2))
        ctx = with_helpers_inlined(Ctx(repo.with_overlay(ov)), make_ctx)
        chk = Check(prop, "quick", ctx.repo, quiet=True)
        try:
            mod.run(ctx, chk)
            withdraw_unconfirmed(ctx, chk)
            withdraw_by_second_pass(ctx, chk, mod, lambda: make_ctx())
        except AnalysisError as e:
            chk.error(e.rule, e.reason)
            try:
                withdraw_unconfirmed(ctx, chk)
            except Exception:
                pass
        chk.withdraw_findings_of_broken_rules()
        listed, unlisted, stale = chk.classify()
        fired = [f.rule for f in unlisted]
        if chk.errors and not fired:
            return name, "error", "analysis error: %s" % (chk.errors[:2],)
        if expect == "fire":
            if not fired:
                return name, "MISSED", "no finding reported"
            if rule and not any(r.startswith(rule) for r in fired):
                return name, "MISSED", "fired %s but not %s" % (sorted(set(fired)), rule)
            return name, "ok", "fired " + ",".join(sorted(set(fired)))
        if fired:
            f = unlisted[0]
            return name, "FALSE-ALARM", "%s %s" % (f.rule, f.key)
        return name, "ok", "silent obligations=%d" % len(chk.obligations)
    except Exception as e:
        return name, "error", "%s: %s | %s" % (type(e).__name__, e, traceback.format_exc().splitlines()[-2:])


def global_twins(ctx, prop):
    """behaviour-preserving whole-tree transformations every check must stay silent on"""
    from .transforms import (alpha_rename, dict_calls, document, flip_ifs, fold_returns, guard_clauses, no_loop_else, reformat,
                             unfold_returns)
    out = []
    for name, fn in (("twin-whole-tree-reformatted", reformat), ("twin-all-locals-renamed", alpha_rename),
                     ("twin-two-armed-ifs-flipped", flip_ifs), ("twin-documented-and-annotated", document),
                     # second generation (statement-level rewrites the refactoring rounds used most): silent, obligation counts may differ
                     ("twin-assign-then-return-folded", fold_returns), ("twin-returns-through-a-temporary", unfold_returns),
                     ("twin-else-after-return-dropped", guard_clauses), ("twin-loop-else-without-break-dropped", no_loop_else),
                     ("twin-dict-literals-as-dict-calls", dict_calls)):
        ov = fn(ctx.repo)
        out.append(Variant(name, prop, [(rel, None, txt) for rel, txt in sorted(ov.items())], "silent"))
    return out


def run_selftest(ctx, chk, variants):
    jobs = int(os.environ.get("VERIF_JOBS", "16"))
    variants = list(variants) + global_twins(ctx, chk.prop)
    args = [(ctx.repo.root, v.prop, v.name, v.edits, v.expect, v.rule) for v in variants]
    results = []
    if not args:
        return
    with ProcessPoolExecutor(max_workers=min(jobs, len(args))) as ex:
        for r in ex.map(run_variant, args):
            results.append(r)
    st = {"variants": len(results), "ok": 0, "skipped": 0, "details": []}
    base_n = chk.extra.get("quick_obligations", len(chk.obligations))
    for name, status, info in results:
        if status == "ok" and name.startswith("twin-") and name in ("twin-whole-tree-reformatted", "twin-all-locals-renamed", "twin-two-armed-ifs-flipped", "twin-documented-and-annotated"):
            # a whole-tree twin must be examined exactly as the real tree is: fewer obligations mean a rule went vacuous
            import re as _re
            m = _re.search(r"obligations=(\d+)", info)
            if m and int(m.group(1)) != base_n:
                status = "VACUOUS"
                info = "%s obligations on the twin, %d on the tree: a rule stopped matching" % (m.group(1), base_n)
                chk.error("selftest", "variant %s: %s (%s)" % (name, status, info))
                st["details"].append({"variant": name, "status": status, "info": info[:160]})
                continue
        if status == "ok":
            st["ok"] += 1
        elif status == "skipped":
            st["skipped"] += 1
            chk.note("selftest variant %s skipped: %s" % (name, info))
        else:
            chk.error("selftest", "variant %s: %s (%s)" % (name, status, info))
        st["details"].append({"variant": name, "status": status, "info": info[:160]})
    chk.extra["selftest"] = st
    if results and st["skipped"] > len(results) // 2:
        chk.error("selftest", "more than half of the self-test variants no longer apply to the source")

"""Seeded-fault variants (must fire) and behaviour-preserving twins (must stay silent).
Each edit is (file, exact old text occurring once, new text)."""
from .harness import Variant as V

DATE = "dateparser/date.py"
PARSER = "dateparser/parser.py"
CONF = "dateparser/conf.py"
UTILS = "dateparser/utils/__init__.py"
FRESH = "dateparser/freshness_date_parser.py"
LOCALE = "dateparser/languages/locale.py"
DICT = "dateparser/languages/dictionary.py"
TZP = "dateparser/timezone_parser.py"
DP = "dateparser/date_parser.py"
SEARCH = "dateparser/search/search.py"
SINIT = "dateparser/search/__init__.py"
INIT = "dateparser/__init__.py"
EN = "dateparser/data/date_translation_data/en.py"

VARIANTS = {}


def add(prop, *vs):
    VARIANTS.setdefault(prop, []).extend(vs)


# ---------------------------------------------------------------- C02
add("C02",
    V("range-validator-half-open", "C02", [(CONF, "    is_valid = 0 <= setting_value <= 1\n", "    is_valid = 0 <= setting_value < 1\n")], "fire", "C02.R3", note="seeded change C02-6: the valid threshold 1.0 is rejected"),
    V("blank-string-returns-before-validation", "C02", [(INIT, "    parser = _default_parser\n", "    if isinstance(date_string, str) and not date_string.strip():\n        return None\n\n    parser = _default_parser\n")], "fire", "C02.R2",
      note="seeded change C02-4: an invalid settings dict is accepted when the date string is blank"),
    V("template-refers-to-dropped-group", "C02", [("dateparser/data/date_translation_data/da.py", '"(\\\\d+[.,]?\\\\d*)\\\\s*hr(s?)": "\\\\1 time\\\\2"', '"(\\\\d+[.,]?\\\\d*)\\\\s*hrs?": "\\\\1 time\\\\2"')], "fire", "C02.R5",
      note="seeded change C02-3: regex.error (invalid group reference) for Danish strings with '<n> hr'"),
    V("period-time-handler-narrowed", "C02", [(PARSER, "                                meridian_index += 1\n                except Exception:\n                    pass", "                                meridian_index += 1\n                except ValueError:\n                    pass")], "fire", "C02.R1",
      note="'13.' as the last token: self.tokens[original_index + 1] raises IndexError"),
    V("century-choice-before-awareness-alignment", "C02", [(PARSER, "        if self._token_year and len(self._token_year[0]) == 2:\n            if self.now < dateobj:\n                if \"past\" in self.settings.PREFER_DATES_FROM:\n                    dateobj = dateobj.replace(year=dateobj.year - 100)\n            else:\n                if \"future\" in self.settings.PREFER_DATES_FROM:\n                    dateobj = dateobj.replace(year=dateobj.year + 100)\n\n", ""), (PARSER, "        # NOTE: If this assert fires, self.now needs to be made offset-aware in a similar\n", "        if self._token_year and len(self._token_year[0]) == 2:\n            if self.now < dateobj:\n                if \"past\" in self.settings.PREFER_DATES_FROM:\n                    dateobj = dateobj.replace(year=dateobj.year - 100)\n            else:\n                if \"future\" in self.settings.PREFER_DATES_FROM:\n                    dateobj = dateobj.replace(year=dateobj.year + 100)\n\n        # NOTE: If this assert fires, self.now needs to be made offset-aware in a similar\n")], "fire", "C02.R1",
      note="seeded change C17-2: a timezone-carrying earlier hit makes the chained relative base aware; a later two-digit year is compared while still naive"),
    V("awareness-alignment-dropped", "C02", [(PARSER, "        if self.now.tzinfo is not None and dateobj.tzinfo is None:\n            dateobj = pytz.utc.localize(dateobj)\n", "")], "fire", "C02.R1"),
    V("twin-alignment-by-replace", "C02", [(PARSER, "            dateobj = pytz.utc.localize(dateobj)\n", "            dateobj = dateobj.replace(tzinfo=pytz.utc)\n")], "silent"),
    V("freshness-handler-narrowed", "C02", [(DATE, "        except (OverflowError, ValueError):\n            return None\n",
                                             "        except ValueError:\n            return None\n")], "fire", "C02.R1"),
    V("try_parser-handler-narrowed", "C02", [(DATE, "        except (OverflowError, ValueError):\n            self._settings.DATE_ORDER = _order",
                                              "        except ValueError:\n            self._settings.DATE_ORDER = _order")], "fire", "C02.R1"),
    V("ambiguous-time-unhandled", "C02", [(PARSER, "                pytz.AmbiguousTimeError,\n", "")], "fire", "C02.R1"),
    V("formats-tz-overflow-unhandled", "C02", [(DATE, "            try:\n                date_obj = apply_timezone_from_settings(date_obj, settings)\n            except OverflowError:\n                continue\n",
                                                "            date_obj = apply_timezone_from_settings(date_obj, settings)\n")], "fire", "C02.R1"),
    V("default-parser-reused-with-settings", "C02", [(INIT, "        or detect_languages_function\n        or not settings._default\n", "        or detect_languages_function\n")], "fire", "C02.R2"),
    V("check_settings-conditional", "C02", [(DATE, "        check_settings(settings)\n\n        self._settings = settings\n        self.try_previous_locales",
                                             "        if languages:\n            check_settings(settings)\n\n        self._settings = settings\n        self.try_previous_locales")], "fire", "C02.R2"),
    V("parser-name-without-dispatch", "C02", [(CONF, '        "negative-timestamp",\n    ]  # FIXME', '        "negative-timestamp",\n        "iso-time",\n    ]  # FIXME')], "fire", "C02.R3"),
    V("pref-value-without-option", "C02", [(CONF, '"PREFER_DAY_OF_MONTH": {"values": ("current", "first", "last"), "type": str}',
                                            '"PREFER_DAY_OF_MONTH": {"values": ("current", "first", "last", "middle"), "type": str}')], "fire", "C02.R3"),
    V("str-guard-removed", "C02", [(DATE, '        if not isinstance(date_string, str):\n            raise TypeError("Input type must be str")\n\n        res =', "        res =")], "fire", "C02.R4"),
    V("new-unguarded-int", "C02", [(DATE, "        date_string = sanitize_date(date_string)\n\n        for locale in",
                                    "        date_string = sanitize_date(date_string)\n        if date_string[:1] == '@':\n            return DateData(date_obj=datetime.fromtimestamp(int(date_string[1:])), period='day')\n\n        for locale in")], "fire", "C02.R1"),
    V("unguarded-group", "C02", [(PARSER, '    if not src or ":" == src.group():', '    if ":" == src.group():')], "fire", "C02.R1"),
    V("twin-rename-local", "C02", [(DATE, "        _order = self._settings.DATE_ORDER\n", "        saved_order = self._settings.DATE_ORDER\n"),
                                   (DATE, '                        "date_order", _order\n', '                        "date_order", saved_order\n'),
                                   (DATE, "            self._settings.DATE_ORDER = _order\n            return DateData(", "            self._settings.DATE_ORDER = saved_order\n            return DateData("),
                                   (DATE, "        except (OverflowError, ValueError):\n            self._settings.DATE_ORDER = _order", "        except (ValueError, OverflowError):\n            self._settings.DATE_ORDER = saved_order")], "silent"),
    V("twin-broad-handler", "C02", [(DATE, "        except (OverflowError, ValueError):\n            return None\n", "        except Exception:\n            return None\n")], "silent"),
    V("twin-isinstance-extracted", "C02", [(DATE, '        if not isinstance(date_string, str):\n            raise TypeError("Input type must be str")\n\n        res =',
                                            '        if not isinstance(date_string, str):\n            msg = "Input type must be str"\n            raise TypeError(msg)\n\n        res =')], "silent"),
    )

# ---------------------------------------------------------------- C04
add("C04",
    V("decades-folded-only-when-truthy", "C04", [("dateparser/freshness_date_parser.py", '        if "decades" in kwargs:\n', '        if kwargs.get("decades"):\n')], "fire", "C04.R4",
      note="seeded change C04-6: '0 decades ago' hands decades=0.0 to relativedelta -> TypeError"),
    V("decade-missing-from-future-words", "C04", [(LOCALE, '            "decade",\n            "year",\n            "month",\n            "week",\n            "day",\n            "hour",', '            "year",\n            "month",\n            "week",\n            "day",\n            "hour",')], "fire", "C04.R1"),
    V("decade-factor", "C04", [(FRESH, 'kwargs["years"] = 10 * kwargs["decades"]', 'kwargs["years"] = 100 * kwargs["decades"]')], "fire", "C04.R4"),
    V("decade-drops-years", "C04", [(FRESH, '10 * kwargs["decades"] + kwargs.get("years", 0)', '10 * kwargs["decades"]')], "fire", "C04.R4"),
    V("direction-swapped", "C04", [(FRESH, "            date = now + td\n        else:\n            date = now - td", "            date = now - td\n        else:\n            date = now + td")], "fire", "C04.R3"),
    V("ago-ignored-under-future", "C04", [(FRESH, '            or re.search(r"\\bfuture\\b", prefer_dates_from)\n            and not re.search(r"\\bago\\b", date_string)\n',
                                           '            or re.search(r"\\bfuture\\b", prefer_dates_from)\n')], "fire", "C04.R3"),
    V("period-order-reversed", "C04", [(FRESH, 'for k in ["weeks", "months", "years"]:', 'for k in ["years", "months", "weeks"]:')], "fire", "C04.R5"),
    V("period-no-break", "C04", [(FRESH, "                    period = k[:-1]\n                    break\n", "                    period = k[:-1]\n")], "fire", "C04.R5"),
    V("overflow-not-none", "C04", [(DATE, "        except (OverflowError, ValueError):\n            return None\n", "        except ValueError:\n            return None\n")], "fire", "C04.R2"),
    V("time-override-drops-seconds", "C04", [(FRESH, "                second=timeobj.second,\n", "                second=0,\n")], "fire", "C04.R6"),
    V("unit-missing-in-known-words", "C04", [(DICT, '    "decade",\n    "year",', '    "year",')], "fire", "C04.R1"),
    V("english-yesterday-wrong-key", "C04", [(EN, '        "1 day ago": [\n            "yesterday"\n        ],', '        "1 day ago": [],'),
                                             (EN, '        "2 day ago": [\n            "day before yesterday"', '        "2 day ago": [\n            "yesterday",\n            "day before yesterday"')], "fire", "C04.R7"),
    V("twin-rename-td", "C04", [(FRESH, "        td = relativedelta(**kwargs)\n", "        delta = relativedelta(**kwargs)\n"),
                                (FRESH, "            date = now + td\n        else:\n            date = now - td", "            date = now + delta\n        else:\n            date = now - delta")], "silent"),
    V("twin-direction-inverted-form", "C04", [(FRESH, '        if (\n            re.search(r"\\bin\\b", date_string)\n            or re.search(r"\\bfuture\\b", prefer_dates_from)\n            and not re.search(r"\\bago\\b", date_string)\n        ):\n            date = now + td\n        else:\n            date = now - td',
                                               '        if not (\n            re.search(r"\\bin\\b", date_string)\n            or re.search(r"\\bfuture\\b", prefer_dates_from)\n            and not re.search(r"\\bago\\b", date_string)\n        ):\n            date = now - td\n        else:\n            date = now + td')], "silent"),
    )

# ---------------------------------------------------------------- C11
add("C11",
    V("table-scan-last-match-wins", "C11", [("dateparser/utils/__init__.py", "    for name, info in _tz_offsets:\n        if info[\"regex\"].search(\" %s\" % offset_or_timezone_abb):\n            tz = StaticTzInfo(name, info[\"offset\"])\n            return utc_datetime.astimezone(tz)\n", "    tz = None\n    for name, info in _tz_offsets:\n        if info[\"regex\"].search(\" %s\" % offset_or_timezone_abb):\n            tz = StaticTzInfo(name, info[\"offset\"])\n    if tz is not None:\n        return utc_datetime.astimezone(tz)\n")], "fire", "C11.R8", note="seeded change C12-6: TO_TIMEZONE='UTC+05:45' converts to UTC"),
    V("twin-table-scan-single-exit-with-break", "C11", [("dateparser/utils/__init__.py", "    for name, info in _tz_offsets:\n        if info[\"regex\"].search(\" %s\" % offset_or_timezone_abb):\n            tz = StaticTzInfo(name, info[\"offset\"])\n            return utc_datetime.astimezone(tz)\n", "    tz = None\n    for name, info in _tz_offsets:\n        if info[\"regex\"].search(\" %s\" % offset_or_timezone_abb):\n            tz = StaticTzInfo(name, info[\"offset\"])\n            break\n    if tz is not None:\n        return utc_datetime.astimezone(tz)\n")], "silent"),
    V("prefilter-case-sensitive", "C11", [(TZP, "    if _search_regex_ignorecase.search(date_string):", "    if _search_regex.search(date_string):")], "fire", "C11.R2"),
    V("span-eats-leading-char", "C11", [(TZP, "date_string[: start + 1] + date_string[stop:]", "date_string[:start] + date_string[stop:]")], "fire", "C11.R3"),
    V("getinitargs-swapped", "C11", [(TZP, "        return self.__name, self.__offset", "        return self.__offset, self.__name")], "fire", "C11.R4"),
    V("dst-nonzero", "C11", [(TZP, "        return timedelta(0)", "        return timedelta(hours=1)")], "fire", "C11.R4"),
    V("convert-before-attach", "C11", [(DP, '            if hasattr(ptz, "localize"):\n                date_obj = ptz.localize(date_obj)\n            else:\n                date_obj = date_obj.replace(tzinfo=ptz)\n            if "local" not in _settings_tz:\n                date_obj = apply_timezone(date_obj, settings.TIMEZONE)\n',
                                            '            if "local" not in _settings_tz:\n                date_obj = apply_timezone(date_obj, settings.TIMEZONE)\n            if hasattr(ptz, "localize"):\n                date_obj = ptz.localize(date_obj)\n            else:\n                date_obj = date_obj.replace(tzinfo=ptz)\n')], "fire", "C11.R5"),
    V("offset-from-other-entry", "C11", [(TZP, 'StaticTzInfo(name, info["offset"]) if as_offset else name', 'StaticTzInfo(name, _tz_offsets[0][1]["offset"]) if as_offset else name')], "fire", "C11.R3"),
    )

# ---------------------------------------------------------------- C12
add("C12",
    V("table-scan-last-match-wins", "C12", [("dateparser/utils/__init__.py", "    for name, info in _tz_offsets:\n        if info[\"regex\"].search(\" %s\" % offset_or_timezone_abb):\n            tz = StaticTzInfo(name, info[\"offset\"])\n            return utc_datetime.astimezone(tz)\n", "    tz = None\n    for name, info in _tz_offsets:\n        if info[\"regex\"].search(\" %s\" % offset_or_timezone_abb):\n            tz = StaticTzInfo(name, info[\"offset\"])\n    if tz is not None:\n        return utc_datetime.astimezone(tz)\n")], "fire", "C12.R5", note="seeded change C12-6: TO_TIMEZONE='UTC+05:45' converts to UTC"),
    V("twin-table-scan-single-exit-with-break", "C12", [("dateparser/utils/__init__.py", "    for name, info in _tz_offsets:\n        if info[\"regex\"].search(\" %s\" % offset_or_timezone_abb):\n            tz = StaticTzInfo(name, info[\"offset\"])\n            return utc_datetime.astimezone(tz)\n", "    tz = None\n    for name, info in _tz_offsets:\n        if info[\"regex\"].search(\" %s\" % offset_or_timezone_abb):\n            tz = StaticTzInfo(name, info[\"offset\"])\n            break\n    if tz is not None:\n        return utc_datetime.astimezone(tz)\n")], "silent"),
    V("year-default-after-zone-application", "C12", [(DATE, "            if \"year\" in missing_parts:\n                today = datetime.today()\n                date_obj = date_obj.replace(year=today.year)\n\n            try:\n                date_obj = apply_timezone_from_settings(date_obj, settings)\n            except OverflowError:\n                continue\n\n", "            try:\n                date_obj = apply_timezone_from_settings(date_obj, settings)\n            except OverflowError:\n                continue\n\n            if \"year\" in missing_parts:\n                today = datetime.today()\n                date_obj = date_obj.replace(year=today.year)\n\n")], "fire", "C12.R4",
      note="seeded change C12-3: the zone is chosen for year 1900 (LMT offsets) and kept when the year is replaced"),
    V("strip-ignores-string-zone", "C12", [(DP, '            and "default" == settings.RETURN_AS_TIMEZONE_AWARE\n            and not ptz\n', '            and "default" == settings.RETURN_AS_TIMEZONE_AWARE\n')], "fire", "C12.R1"),
    V("helper-keeps-aware-by-default", "C12", [(UTILS, "    if settings.RETURN_AS_TIMEZONE_AWARE is not True:", "    if settings.RETURN_AS_TIMEZONE_AWARE is False:")], "fire", "C12.R1"),
    V("localize-guard-removed", "C12", [(UTILS, "    if date_time.tzinfo:\n        return date_time\n\n    tz = get_timezone_from_tz_string(tz_string)", "    tz = get_timezone_from_tz_string(tz_string)")], "fire", "C12.R2"),
    V("convert-by-replace", "C12", [(UTILS, "        date_time = date_time.astimezone(usr_timezone)", "        date_time = date_time.replace(tzinfo=usr_timezone)")], "fire", "C12.R2"),
    V("to-timezone-needs-string-zone", "C12", [(DP, "        if settings.TO_TIMEZONE:\n            date_obj = apply_timezone(date_obj, settings.TO_TIMEZONE)", "        if settings.TO_TIMEZONE and ptz:\n            date_obj = apply_timezone(date_obj, settings.TO_TIMEZONE)")], "fire", "C12.R3"),
    V("strip-before-convert", "C12", [(UTILS, "    if settings.TO_TIMEZONE:\n        date_obj = apply_timezone(date_obj, settings.TO_TIMEZONE)\n\n    if settings.RETURN_AS_TIMEZONE_AWARE is not True:\n        date_obj = date_obj.replace(tzinfo=None)\n",
                                       "    if settings.RETURN_AS_TIMEZONE_AWARE is not True:\n        date_obj = date_obj.replace(tzinfo=None)\n\n    if settings.TO_TIMEZONE:\n        date_obj = apply_timezone(date_obj, settings.TO_TIMEZONE)\n")], "fire", "C12.R3"),
    V("freshness-now-not-in-timezone", "C12", [(FRESH, "                now = apply_timezone(utc_dt, settings.TIMEZONE)\n            else:\n                now = datetime.now(self.get_local_tz())", "                now = utc_dt\n            else:\n                now = datetime.now(self.get_local_tz())")], "fire", "C12.R3"),
    V("twin-strip-equivalent-test", "C12", [(UTILS, "    if settings.RETURN_AS_TIMEZONE_AWARE is not True:", "    if not (settings.RETURN_AS_TIMEZONE_AWARE is True):")], "silent"),
    V("twin-localize-guard-is-none", "C12", [(UTILS, "    if date_time.tzinfo:\n        return date_time\n", "    if date_time.tzinfo is not None:\n        return date_time\n")], "silent"),
    )

# ---------------------------------------------------------------- C16
add("C16",
    V("language-map-hand-edited", "C16", [("dateparser/data/languages_info.py", '    "nnh": ["nnh"],\n', '    "nnh": ["nnh"],\n    "no": ["nb", "nn"],\n')], "fire", "C16.R3", note="seeded change C16-6"),
    V("alternate-entries-named-after-their-spelling", "C16", [("dateparser/timezone_parser.py", "                    search_regex_parts.append(re.sub(replace, replacewith, tz_obj[0]))\n                    yield get_offset(tz_obj, regex, repl=replace, replw=replacewith)\n", "                    alternate = re.sub(replace, replacewith, tz_obj[0])\n                    search_regex_parts.append(alternate)\n                    yield get_offset((alternate, tz_obj[1]), regex, repl=replace, replw=replacewith)\n")], "fire", "C16.R2", note="seeded changes C16-3 / C19-3 / C19-5"),
    V("rewrite-rule-applied-once", "C16", [("dateparser/timezone_parser.py", "                    re.sub(repl, replw, regex % tz_obj[0]), re.IGNORECASE\n", "                    re.sub(repl, replw, regex % tz_obj[0], count=1), re.IGNORECASE\n")], "fire", "C16.R2", note="seeded changes C11-6 / C16-5"),
    V("twin-alternate-spelling-in-a-local", "C16", [("dateparser/timezone_parser.py", "                    search_regex_parts.append(re.sub(replace, replacewith, tz_obj[0]))\n                    yield get_offset(tz_obj, regex, repl=replace, replw=replacewith)\n", "                    alternate = re.sub(replace, replacewith, tz_obj[0])\n                    search_regex_parts.append(alternate)\n                    yield get_offset(tz_obj, regex, repl=replace, replw=replacewith)\n")], "silent"),
    V("module-edited-by-hand", "C16", [("dateparser/data/date_translation_data/fr.py", '"janvier"', '"janvierx"')], "fire", "C16.R1"),
    V("yaml-edited-without-regenerating", "C16", [("dateparser_data/supplementary_language_data/date_translation_data/de.yaml", "    - Mon\n", "    - Mon\n    - Mond\n")], "fire", "C16.R1"),
    V("timezones-edited-without-cache", "C16", [("dateparser/timezones.py", '("ACDT", 37800)', '("ACDT", 37801)')], "fire", "C16.R2"),
    V("index-lacks-locale", "C16", [("dateparser/data/languages_info.py", '        "en-AG",\n', "")], "fire", "C16.R3"),
    V("combine-dicts-runtime-differs", "C16", [(UTILS, "                combined_dict[key] = value + supplementary_dict[key]", "                combined_dict[key] = supplementary_dict[key] + value")], "fire", "C16.R1"),
    )

# ---------------------------------------------------------------- C17
add("C17",
    V("descending-scan-stops-one-early", "C17", [(SEARCH, "            if i == -1:\n                return substring, None", "            if i == 0:\n                return substring, None")], "fire", "C17.R",
      note="seeded change C17-5: a single relative hit lets i run to -2"),
    V("descending-scan-on-possibly-empty-list", "C17", [(SEARCH, "        if len(already_parsed) == 0:\n            return substring, None\n\n", "")], "fire", "C17.R"),
    V("twin-descending-scan-stop-below-zero", "C17", [(SEARCH, "            if i == -1:\n                return substring, None", "            if i < 0:\n                return substring, None")], "silent"),
    V("word-split-drops-formatting", "C17", [(LOCALE, "            return self._split(string, keep_formatting=True, settings=settings)", "            return self._split(string, keep_formatting=False, settings=settings)")], "fire", "C17.R5",
      note="seeded change C17-6"),
    V("period-time-handler-narrowed", "C17", [(PARSER, "                                meridian_index += 1\n                except Exception:\n                    pass", "                                meridian_index += 1\n                except ValueError:\n                    pass")], "fire", "C17.R",
      note="'13.' as the last token: self.tokens[original_index + 1] raises IndexError"),
    V("translated-word-into-original-chunk", "C17", [(LOCALE, "                elif translated_chunk and word_is_tz(original_tokens[i]):\n                    translated_chunk.append(word)\n                    original_chunk.append(original_tokens[i])",
                                                       "                elif translated_chunk and word_is_tz(original_tokens[i]):\n                    translated_chunk.append(word)\n                    original_chunk.append(word)")], "fire", "C17.R5"),
    V("substring-from-translated-item", "C17", [(SEARCH, "                substrings.append(original[i].strip(\" .,:()[]-'\"))", "                substrings.append(item.strip(\" .,:()[]-'\"))")], "fire", "C17.R5"),
    V("substring-lowercased", "C17", [(SEARCH, "                substrings.append(original[i].strip(\" .,:()[]-'\"))", "                substrings.append(original[i].strip(\" .,:()[]-'\").lower())")], "fire", "C17.R5"),
    V("pieces-rejoined-with-space", "C17", [(SEARCH, "                original_join = splitter.join(original_all_split[j : j + i])", "                original_join = \" \".join(original_all_split[j : j + i])")], "fire", "C17.R5"),
    V("split-original-from-translated", "C17", [(SEARCH, "            return [[item.split(splitter), original.split(splitter)]]", "            return [[item.split(splitter), item.split(splitter)]]")], "fire", "C17.R5"),
    V("twin-substring-through-temporary", "C17", [(SEARCH, "                substrings.append(original[i].strip(\" .,:()[]-'\"))", "                hit_text = original[i].strip(\" .,:()[]-'\")\n                substrings.append(hit_text)")], "silent"),
    V("revert-fix-blank-substring", "C17", [(SEARCH, '                if parsed_best[k][0]["date_obj"] and substrings_best[k]:', '                if parsed_best[k][0]["date_obj"]:')], "fire", "C17.R4"),
    V("twin-blank-test-first", "C17", [(SEARCH, '                if parsed_best[k][0]["date_obj"] and substrings_best[k]:', '                if substrings_best[k] and parsed_best[k][0]["date_obj"]:')], "silent"),
    V("alignment-loop-one-sided", "C17", [(LOCALE, "        while len(original_tokens) != len(simplified_tokens):\n            if len(original_tokens) > len(simplified_tokens):\n                original_tokens.remove(\"\")\n            else:\n                simplified_tokens.remove(\"\")\n",
                                           "        while len(original_tokens) > len(simplified_tokens):\n            original_tokens.remove(\"\")\n")], "fire", "C17.R1",
      note="seeded change C17-1: the simplified list can stay longer, translate_search then indexes past the end of the original one"),
    V("hit-lists-out-of-step", "C17", [(LOCALE, "            if translated_chunk:\n                translated.append(translated_chunk)\n                original.append(original_chunk)\n        for i in range(len(translated)):",
                                        "            if translated_chunk:\n                translated.append(translated_chunk)\n                if any(original_chunk):\n                    original.append(original_chunk)\n        for i in range(len(translated)):")], "fire", "C17.R1"),
    V("split-count-guard-dropped", "C17", [(SEARCH, "            if splitter in item and item.count(splitter) == original.count(splitter):", "            if splitter in item:")], "fire", "C17.R1",
      note="translated and original pieces no longer have the same number of parts"),
    V("candidate-lists-out-of-step", "C17", [(SEARCH, "                        current_parsed.append((parsed_jtem, is_relative_jtem))\n                        current_substrings.append(split_original[j].strip(\" .,:()[]-\"))\n",
                                              "                        current_parsed.append((parsed_jtem, is_relative_jtem))\n                        if parsed_jtem[\"date_obj\"]:\n                            current_substrings.append(split_original[j].strip(\" .,:()[]-\"))\n")], "fire", "C17.R1"),
    V("twin-final-loop-walks-the-other-list", "C17", [(LOCALE, "        for i in range(len(translated)):\n            if \"in\" in translated[i]:", "        for i in range(len(original)):\n            if \"in\" in translated[i]:")], "silent"),
    V("twin-alignment-test-negated-equality", "C17", [(LOCALE, "        while len(original_tokens) != len(simplified_tokens):\n", "        while not len(original_tokens) == len(simplified_tokens):\n")], "silent"),
    V("century-choice-before-awareness-alignment", "C17", [(PARSER, "        if self._token_year and len(self._token_year[0]) == 2:\n            if self.now < dateobj:\n                if \"past\" in self.settings.PREFER_DATES_FROM:\n                    dateobj = dateobj.replace(year=dateobj.year - 100)\n            else:\n                if \"future\" in self.settings.PREFER_DATES_FROM:\n                    dateobj = dateobj.replace(year=dateobj.year + 100)\n\n", ""), (PARSER, "        # NOTE: If this assert fires, self.now needs to be made offset-aware in a similar\n", "        if self._token_year and len(self._token_year[0]) == 2:\n            if self.now < dateobj:\n                if \"past\" in self.settings.PREFER_DATES_FROM:\n                    dateobj = dateobj.replace(year=dateobj.year - 100)\n            else:\n                if \"future\" in self.settings.PREFER_DATES_FROM:\n                    dateobj = dateobj.replace(year=dateobj.year + 100)\n\n        # NOTE: If this assert fires, self.now needs to be made offset-aware in a similar\n")], "fire", "C17.R2",
      note="seeded change C17-2: a timezone-carrying earlier hit makes the chained relative base aware; a later two-digit year is compared while still naive"),
    V("awareness-alignment-dropped", "C17", [(PARSER, "        if self.now.tzinfo is not None and dateobj.tzinfo is None:\n            dateobj = pytz.utc.localize(dateobj)\n", "")], "fire", "C17.R2"),
    V("twin-alignment-by-replace", "C17", [(PARSER, "            dateobj = pytz.utc.localize(dateobj)\n", "            dateobj = dateobj.replace(tzinfo=pytz.utc)\n")], "silent"),
    V("lookahead-unbounded", "C17", [(LOCALE, "                    i < last_token_index\n                    and current_and_next_joined in dictionary", "                    current_and_next_joined in dictionary")], "fire", "C17.R1"),
    V("next-word-unbounded", "C17", [(LOCALE, 'next_word = simplified_tokens[i + 1] if i < last_token_index else ""', "next_word = simplified_tokens[i + 1]")], "fire", "C17.R1"),
    V("abbreviation-unescaped", "C17", [(LOCALE, '"(?<! " + re.escape(abbreviation[:-1]) + ")"', '"(?<! " + abbreviation[:-1] + ")"')], "fire", "C17.R2"),
    V("division-unguarded", "C17", [(SEARCH, "                    0\n                    if not_parsed == 0\n                    else (float(not_parsed) / float(num_substrings)),", "                    (float(not_parsed) / float(num_substrings)),")], "fire", "C17.R2"),
    V("substring-not-appended", "C17", [(SEARCH, "                parsed.append((parsed_item, is_relative))\n                substrings.append(original[i].strip(\" .,:()[]-'\"))\n", "                parsed.append((parsed_item, is_relative))\n")], "fire", "C17.R3"),
    V("empty-list-returned", "C17", [(SINIT, "    if dates:\n        if add_detected_language:", "    if dates is not None:\n        if add_detected_language:")], "fire", "C17.R3"),
    V("hits-sorted", "C17", [(SEARCH, '        return list(zip(substrings, [i[0]["date_obj"] for i in parsed]))', '        return sorted(zip(substrings, [i[0]["date_obj"] for i in parsed]), key=lambda p: p[1])')], "fire", "C17.R3"),
    V("settings-not-validated", "C17", [(SEARCH, "        check_settings(settings)\n\n        language_shortname", "        language_shortname")], "silent",
      note="validation also happens in DateDataParser.__init__ reached from search_parse: not a totality issue"),
    V("twin-bound-via-len", "C17", [(LOCALE, 'next_word = simplified_tokens[i + 1] if i < last_token_index else ""', 'next_word = simplified_tokens[i + 1] if i + 1 < len(simplified_tokens) else ""')], "silent"),
    )

# ---------------------------------------------------------------- C19
add("C19",
    V("handler-narrowed", "C19", [(TZP, "        FileNotFoundError,\n        EOFError,\n        pickle.UnpicklingError,\n", "        FileNotFoundError,\n")], "fire", "C19.R1"),
    V("return-before-load", "C19", [(TZP, "    try:\n        with open(cache_path, mode=\"rb\") as file:", "    if current_hash is None and os.path.exists(cache_path) and os.path.getsize(cache_path) == 0:\n        return\n    try:\n        with open(cache_path, mode=\"rb\") as file:")], "fire", "C19.R3"),
    V("rebuild-not-written", "C19", [(TZP, "    with open(cache_path, mode=\"wb\") as file:\n        pickle.dump(\n            (current_hash, _tz_offsets, _search_regex, _search_regex_ignorecase),\n            file,\n            protocol=5,\n        )\n", "    return\n")], "fire", "C19.R4"),
    V("cache-not-packaged", "C19", [("MANIFEST.in", "include dateparser/data/dateparser_tz_cache.pkl\n", "")], "fire", "C19.R5"),
    V("handler-reraises", "C19", [(TZP, "        # missing, empty, truncated or otherwise unreadable cache: rebuild it\n        pass\n", "        if current_hash is None:\n            raise\n")], "fire", "C19.R1"),
    V("write-exclusive-create", "C19", [(TZP, "    with open(cache_path, mode=\"wb\") as file:\n        pickle.dump(", "    with suppress(OSError), open(cache_path, mode=\"xb\") as file:\n        pickle.dump("),
                                         (TZP, "import os\nimport pickle\n", "import os\nimport pickle\nfrom contextlib import suppress\n")], "fire", "C19.R7",
      note="seeded change C19-2: an existing damaged file is never replaced"),
    V("write-append", "C19", [(TZP, "    with open(cache_path, mode=\"wb\") as file:\n        pickle.dump(", "    with open(cache_path, \"ab\") as file:\n        pickle.dump(")], "fire", "C19.R7"),
    V("write-to-other-path", "C19", [(TZP, "    with open(cache_path, mode=\"wb\") as file:\n        pickle.dump(", "    tmp_path = str(cache_path) + \".tmp\"\n    with open(tmp_path, mode=\"wb\") as file:\n        pickle.dump(")], "fire", "C19.R7"),
    V("twin-atomic-replace", "C19", [(TZP, "    with open(cache_path, mode=\"wb\") as file:\n        pickle.dump(\n            (current_hash, _tz_offsets, _search_regex, _search_regex_ignorecase),\n            file,\n            protocol=5,\n        )\n",
                                      "    tmp_path = str(cache_path) + \".tmp\"\n    with open(tmp_path, mode=\"wb\") as file:\n        pickle.dump(\n            (current_hash, _tz_offsets, _search_regex, _search_regex_ignorecase),\n            file,\n            protocol=5,\n        )\n    os.replace(tmp_path, cache_path)\n")], "silent"),
    V("twin-path-open-method", "C19", [(TZP, "    with open(cache_path, mode=\"wb\") as file:\n        pickle.dump(", "    with cache_path.open(\"wb\") as file:\n        pickle.dump(")], "silent"),
    V("twin-broad-handler", "C19", [(TZP, "    except (\n        FileNotFoundError,\n        EOFError,\n        pickle.UnpicklingError,\n        AttributeError,\n        ImportError,\n        IndexError,\n        ValueError,\n        TypeError,\n    ):", "    except Exception:")], "silent"),
    )

# ---------------------------------------------------------------- C03
LOADER = "dateparser/languages/loader.py"
add("C03",
    V("settings-containers-stored-by-reference", "C03", [(CONF, "            if isinstance(value, (list, dict)):\n                # never alias a container the caller may change later\n                value = copy(value)\n", "")], "fire", "C03.R10",
      note="the defect repaired by c45787b: a caller changing its own settings dict/list afterwards changes what other parsers return"),
    V("settings-copy-lists-only", "C03", [(CONF, "            if isinstance(value, (list, dict)):", "            if isinstance(value, list):")], "fire", "C03.R10"),
    V("twin-settings-copy-in-replace-and-lists", "C03", [(CONF, "            if isinstance(value, (list, dict)):", "            if isinstance(value, list):"), (CONF, '            kwds["_mod_settings"] = mod_settings', '            kwds["_mod_settings"] = dict(mod_settings)')], "silent"),
    V("twin-settings-unconditional-copy", "C03", [(CONF, "            if isinstance(value, (list, dict)):\n                # never alias a container the caller may change later\n                value = copy(value)\n", "            value = copy(value)\n")], "silent"),
    V("settings-copy-after-store", "C03", [(CONF, "            if isinstance(value, (list, dict)):\n                # never alias a container the caller may change later\n                value = copy(value)\n            setattr(self, key, value)\n", "            setattr(self, key, value)\n            if isinstance(value, (list, dict)):\n                value = copy(value)\n")], "fire", "C03.R10"),
    V("dictionary-settings-set-only-at-creation", "C03", [(LOCALE, "            if self._dictionary is None:\n                self._generate_dictionary()\n            self._dictionary._settings = settings\n", "            if self._dictionary is None:\n                self._generate_dictionary()\n                self._dictionary._settings = settings\n")], "fire", "C03.R8",
      note="seeded change C03-6: the first NORMALIZE=False caller's SKIP_TOKENS serve every later caller"),
    V("language-table-aliased-and-popped", "C03", [("dateparser/languages/loader.py", "                        shortname, language_info=deepcopy(self._loaded_languages[lang])\n", "                        shortname, language_info=self._loaded_languages[lang]\n"),
        (LOCALE, "        self.info = combine_dicts(language_info, locale_specific_info)\n", "        if locale_specific_info:\n            self.info = combine_dicts(language_info, locale_specific_info)\n        else:\n            self.info = language_info\n")], "fire", "C03.R7",
      note="seeded change C05-4: the first plain-language Locale pops 'locale_specific' out of the shared table"),
    V("twin-loader-without-copy-locale-still-merges", "C03", [("dateparser/languages/loader.py", "                        shortname, language_info=deepcopy(self._loaded_languages[lang])\n", "                        shortname, language_info=self._loaded_languages[lang]\n")], "silent",
      note="combine_dicts builds a new top-level dict: popping from it does not touch the shared table"),
    V("revert-fix-abbreviations-first-caller", "C03", [(LOCALE, "        # the dictionary depends on the settings (SKIP_TOKENS), so do the abbreviations\n        if settings.registry_key not in self._abbreviations:\n            self._abbreviations[settings.registry_key] = [\n                item for item in dictionary if item.endswith(\".\") and len(item) > 1\n            ]\n        return self._abbreviations[settings.registry_key]\n", "        abbreviations = []\n        if not self._abbreviations:\n            for item in dictionary:\n                if item.endswith(\".\") and len(item) > 1:\n                    abbreviations.append(item)\n            self._abbreviations = abbreviations\n        return self._abbreviations\n")], "fire", "C03.R5",
      note="the abbreviations computed from the first caller's dictionary serve every later caller"),
    V("callers-list-sorted-in-validation", "C03", [(CONF, "    if len(setting_value) != len(set(setting_value)):", "    setting_value.sort()\n    if len(setting_value) != len(set(setting_value)):")], "fire", "C03.R1"),
    V("skip-tokens-extended-in-place", "C03", [(DICT, "        self._settings = settings\n        self.info = locale_info\n", "        self._settings = settings\n        self.info = locale_info\n        if settings is not None and \"t\" not in settings.SKIP_TOKENS:\n            settings.SKIP_TOKENS.append(\"t\")\n")], "fire", "C03.R1"),
    V("languages-kept-by-reference-and-extended", "C03", [(DATE, "        self.languages = list(languages) if languages else None", "        self.languages = languages if languages else None"),
                                                       (DATE, "            self.languages = map_languages(detected_languages)\n", "            self.languages = map_languages(detected_languages)\n        if self.languages is not None and self._settings.DEFAULT_LANGUAGES:\n            self.languages.extend(self._settings.DEFAULT_LANGUAGES)\n")], "fire", "C03.R1"),
    V("search-relative-base-not-restored", "C03", [(SEARCH, "        finally:\n            parser._settings.RELATIVE_BASE = original_relative_base\n", "        finally:\n            pass\n")], "fire", "C03.R2"),
    V("date-order-not-restored-on-error", "C03", [(DATE, "        except (OverflowError, ValueError):\n            self._settings.DATE_ORDER = _order\n            return None", "        except (OverflowError, ValueError):\n            return None")], "fire", "C03.R2"),
    V("date-order-restore-skipped-for-overflow", "C03", [(DATE, "        except (OverflowError, ValueError):\n            self._settings.DATE_ORDER = _order\n            return None", "        except ValueError:\n            self._settings.DATE_ORDER = _order\n            return None")], "fire", "C03.R2"),
    V("new-temporary-override", "C03", [(DP, "        date_obj, period = parse_method(date_string, settings=settings, tz=ptz)\n", "        if ptz:\n            settings.RETURN_AS_TIMEZONE_AWARE = True\n        date_obj, period = parse_method(date_string, settings=settings, tz=ptz)\n")], "fire", "C03.R2"),
    V("cache-cleared-by-reader", "C03", [(DICT, "        regex = self._get_split_regex_cache()\n", "        if len(self._split_regex_cache) > 50:\n            self._split_regex_cache.clear()\n        regex = self._get_split_regex_cache()\n")], "fire", "C03.R3a"),
    V("cache-keyed-without-settings-hash", "C03", [(DICT, "        return self._split_regex_cache[self._settings.registry_key][self.info[\"name\"]]", "        return self._split_regex_cache[\"default\"][self.info[\"name\"]]")], "fire", "C03.R3b"),
    V("eviction-may-remove-current-key", "C03", [(DICT, "            for key in list(cache.keys()):\n                if key != self._settings.registry_key:\n                    cache.pop(key)\n                    break\n", "            cache.pop(list(cache.keys())[0])\n")], "fire", "C03.R3c"),
    V("hash-ignores-a-setting", "C03", [(CONF, 'keys = sorted(["%s-%s" % (key, str(settings[key])) for key in settings])', 'keys = sorted(["%s-%s" % (key, str(settings[key])) for key in settings if key != "SKIP_TOKENS"])')], "fire", "C03.R3d"),
    V("message-joins-a-set", "C03", [(LOADER, '", ".join(map(repr, sorted(unsupported_languages)))', '", ".join(map(repr, unsupported_languages))')], "fire", "C03.R4"),
    V("twin-finally-restore", "C03", [(DATE, "            self._settings.DATE_ORDER = _order\n            return DateData(\n                date_obj=date_obj,\n                period=period,\n            )\n        except (OverflowError, ValueError):\n            self._settings.DATE_ORDER = _order\n            return None",
                                       "            return DateData(\n                date_obj=date_obj,\n                period=period,\n            )\n        except (OverflowError, ValueError):\n            return None\n        finally:\n            self._settings.DATE_ORDER = _order")], "silent"),
    V("twin-eviction-generator", "C03", [(DICT, "            for key in list(cache.keys()):\n                if key != self._settings.registry_key:\n                    cache.pop(key)\n                    break\n", "            cache.pop(next(k for k in cache if k != self._settings.registry_key))\n")], "silent"),
    )

# ---------------------------------------------------------------- C20
add("C20",
    V("memo-guard-consults-sibling-table", "C20", [("dateparser/languages/dictionary.py", "    def _get_split_regex_cache(self):\n        if (\n            self._settings.registry_key not in self._split_regex_cache\n            or self.info[\"name\"]\n            not in self._split_regex_cache[self._settings.registry_key]\n        ):\n", "    def _get_split_regex_cache(self):\n        if (\n            self._settings.registry_key not in self._sorted_words_cache\n            or self.info[\"name\"]\n            not in self._sorted_words_cache[self._settings.registry_key]\n        ):\n")], "fire", "C20.R4", note="seeded change C20-5"),
    V("last-parser-slot-read-twice", "C20", [("dateparser/__init__.py", "    parser = _default_parser\n", "    global _recent_parser\n    parser = _default_parser\n"),
        ("dateparser/__init__.py", "_default_parser = DateDataParser()\n", "_default_parser = DateDataParser()\n_recent_parser = (None, None)\n"),
        ("dateparser/__init__.py", "        parser = DateDataParser(\n", "        arguments = (languages, locales, region, settings, detect_languages_function)\n        if detect_languages_function or _recent_parser[0] != arguments:\n            _recent_parser = arguments, None\n        parser = DateDataParser(\n")], "fire", "C20.R1",
      note="seeded change C20-6 (shape): a module-level slot rebound under a disjunctive guard that mentions detect_languages_function"),
    V("split-result-memo-on-shared-dictionary", "C20", [("dateparser/languages/dictionary.py", "        self._relative_strings = list(chain.from_iterable(relative_type_regex.values()))\n", "        self._relative_strings = list(chain.from_iterable(relative_type_regex.values()))\n        self._last_split = None\n"),
        ("dateparser/languages/dictionary.py", "        return list(filter(bool, chain.from_iterable(tokens)))\n", "        tokens = list(filter(bool, chain.from_iterable(tokens)))\n        self._last_split = ((string, keep_formatting), tuple(tokens))\n        return tokens\n")], "fire", "C20.R1",
      note="seeded change C03-4: a per-call value stored on a Dictionary that lives as long as its Locale"),
    V("revert-fix-abbreviations-first-caller", "C20", [(LOCALE, "        # the dictionary depends on the settings (SKIP_TOKENS), so do the abbreviations\n        if settings.registry_key not in self._abbreviations:\n            self._abbreviations[settings.registry_key] = [\n                item for item in dictionary if item.endswith(\".\") and len(item) > 1\n            ]\n        return self._abbreviations[settings.registry_key]\n", "        abbreviations = []\n        if not self._abbreviations:\n            for item in dictionary:\n                if item.endswith(\".\") and len(item) > 1:\n                    abbreviations.append(item)\n            self._abbreviations = abbreviations\n        return self._abbreviations\n")], "fire", "C20.R1",
      note="the abbreviations computed from the first caller's dictionary serve every later caller"),
    V("new-global-counter", "C20", [(DATE, "        if not isinstance(date_string, str):\n            raise TypeError(\"Input type must be str\")\n",
                                     "        if not isinstance(date_string, str):\n            raise TypeError(\"Input type must be str\")\n        self._get_locale_loader()._loaded_locales.pop(\"zz\", None)\n")], "fire", "C20.R1"),
    V("new-temporary-override", "C20", [(DP, "        date_obj, period = parse_method(date_string, settings=settings, tz=ptz)\n", "        settings.RETURN_AS_TIMEZONE_AWARE = True if ptz else settings.RETURN_AS_TIMEZONE_AWARE\n        date_obj, period = parse_method(date_string, settings=settings, tz=ptz)\n")], "fire", "C20.R1"),
    V("last-result-memo-on-singleton", "C20", [(FRESH, "        date, period = self.parse(date_string, settings)\n", "        date, period = self.parse(date_string, settings)\n        self._last = (date_string, date)\n")], "fire", "C20.R1"),
    V("relative-translations-made-settings-dependent", "C20", [(LOCALE, "                self._relative_translations = self._generate_relative_translations(\n                    normalize=False\n                )", "                self._relative_translations = self._generate_relative_translations(\n                    normalize=settings.NORMALIZE\n                )")], "fire", "C20.R1"),
    V("loader-cache-partial-publication", "C20", [(LOADER, "                    locale = Locale(shortname, language_info=deepcopy(language_info))\n                    self._loaded_languages[lang] = language_info\n                    self._loaded_locales[shortname] = locale\n",
                                                  "                    self._loaded_locales[shortname] = locale = Locale(shortname, language_info={})\n                    self._loaded_languages[lang] = language_info\n                    locale.info.update(deepcopy(language_info))\n")], "fire", "C20.R1"),
    V("twin-repair-language-local", "C20", [(SEARCH, "    def search(self, shortname, text, settings):\n        self.get_current_language(shortname)\n        result = self.language.translate_search(text, settings=settings)\n        return result\n",
                                             "    def search(self, shortname, text, settings):\n        language = self.loader.get_locale(shortname)\n        result = language.translate_search(text, settings=settings)\n        return result\n")], "silent",
      note="repaired twin for F6: the per-call locale is kept in a local; the old setter is no longer reachable"),
    V("twin-simplifications-built-then-published", "C20", [(LOCALE, "            if self._simplifications is None:\n                self._simplifications = []\n                simplifications = self._generate_simplifications(normalize=False)\n                for simplification in simplifications:\n                    pattern, replacement = list(simplification.items())[0]\n                    if not no_word_spacing:\n                        pattern = r\"(?<=\\A|\\W|_)%s(?=\\Z|\\W|_)\" % pattern\n                    pattern = re.compile(pattern, flags=re.I | re.U)\n                    self._simplifications.append({pattern: replacement})\n",
                                                           "            if self._simplifications is None:\n                built = []\n                simplifications = self._generate_simplifications(normalize=False)\n                for simplification in simplifications:\n                    pattern, replacement = list(simplification.items())[0]\n                    if not no_word_spacing:\n                        pattern = r\"(?<=\\A|\\W|_)%s(?=\\Z|\\W|_)\" % pattern\n                    pattern = re.compile(pattern, flags=re.I | re.U)\n                    built.append({pattern: replacement})\n                self._simplifications = built\n")], "silent",
      note="repaired twin for F7 (non-normalised list): build locally, publish once"),
    )

# ---------------------------------------------------------------- C08
add("C08",
    V("reference-normalised-to-utc", "C08", [(PARSER, "        if not self.now:\n            self.now = datetime.now(tz=timezone.utc).replace(tzinfo=None)\n\n    def _get_datetime_obj_params",
        "        if not self.now:\n            self.now = datetime.now(tz=timezone.utc).replace(tzinfo=None)\n        elif self.now.tzinfo is not None:\n            self.now = self.now.astimezone(timezone.utc).replace(tzinfo=None)\n\n    def _get_datetime_obj_params")], "fire", "C08.R7",
      note="seeded change C08-6: with an aware RELATIVE_BASE the 'current' day is the UTC day, the 'current' month the caller's"),
    V("leftover-number-without-token-record", "C08", [(PARSER, "                    params.update({attr: int(token)})\n                    setattr(self, \"_token_%s\" % attr, token)\n                    setattr(self, attr, int(token))\n",
                                                        "                    params.update({attr: int(token)})\n                    setattr(self, attr, int(token))\n")], "fire", "C08.R6",
      note="seeded change C05-3: '17 mars 2015' in a year-first locale gets the reference day"),
    V("first-day-is-2", "C08", [(UTILS, '    options = {\n        "first": 1,\n        "last": get_last_day_of_month', '    options = {\n        "first": 2,\n        "last": get_last_day_of_month')], "fire", "C08.R1"),
    V("last-day-of-wrong-month", "C08", [(UTILS, '"last": get_last_day_of_month(date_obj.year, date_obj.month),', '"last": get_last_day_of_month(date_obj.year, datetime.now().month),')], "fire", "C08.R1"),
    V("no-clamp-fallback", "C08", [(UTILS, '    try:\n        return date_obj.replace(day=options[settings.PREFER_DAY_OF_MONTH])\n    except ValueError:\n        return date_obj.replace(day=options["last"])',
                                    '    return date_obj.replace(day=options[settings.PREFER_DAY_OF_MONTH])')], "fire", "C08.R1"),
    V("last-month-is-11", "C08", [(UTILS, 'options = {"first": 1, "last": 12, "current"', 'options = {"first": 1, "last": 11, "current"')], "fire", "C08.R1"),
    V("day-completion-ignores-day-token", "C08", [(PARSER, '        if (\n            getattr(self, "_token_day", None)\n            or getattr(self, "_token_weekday", None)', '        if (\n            getattr(self, "_token_weekday", None)')], "fire", "C08.R2"),
    V("month-completion-always", "C08", [(PARSER, '        if getattr(self, "_token_month", None):\n            return dateobj\n\n        dateobj = set_correct_month_from_settings(', '        dateobj = set_correct_month_from_settings(')], "fire", "C08.R2"),
    V("month-completion-only-without-year", "C08", [(PARSER, '        if getattr(self, "_token_month", None):\n            return dateobj\n', '        if getattr(self, "_token_month", None) or getattr(self, "_token_year", None):\n            return dateobj\n')], "fire", "C08.R2"),
    V("year-shift-for-complete-dates", "C08", [(PARSER, "        if self.month and not self.year:\n            try:", "        if self.month:\n            try:")], "fire", "C08.R2"),
    V("day-before-month", "C08", [(PARSER, "        dateobj = po._correct_for_month(dateobj)\n\n        # correction for preference of day: beginning, current, end\n        dateobj = po._correct_for_day(dateobj)", "        dateobj = po._correct_for_day(dateobj)\n\n        # correction for preference of day: beginning, current, end\n        dateobj = po._correct_for_month(dateobj)")], "fire", "C08.R1"),
    V("day-of-year-not-a-month", "C08", [(UTILS, '"month": ["%b", "%B", "%m", "%-m", "%j", "%-j", "%c", "%x"],', '"month": ["%b", "%B", "%m", "%-m", "%c", "%x"],')], "fire", "C08.R3"),
    V("period-month-before-day", "C08", [(PARSER, '        for period in ["time", "day"]:\n            if getattr(self, period, None):\n                return "day"\n\n        for period in ["month", "year"]:\n            if getattr(self, period, None):\n                return period\n',
                                          '        for period in ["month", "year"]:\n            if getattr(self, period, None):\n                return period\n\n        for period in ["time", "day"]:\n            if getattr(self, period, None):\n                return "day"\n')], "fire", "C08.R4"),
    V("twin-guard-rewritten", "C08", [(PARSER, '        if getattr(self, "_token_month", None):\n            return dateobj\n', '        if self._token_month:\n            return dateobj\n')], "silent"),
    )

# ---------------------------------------------------------------- C09
add("C09",
    V("past-shifts-forward", "C09", [(PARSER, "                if self.now < dateobj - tz_offset:\n                    dateobj = dateobj + timedelta(days=-1)", "                if self.now < dateobj - tz_offset:\n                    dateobj = dateobj + timedelta(days=1)")], "fire", "C09.R2"),
    V("year-shift-under-current-period", "C09", [(PARSER, '                    if self.settings.PREFER_DATES_FROM == "past":\n                        dateobj = dateobj.replace(year=dateobj.year - 1)', '                    if self.settings.PREFER_DATES_FROM != "future":\n                        dateobj = dateobj.replace(year=dateobj.year - 1)')], "fire", "C09.R3"),
    V("same-weekday-stays-under-past", "C09", [(PARSER, '                    if self.settings.PREFER_DATES_FROM == "past":\n                        steps = 7\n                    else:\n                        steps = 0', "                    steps = 0")], "fire", "C09.R4"),
    V("same-weekday-week-under-current", "C09", [(PARSER, '                    if self.settings.PREFER_DATES_FROM == "past":\n                        steps = 7\n                    else:\n                        steps = 0', "                    steps = 7")], "fire", "C09.R4"),
    V("time-comparison-inverted", "C09", [(PARSER, "                if self.now > dateobj - tz_offset:\n                    dateobj = dateobj + timedelta(days=1)", "                if self.now < dateobj - tz_offset:\n                    dateobj = dateobj + timedelta(days=1)")], "fire", "C09.R5"),
    V("century-branches-swapped", "C09", [(PARSER, '                if "past" in self.settings.PREFER_DATES_FROM:\n                    dateobj = dateobj.replace(year=dateobj.year - 100)\n            else:\n                if "future" in self.settings.PREFER_DATES_FROM:\n                    dateobj = dateobj.replace(year=dateobj.year + 100)',
                                           '                if "future" in self.settings.PREFER_DATES_FROM:\n                    dateobj = dateobj.replace(year=dateobj.year + 100)\n            else:\n                if "past" in self.settings.PREFER_DATES_FROM:\n                    dateobj = dateobj.replace(year=dateobj.year - 100)')], "fire", "C09.R5"),
    V("day-completion-after-weekday-shift", "C09", [(PARSER, '            getattr(self, "_token_day", None)\n            or getattr(self, "_token_weekday", None)\n            or getattr(self, "_token_time", None)', '            getattr(self, "_token_day", None)\n            or getattr(self, "_token_time", None)')], "fire", "C09.R1"),
    V("twin-repair-month-stage", "C09", [(PARSER, '        if getattr(self, "_token_month", None):\n            return dateobj\n', '        if (\n            getattr(self, "_token_month", None)\n            or getattr(self, "_token_weekday", None)\n            or (self._token_time and not self._token_year and not self._token_day)\n        ):\n            return dateobj\n')], "silent",
      note="repaired twin of the known finding: no KNOWN-FINDING lines are required, only no new finding"),
    )

# ---------------------------------------------------------------- C10
add("C10",
    V("strict-changes-result", "C10", [(PARSER, '        dateobj = set_correct_day_from_settings(\n            dateobj, self.settings, current_day=self.now.day\n        )', '        if self.settings.STRICT_PARSING:\n            return dateobj.replace(day=1)\n        dateobj = set_correct_day_from_settings(\n            dateobj, self.settings, current_day=self.now.day\n        )')], "fire", "C10.R1"),
    V("formats-bypass-filter", "C10", [(DATE, "            try:\n                _check_strict_parsing(missing_parts, settings)\n            except ValueError:\n                continue\n", "")], "fire", "C10.R2"),
    V("results-filter-after-completion", "C10", [(PARSER, "        _check_strict_parsing(missing, self.settings)\n        self._set_relative_base()\n\n        time = self.time() if self.time is not None else None\n        params = self._get_datetime_obj_params()\n", "        self._set_relative_base()\n\n        time = self.time() if self.time is not None else None\n        params = self._get_datetime_obj_params()\n        if time:\n            _check_strict_parsing(missing, self.settings)\n")], "fire", "C10.R2"),
    V("filter-gets-empty-list", "C10", [(PARSER, "        _check_strict_parsing(missing, self.settings)\n        self._set_relative_base()", "        _check_strict_parsing([], self.settings)\n        self._set_relative_base()")], "fire", "C10.R2"),
    V("require-parts-ignored", "C10", [(PARSER, "            errors = [part for part in settings.REQUIRE_PARTS if part in missing]", "            errors = [part for part in settings.REQUIRE_PARTS if part in missing and part != \"day\"]")], "fire", "C10.R1"),
    V("clock-day-unconditional", "C10", [(PARSER, '            "day": self.day or self.now.day,', '            "day": self.now.day if self.month is None else (self.day or self.now.day),')], "fire", "C10.R3"),
    V("twin-filter-in-helper", "C10", [(PARSER, "        _check_strict_parsing(missing, self.settings)\n        self._set_relative_base()", "        self._strict(missing)\n        self._set_relative_base()"),
                                       (PARSER, "    def _correct_for_time_frame(self, dateobj, tz):", "    def _strict(self, missing):\n        _check_strict_parsing(missing, self.settings)\n\n    def _correct_for_time_frame(self, dateobj, tz):")], "silent"),
    )

# ---------------------------------------------------------------- C01
STRP = "dateparser/utils/strptime.py"
add("C01",
    V("subsecond-digits-through-a-float", "C01", [(DATE, "        date_obj = datetime.fromtimestamp(seconds, timezone).replace(\n            microsecond=millis * 1000 + micros, tzinfo=None\n        )\n", "        date_obj = datetime.fromtimestamp(\n            seconds + (millis * 1000 + micros) / 1e6, timezone\n        ).replace(tzinfo=None)\n")], "fire", "C01.R1", note="seeded change C01-3: off by a microsecond from 2**33 seconds on"),
    V("twin-subsecond-digits-through-timedelta", "C01", [(DATE, "        date_obj = datetime.fromtimestamp(seconds, timezone).replace(\n            microsecond=millis * 1000 + micros, tzinfo=None\n        )\n", "        date_obj = (datetime.fromtimestamp(seconds, timezone) + timedelta(microseconds=millis * 1000 + micros)).replace(\n            tzinfo=None\n        )\n")], "silent"),
    V("millis-scale-100", "C01", [(DATE, "microsecond=millis * 1000 + micros", "microsecond=millis * 100 + micros")], "fire", "C01.R1"),
    V("epoch-11-digits", "C01", [(DATE, 'RE_SEARCH_TIMESTAMP = re.compile(r"^(\\d{10})(\\d{3})?(\\d{3})?(?![^.])")', 'RE_SEARCH_TIMESTAMP = re.compile(r"^(\\d{10,11})(\\d{3})?(\\d{3})?(?![^.])")')], "fire", "C01.R1"),
    V("negative-regex-for-positive", "C01", [(DATE, "    if negative:\n        match = RE_SEARCH_NEGATIVE_TIMESTAMP.search(date_string)\n    else:\n        match = RE_SEARCH_TIMESTAMP.search(date_string)", "    match = RE_SEARCH_NEGATIVE_TIMESTAMP.search(date_string) or RE_SEARCH_TIMESTAMP.search(date_string)")], "fire", "C01.R1"),
    V("fraction-padded-to-5", "C01", [(STRP, "            match_groups = TIME_MATCHER.match(date_string).groupdict()\n            ms = match_groups[\"microsecond\"]\n            ms = ms + ((6 - len(ms)) * \"0\")", "            match_groups = TIME_MATCHER.match(date_string).groupdict()\n            ms = match_groups[\"microsecond\"]\n            ms = ms + ((5 - len(ms)) * \"0\")")], "fire", "C01.R2"),
    V("weekday-table-sunday-first", "C01", [(STRP, '    _strptime.calendar.day_name = [\n        "monday",\n        "tuesday",\n        "wednesday",\n        "thursday",\n        "friday",\n        "saturday",\n        "sunday",\n    ]', '    _strptime.calendar.day_name = [\n        "sunday",\n        "monday",\n        "tuesday",\n        "wednesday",\n        "thursday",\n        "friday",\n        "saturday",\n    ]')], "fire", "C01.R3"),
    V("english-abbreviation-moved", "C01", [(EN, '    "march": [\n        "mar",', '    "march": [')], "fire", "C01.R3"),
    V("twin-micros-via-temporary", "C01", [(DATE, "        date_obj = datetime.fromtimestamp(seconds, timezone).replace(\n            microsecond=millis * 1000 + micros, tzinfo=None\n        )", "        date_obj = datetime.fromtimestamp(seconds, timezone).replace(\n            microsecond=micros + 1000 * millis, tzinfo=None\n        )")], "silent"),
    )

# ---------------------------------------------------------------- C05
add("C05",
    V("revert-fix-empty-relative-split", "C05", [("dateparser/languages/dictionary.py", "        if self._relative_strings:\n            tokens = split_relative_regex.split(string)\n        else:\n            # without counted patterns the split expression is empty and would\n            # match between any two non-word characters (\"ejo (hazoza)\")\n            tokens = [string]\n", "        tokens = split_relative_regex.split(string)\n")], "fire", "C05.S",
      note="locales without counted patterns: names / phrases with two adjacent non-word characters are torn apart"),
    V("new-simplification-eats-month", "C05", [("dateparser/data/date_translation_data/de.py", '    "simplifications": [', '    "simplifications": [\n        {\n            "mai": "5"\n        },')], "fire", "C05.S-A"),
    V("month-abbreviation-equals-hardcoded-token", "C05", [("dateparser/data/date_translation_data/en.py", '    "march": [\n        "mar",', '    "march": [\n        "z",\n        "mar",')], "fire", "C05.S"),
    V("alternation-not-longest-first", "C05", [(DICT, "                value=sorted([key for key in self], key=len, reverse=True),", "                value=sorted([key for key in self]),")], "fire", "C05.R5"),
    V("twin-fix-french-sept", "C05", [("dateparser/data/date_translation_data/fr.py", '        {\n            "sept": "7"\n        },\n', "")], "silent",
      note="repaired twin of a known finding (data): silent = no NEW finding; the stale known entry is only a NOTE"),
    )

# ---------------------------------------------------------------- C06
add("C06",
    V("revert-fix-empty-relative-split", "C06", [("dateparser/languages/dictionary.py", "        if self._relative_strings:\n            tokens = split_relative_regex.split(string)\n        else:\n            # without counted patterns the split expression is empty and would\n            # match between any two non-word characters (\"ejo (hazoza)\")\n            tokens = [string]\n", "        tokens = split_relative_regex.split(string)\n")], "fire", "C06.R4",
      note="locales without counted patterns: names / phrases with two adjacent non-word characters are torn apart"),
    V("plural-canonical-key", "C06", [("dateparser/data/date_translation_data/fr.py", '        "in 2 day": [', '        "in 2 days": [')], "fire", "C06.R1"),
    V("unknown-unit-in-key", "C06", [("dateparser/data/date_translation_data/fr.py", '        "2 day ago": [', '        "2 jour ago": [')], "fire", "C06.R1"),
    V("number-not-group-1", "C06", [("dateparser/data/date_translation_data/en.py", '"(\\\\d+[.,]?\\\\d*) hr ago"', '"(about )?(\\\\d+[.,]?\\\\d*) hr ago"')], "fire", "C06.R2"),
    V("pattern-does-not-compile", "C06", [("dateparser/data/date_translation_data/en.py", '"(\\\\d+[.,]?\\\\d*) hr ago"', '"(\\\\d+[.,]?\\\\d*) hr( ago"')], "fire", "C06.R2"),
    V("counted-pattern-splits-phrase", "C06", [("dateparser/data/date_translation_data/en.py", '        "\\\\1 week ago": [', '        "sunday": [\n            "week"\n        ],\n        "\\\\1 week ago": [')], "fire", "C06.R4"),
    V("phrase-lost-in-normalisation-conflict", "C06", [("dateparser/data/date_translation_data/en.py", '        "in 1 day": [\n            "tomorrow"', '        "in 1 day": [\n            "agó",\n            "tomorrow"')], "fire", "C06.R3"),
    )

# ---------------------------------------------------------------- C07
add("C07",
    V("chart-dmy-swapped", "C07", [(PARSER, '        "DMY": ["day", "month", "year"],', '        "DMY": ["month", "day", "year"],')], "fire", "C07.R1"),
    V("chart-string-swapped", "C07", [(PARSER, '    "YDM": "%y%d%m",\n    "YMD": "%y%m%d",', '    "YDM": "%y%m%d",\n    "YMD": "%y%d%m",')], "fire", "C07.R1"),
    V("locale-order-overrides-explicit", "C07", [(DATE, '                if "DATE_ORDER" not in self._settings._mod_settings:\n                    self._settings.DATE_ORDER = self.locale.info.get(\n                        "date_order", _order\n                    )', '                self._settings.DATE_ORDER = self.locale.info.get("date_order", _order)')], "fire", "C07.R2"),
    V("locale-order-ignores-preference-flag", "C07", [(DATE, "            if self._settings.PREFER_LOCALE_DATE_ORDER:\n                if", "            if True:\n                if")], "fire", "C07.R2"),
    V("order-not-from-settings", "C07", [(PARSER, "            for k in (resolve_date_order(settings.DATE_ORDER, lst=True))", '            for k in (resolve_date_order("MDY", lst=True))')], "fire", "C07.R3"),
    V("year-pin-for-any-length", "C07", [(PARSER, '                if len(token) == 4 and res[0] == "year":', '                if res[0] == "year":')], "fire", "C07.R3"),
    V("locale-with-invalid-order", "C07", [("dateparser/data/date_translation_data/fi.py", '"date_order": "DMY"', '"date_order": "DYM2"')], "fire", "C07.R1"),
    V("nsp-sort-key-mismatch", "C07", [(PARSER, '            "%d%y%m": sorted(\n                self._all, key=lambda x: x.lower().startswith("%d%y%m"), reverse=True\n            ),', '            "%d%y%m": sorted(\n                self._all, key=lambda x: x.lower().startswith("%d%m%y"), reverse=True\n            ),')], "fire", "C07.R1"),
    )

# ---------------------------------------------------------------- C13
add("C13",
    V("detector-guard-de-morgan-slip", "C13", [(DATE, '        if self.detect_languages_function and not self.languages and not self.locales:', "        if self.detect_languages_function and not (self.languages and self.locales):")], "fire", "C13.R4",
      note="seeded change C13-4: languages=['fr'] plus a detector that answers 'en' parses with English"),
    V("twin-detector-guard-factored", "C13", [(DATE, '        if self.detect_languages_function and not self.languages and not self.locales:', "        if self.detect_languages_function and not (self.languages or self.locales):")], "silent"),
    V("defaults-before-requested", "C13", [(DATE, "        for locale in self._get_locale_loader().get_locales(\n            languages=self.languages,", "        if self._settings.DEFAULT_LANGUAGES:\n            for locale in self._get_locale_loader().get_locales(\n                languages=self._settings.DEFAULT_LANGUAGES,\n                locales=None,\n                region=self.region,\n                use_given_order=self.use_given_order,\n            ):\n                yield locale\n\n        for locale in self._get_locale_loader().get_locales(\n            languages=self.languages,")], "fire", "C13.R1"),
    V("region-not-forwarded", "C13", [(DATE, "            languages=self.languages,\n            locales=self.locales,\n            region=self.region,", "            languages=self.languages,\n            locales=self.locales,\n            region=None,")], "fire", "C13.R1"),
    V("reported-locale-is-language", "C13", [(DATE, '                parsed_date["locale"] = locale.shortname', '                parsed_date["locale"] = locale.info["name"]')], "fire", "C13.R2"),
    V("given-order-always-sorted", "C13", [(LOADER, "        if not use_given_order:\n            locale_dict = OrderedDict(", "        if True:\n            locale_dict = OrderedDict(")], "fire", "C13.R3"),
    V("languages-stored-wrong", "C13", [(DATE, "        self.locales = locales\n        self.region = region", "        self.locales = None\n        self.region = region")], "fire", "C13.R1"),
    V("applicability-skipped", "C13", [(DATE, "            for s in date_strings():\n                if self._is_applicable_locale(locale, s):\n                    yield locale\n\n        if self._settings.DEFAULT_LANGUAGES:", "            yield locale\n\n        if self._settings.DEFAULT_LANGUAGES:")], "fire", "C13.R1"),
    V("region-names-zipped-against-all-languages", "C13", [(LOADER, "            for language in languages:\n                for locale in _construct_locales([language], region):\n                    locale_dict[locale] = (language, region)\n", "            locales = _construct_locales(languages, region)\n            locale_dict.update(\n                zip(\n                    locales, tuple(zip_longest(languages, [], fillvalue=region))\n                )\n            )\n"), (LOADER, "from importlib import import_module\n", "from importlib import import_module\nfrom itertools import zip_longest\n")], "fire", "C13.R6",
      note="the defect repaired by 18d8e12: region='BE' gives a 'fr-BE' that speaks Russian, cached for the whole process"),
    V("twin-region-pairs-by-comprehension", "C13", [(LOADER, "            for language in languages:\n                for locale in _construct_locales([language], region):\n                    locale_dict[locale] = (language, region)\n", "            locale_dict.update(\n                (locale, (language, region))\n                for language in languages\n                for locale in _construct_locales([language], region)\n            )\n")], "silent"),
    V("twin-unfiltered-zip", "C13", [(LOADER, "            for language in languages:\n                for locale in _construct_locales([language], region):\n                    locale_dict[locale] = (language, region)\n", "            names = [language + '-' + region if region else language for language in languages]\n            locale_dict.update(zip(names, [(language, region) for language in languages]))\n")], "silent"),
    V("region-pair-takes-first-language", "C13", [(LOADER, "                    locale_dict[locale] = (language, region)\n", "                    locale_dict[locale] = (languages[0], region)\n")], "fire", "C13.R6"),
    V("locale-cached-under-language", "C13", [(LOADER, "                    locale = Locale(shortname, language_info=deepcopy(language_info))\n                    self._loaded_languages[lang] = language_info\n                    self._loaded_locales[shortname] = locale", "                    locale = Locale(shortname, language_info=deepcopy(language_info))\n                    self._loaded_languages[lang] = language_info\n                    self._loaded_locales[lang] = locale")], "fire", "C13.R6"),
    V("data-module-of-the-locale-name", "C13", [(LOADER, 'import_module("dateparser.data.date_translation_data." + lang)', 'import_module("dateparser.data.date_translation_data." + shortname)')], "fire", "C13.R6"),
    )

# ---------------------------------------------------------------- C14
add("C14",
    V("formats-after-sanitize", "C14", [(DATE, "        res = parse_with_formats(date_string, date_formats or [], self._settings)\n        if res[\"date_obj\"]:\n            return res\n\n        date_string = sanitize_date(date_string)\n", "        date_string = sanitize_date(date_string)\n        res = parse_with_formats(date_string, date_formats or [], self._settings)\n        if res[\"date_obj\"]:\n            return res\n")], "fire", "C14.R1"),
    V("localized-path-loses-formatting", "C14", [(DATE, "        return parse_with_formats(\n            self._get_translated_date_with_formatting(),", "        return parse_with_formats(\n            self._get_translated_date(),")], "fire", "C14.R3"),
    V("keep-formatting-false", "C14", [(DATE, "                self.date_string, keep_formatting=True, settings=self._settings", "                self.date_string, keep_formatting=False, settings=self._settings")], "fire", "C14.R3"),
    V("year-default-always", "C14", [(DATE, '            if "year" in missing_parts:\n                today = datetime.today()', "            if True:\n                today = datetime.today()")], "fire", "C14.R2"),
    V("mismatch-stops-loop", "C14", [(DATE, "            date_obj = datetime.strptime(date_string, date_format)\n        except ValueError:\n            continue", "            date_obj = datetime.strptime(date_string, date_format)\n        except ValueError:\n            break")], "fire", "C14.R2"),
    )

# ---------------------------------------------------------------- C15
JAL = "dateparser/calendars/jalali_parser.py"
CAL = "dateparser/calendars/__init__.py"
add("C15",
    V("hijri-parser-pins-day-first", "C15", [("dateparser/calendars/hijri_parser.py", "    _time_conventions = {", "    def __init__(self, tokens, settings):\n        super().__init__(tokens, settings.replace(DATE_ORDER=\"DMY\"))\n\n    _time_conventions = {")], "fire", "C15.R3",
      note="seeded change C15-6: '1432-09-05' is read with day and month swapped"),
    V("hijri-range-guard-half-open", "C15", [("dateparser/calendars/hijri_parser.py", "from hijridate import Gregorian, Hijri\n", "from hijridate import Gregorian, Hijri\nfrom hijridate.ummalqura import HIJRI_RANGE\n"),
        ("dateparser/calendars/hijri_parser.py", "        g = Hijri(year=year, month=month, day=day, validate=False).to_gregorian()\n", "        if not HIJRI_RANGE[0] <= (year, month, day) < HIJRI_RANGE[1]:\n            raise ValueError(\"date outside of the supported Hijri range\")\n        g = Hijri(year=year, month=month, day=day, validate=False).to_gregorian()\n")], "fire", "C15.R5",
      note="seeded change C15-3: 30 Dhu al-Hijjah 1500 is rejected"),
    V("twin-hijri-range-guard-inclusive", "C15", [("dateparser/calendars/hijri_parser.py", "from hijridate import Gregorian, Hijri\n", "from hijridate import Gregorian, Hijri\nfrom hijridate.ummalqura import HIJRI_RANGE\n"),
        ("dateparser/calendars/hijri_parser.py", "        g = Hijri(year=year, month=month, day=day, validate=False).to_gregorian()\n", "        if not HIJRI_RANGE[0] <= (year, month, day) <= HIJRI_RANGE[1]:\n            raise ValueError(\"date outside of the supported Hijri range\")\n        g = Hijri(year=year, month=month, day=day, validate=False).to_gregorian()\n")], "silent"),
    V("day-bound-parsed-month-default-year", "C15", [(CAL, "        year, month, day = self.default_year, self.default_month, self.default_day\n        token_len = len(token)\n",
                                                      "        year, month, day = self.default_year, self.default_month, self.default_day\n        if directive == \"%d\" and self.month:\n            month = self.month\n        token_len = len(token)\n")], "fire", "C15.R4",
      note="seeded change C15-1: Esfand 30 of a leap year is rejected when the month precedes the day"),
    V("default-month-not-longest", "C15", [("dateparser/calendars/hijri_parser.py", "    default_month = 1\n", "    default_month = 2\n")], "fire", "C15.R4"),
    V("microsecond-dropped", "C15", [(CAL, "        c_params = params.copy()\n        c_params.update(dict(year=year, month=month, day=day))\n        return datetime(**c_params)\n",
                                      "        return datetime(\n            year, month, day, params[\"hour\"], params[\"minute\"], params[\"second\"]\n        )\n")], "fire", "C15.R3",
      note="seeded change C15-2"),
    V("twin-datetime-built-positionally", "C15", [(CAL, "        c_params = params.copy()\n        c_params.update(dict(year=year, month=month, day=day))\n        return datetime(**c_params)\n",
                                                   "        return datetime(\n            year, month, day, params[\"hour\"], params[\"minute\"], params[\"second\"], params[\"microsecond\"]\n        )\n")], "silent"),
    V("twin-day-bound-on-parsed-pair", "C15", [(CAL, "        year, month, day = self.default_year, self.default_month, self.default_day\n        token_len = len(token)\n",
                                                "        year, month, day = self.default_year, self.default_month, self.default_day\n        token_len = len(token)\n        by, bm = year, month\n"),
                                               (CAL, "            and 0 < int(token) <= self.calendar_converter.month_length(year, month)\n", "            and 0 < int(token) <= self.calendar_converter.month_length(by, bm)\n")], "silent"),
    V("month-index-wrong", "C15", [(JAL, '("Mordad", (5, 31, ["امرداد", "مرداد"])),', '("Mordad", (6, 31, ["امرداد", "مرداد"])),')], "fire", "C15.R1"),
    V("months-reordered", "C15", [(JAL, '            ("Mehr", (7, 30, ["مهر"])),\n            ("Aban", (8, 30, ["آبان"])),', '            ("Aban", (8, 30, ["آبان"])),\n            ("Mehr", (7, 30, ["مهر"])),')], "fire", "C15.R1"),
    V("digit-table-wrong", "C15", [(JAL, '        "۸": 8,\n        "۹": 9,', '        "۸": 9,\n        "۹": 8,')], "fire", "C15.R1"),
    V("days-before-weekdays", "C15", [(CAL, "        result = cls._replace_weekdays(result)\n        result = cls._replace_digits(result)\n        result = cls._replace_days(result)", "        result = cls._replace_days(result)\n        result = cls._replace_weekdays(result)\n        result = cls._replace_digits(result)")], "fire", "C15.R2"),
    V("thirteen-thirty-not-swapped", "C15", [(JAL, '        30: ["سی"],\n        31: ["سی و یک"],', '        30: ["سی"],\n        31: ["سی و یک"],\n        32: ["سی و دو"],')], "fire", "C15.R1"),
    V("month-day-swapped-into-converter", "C15", [(CAL, "            year=year, month=month, day=day\n        )\n        c_params", "            year=year, month=day, day=month\n        )\n        c_params")], "fire", "C15.R3"),
    V("time-dropped", "C15", [(CAL, "        c_params = params.copy()\n        c_params.update(dict(year=year, month=month, day=day))\n        return datetime(**c_params)", "        return datetime(year=year, month=month, day=day)")], "fire", "C15.R3"),
    V("weekday-shadowing", "C15", [(JAL, '            ("Saturday", ["روز شنبه", "شنبه"]),\n', ""), (JAL, '            ("Sunday", ["یکشنبه"]),', '            ("Saturday", ["روز شنبه", "شنبه"]),\n            ("Sunday", ["یکشنبه"]),')], "fire", "C15.R2"),
    )

# ---------------------------------------------------------------- C18
add("C18",
    V("year-abbreviation-only-before-space-or-end", "C18", [(DATE, 'RE_SANITIZE_RUSSIAN = re.compile(r"([\\W\\d])\\u0433\\.", flags=re.I | re.U)', 'RE_SANITIZE_RUSSIAN = re.compile(r"([\\W\\d])\\u0433\\.(?=\\s|$)", flags=re.I | re.U)')], "fire", "C18.R4",
      note="seeded change C18-6: '2015 г.:' keeps its 'г'"),
    V("period-regex-ascii-digits", "C18", [(DATE, 'RE_SANITIZE_PERIOD = re.compile(r"(?<=[^\\d\\s])\\.", flags=re.U)', 'RE_SANITIZE_PERIOD = re.compile(r"(?<=[^0-9\\s])\\.", flags=re.U)')], "fire", "C18.R1"),
    V("croatian-regex-ascii-digits", "C18", [(DATE, 'r"(\\d+)\\.\\s?(\\d+)\\.\\s?(\\d+)\\.( u)?"', 'r"([0-9]+)\\.\\s?([0-9]+)\\.\\s?([0-9]+)\\.( u)?"')], "fire", "C18.R1"),
    V("new-raw-regex-with-ascii-class", "C18", [(DATE, "    date_string = RE_SANITIZE_ON.sub(r\"\\1\", date_string)\n", "    date_string = RE_SANITIZE_ON.sub(r\"\\1\", date_string)\n    date_string = re.sub(r\"(?<=[0-9])(st|nd|rd|th)\\b\", \"\", date_string)\n")], "fire", "C18.R1"),
    V("numerals-after-simplify", "C18", [(LOCALE, "        date_string = self._translate_numerals(date_string)\n        if settings.NORMALIZE:\n            date_string = normalize_unicode(date_string)\n        date_string = self._simplify(date_string, settings=settings)\n        dictionary = self._get_dictionary(settings)\n        date_string_tokens = dictionary.split(date_string, keep_formatting)",
                                          "        if settings.NORMALIZE:\n            date_string = normalize_unicode(date_string)\n        date_string = self._simplify(date_string, settings=settings)\n        date_string = self._translate_numerals(date_string)\n        dictionary = self._get_dictionary(settings)\n        date_string_tokens = dictionary.split(date_string, keep_formatting)")], "fire", "C18.R2"),
    V("isdigit-instead-of-isdecimal", "C18", [(LOCALE, "            if token.isdecimal():", "            if token.isdigit():")], "fire", "C18.R2"),
    V("revert-fix-canonicalise-first", "C18", [(DATE, "def sanitize_date(date_string):\n    date_string = sanitize_spaces(date_string)\n", "def sanitize_date(date_string):\n")], "fire", "C18.R3"),
    V("revert-fix-trim-needs-both-ends", "C18", [(DATE, 'RE_TRIM_SPACES = re.compile(r"^\\s*(\\S.*?)\\s*$")', 'RE_TRIM_SPACES = re.compile(r"^\\s+(\\S.*?)\\s+$")')], "fire", "C18.R3"),
    V("nbsp-only-after-patterns", "C18", [(DATE, "def sanitize_date(date_string):\n    date_string = sanitize_spaces(date_string)\n", "def sanitize_date(date_string):\n    date_string = RE_SPACES.sub(\" \", date_string)\n")], "fire", "C18.R3",
      note="collapsed but not trimmed before the spacing-sensitive patterns"),
    V("twin-ascii-whitespace-after-nbsp-mapping", "C18", [(DATE, 'RE_SPACES = re.compile(r"\\s+")', 'RE_SPACES = re.compile(r"\\s+", flags=re.ASCII)')], "silent",
      note="NBSP is mapped to a space first, so an ASCII-only \\s+ still covers the whole whitespace family of the property"),
    V("ascii-whitespace-and-no-nbsp-mapping", "C18", [(DATE, 'RE_SPACES = re.compile(r"\\s+")', 'RE_SPACES = re.compile(r"\\s+", flags=re.ASCII)'),
                                                        (DATE, "    date_string = RE_NBSP.sub(\" \", date_string)\n", "")], "fire", "C18.R3"),
    V("no-final-strip", "C18", [(DATE, "    date_string = RE_SANITIZE_APOSTROPHE.sub(\"'\", date_string)\n    date_string = date_string.strip()\n", "    date_string = RE_SANITIZE_APOSTROPHE.sub(\"'\", date_string)\n")], "fire", "C18.R4"),
    V("colon-trim-before-second-normalisation", "C18", [(DATE, "    date_string = sanitize_spaces(date_string)\n    date_string = RE_SANITIZE_PERIOD.sub(\"\", date_string)\n    date_string = RE_SANITIZE_ON.sub(r\"\\1\", date_string)\n    date_string = RE_TRIM_COLONS.sub(r\"\\1\", date_string)\n",
                                                        "    date_string = RE_TRIM_COLONS.sub(r\"\\1\", date_string)\n    date_string = sanitize_spaces(date_string)\n    date_string = RE_SANITIZE_PERIOD.sub(\"\", date_string)\n    date_string = RE_SANITIZE_ON.sub(r\"\\1\", date_string)\n")], "fire", "C18.R4",
      note="'2005 г.:' -> RUSSIAN leaves '2005  :'... the colon trim then runs on a string whose right end may carry the blank a replacement added"),
    V("language-work-on-raw-string", "C18", [(DATE, "        date_string = sanitize_date(date_string)\n", "        raw_string = date_string\n        date_string = sanitize_date(date_string)\n"),
                                               (DATE, "        for locale in self._get_applicable_locales(date_string):", "        for locale in self._get_applicable_locales(raw_string):")], "fire", "C18.R3"),
    V("twin-russian-class-narrowed-after-normalisation", "C18", [(DATE, 'RE_SANITIZE_RUSSIAN = re.compile(r"([\\W\\d])\\u0433\\.", flags=re.I | re.U)', 'RE_SANITIZE_RUSSIAN = re.compile(r"([ \\d])\\u0433\\.", flags=re.I | re.U)')], "silent",
      note="seeded change C18-2: harmless once whitespace is canonical before the pattern runs"),
    V("twin-join-split-canonicaliser", "C18", [(DATE, "    date_string = RE_NBSP.sub(\" \", date_string)\n    date_string = RE_SPACES.sub(\" \", date_string)\n    date_string = RE_TRIM_SPACES.sub(r\"\\1\", date_string)\n    return date_string\n",
                                               "    date_string = \" \".join(date_string.split())\n    return date_string\n")], "silent"),
    V("twin-digit-class-spelled-differently", "C18", [(DATE, 'RE_SANITIZE_PERIOD = re.compile(r"(?<=[^\\d\\s])\\.", flags=re.U)', 'RE_SANITIZE_PERIOD = re.compile(r"(?<![\\d\\s])(?<=.)\\.", flags=re.U)')], "silent"),
    )

add("C03",
    V("new-settings-dependent-locale-cache", "C03", [(LOCALE, "    def _get_relative_translations(self, settings=None):\n        if settings.NORMALIZE:", "    def _get_relative_translations(self, settings=None):\n        if self._relative_translations is None and settings.SKIP_TOKENS:\n            self._relative_translations = OrderedDict(\n                (k, v) for k, v in self._generate_relative_translations(normalize=False).items()\n                if v not in settings.SKIP_TOKENS\n            )\n        if settings.NORMALIZE:")], "fire", "C03.R5"),
    )

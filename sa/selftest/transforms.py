"""Behaviour-preserving whole-tree transformations used as global twins by the self-test:
  reformat      - every module re-emitted by ast.unparse (comments dropped, layout and line numbers changed)
  alpha_rename  - every local variable of every function renamed (parameters, globals, attributes untouched)
  flip_ifs      - every two-armed if written the other way round
  document      - every function that has no docstring gets one, and every parameter without a default gets an annotation
  fold_returns / unfold_returns - `x = e; return x` <-> `return e` (both directions, everywhere)
  guard_clauses - `if c: <returns> else: B` -> `if c: <returns>` followed by B
  no_loop_else  - `for .. else: E` without a break -> the loop followed by E
  dict_calls    - dict literals with identifier keys (inside functions) -> dict(k=v, ..)
  (fstrings - '..{}..'.format(a) -> f-string - is a development twin only (tools/twins2.py): C05/C06 answer it with exit 2, not silence)
The checks must stay silent on all of them (no rule may depend on layout, on the spelling of a local, on the polarity a
condition happens to be written in, or on the position of a statement in its body)."""
import ast
import builtins

SKIP_PREFIX = "dateparser/data/date_translation_data/"


def code_files(repo):
    return [f for f in repo.walk_py("dateparser") if not f.startswith(SKIP_PREFIX) and repo.text(f).strip()]


def reformat(repo):
    return {f: ast.unparse(ast.parse(repo.text(f))) + "\n" for f in code_files(repo)}


class _Renamer(ast.NodeTransformer):
    def __init__(self, mapping):
        self.m = mapping

    def visit_Name(self, node):
        if node.id in self.m:
            node.id = self.m[node.id]
        return node

    def visit_ExceptHandler(self, node):
        if node.name in self.m:
            node.name = self.m[node.name]
        self.generic_visit(node)
        return node


def _rename_function(fn, module_names):
    params = set()
    stores = set()
    declared = set()
    loads = set()
    for n in ast.walk(fn):
        if isinstance(n, (ast.FunctionDef, ast.AsyncFunctionDef, ast.Lambda)):
            a = n.args
            for x in a.posonlyargs + a.args + a.kwonlyargs + ([a.vararg] if a.vararg else []) + ([a.kwarg] if a.kwarg else []):
                params.add(x.arg)
            if not isinstance(n, ast.Lambda) and n is not fn:
                declared.add(n.name)  # nested function names stay
        elif isinstance(n, (ast.Global, ast.Nonlocal)):
            declared |= set(n.names)
        elif isinstance(n, ast.Name):
            (stores if isinstance(n.ctx, (ast.Store, ast.Del)) else loads).add(n.id)
        elif isinstance(n, ast.ExceptHandler) and n.name:
            stores.add(n.name)
        elif isinstance(n, ast.ClassDef):
            return  # leave functions with nested classes alone
        elif isinstance(n, (ast.Import, ast.ImportFrom)):
            for al in n.names:
                declared.add((al.asname or al.name).split(".")[0])
    local = stores - params - declared - set(dir(builtins))
    # a name that is also a module-level name read before assignment would change meaning; be conservative
    local = {x for x in local if x not in module_names and not x.startswith("__")}
    mapping = {x: x + "_rn" for x in local if (x + "_rn") not in stores | loads | params}
    _Renamer(mapping).visit(fn)


def alpha_rename(repo):
    out = {}
    for f in code_files(repo):
        tree = ast.parse(repo.text(f))
        module_names = set()
        for n in tree.body:
            if isinstance(n, (ast.FunctionDef, ast.ClassDef)):
                module_names.add(n.name)
            elif isinstance(n, ast.Assign):
                for t in n.targets:
                    for x in ast.walk(t):
                        if isinstance(x, ast.Name):
                            module_names.add(x.id)
            elif isinstance(n, (ast.Import, ast.ImportFrom)):
                for al in n.names:
                    module_names.add((al.asname or al.name).split(".")[0])

        def visit(body):
            for n in body:
                if isinstance(n, (ast.FunctionDef, ast.AsyncFunctionDef)):
                    _rename_function(n, module_names)
                elif isinstance(n, ast.ClassDef):
                    visit(n.body)
        visit(tree.body)
        out[f] = ast.unparse(tree) + "\n"
    return out


class _IfFlipper(ast.NodeTransformer):
    """`if c: A else: B` -> `if not (c): B else: A` for every two-armed if whose else-arm is not an elif chain"""

    def visit_If(self, node):
        self.generic_visit(node)
        if node.orelse and not (len(node.orelse) == 1 and isinstance(node.orelse[0], ast.If)) \
                and not (len(node.body) == 1 and isinstance(node.body[0], ast.If) and False):
            t = node.test
            if isinstance(t, ast.UnaryOp) and isinstance(t.op, ast.Not):
                new_test = t.operand
            else:
                new_test = ast.UnaryOp(op=ast.Not(), operand=t)
            return ast.copy_location(ast.If(test=new_test, body=node.orelse, orelse=node.body), node)
        return node


def flip_ifs(repo):
    """every two-armed if written the other way round (tests the polarity handling of guard extraction)"""
    out = {}
    for f in code_files(repo):
        tree = _IfFlipper().visit(ast.parse(repo.text(f)))
        ast.fix_missing_locations(tree)
        out[f] = ast.unparse(tree) + "\n"
    return out


class _Documenter(ast.NodeTransformer):
    def visit_FunctionDef(self, node):
        self.generic_visit(node)
        has_doc = bool(node.body) and isinstance(node.body[0], ast.Expr) and isinstance(node.body[0].value, ast.Constant) \
            and isinstance(node.body[0].value.value, str)
        if not has_doc:
            node.body.insert(0, ast.Expr(value=ast.Constant(value="Documented by the self-test twin: %s." % node.name)))
        a = node.args
        n_required = len(a.args) - len(a.defaults)
        for i, x in enumerate(a.args):
            if i < n_required and x.annotation is None and x.arg not in ("self", "cls"):
                x.annotation = ast.Name(id="object", ctx=ast.Load())
        return node


def document(repo):
    """docstrings and parameter annotations added everywhere (what a documentation pass over the code base does)"""
    out = {}
    for f in code_files(repo):
        tree = _Documenter().visit(ast.parse(repo.text(f)))
        ast.fix_missing_locations(tree)
        out[f] = ast.unparse(tree) + "\n"
    return out


# ---------------------------------------------------------------------------------------------------------------------------
# second generation of whole-tree twins: the statement-level rewrites the independent refactoring rounds used most often

def _block_fields(node):
    for fld in ("body", "orelse", "finalbody"):
        blk = getattr(node, fld, None)
        if isinstance(blk, list) and blk and isinstance(blk[0], ast.stmt):
            yield fld, blk
    for h in getattr(node, "handlers", []) or []:
        yield "body", h.body


def _rewrite_blocks(tree, fn):
    """apply fn(list of statements) -> list of statements to every statement list of the tree, innermost first"""
    for node in ast.walk(tree):
        for fld, blk in list(_block_fields(node)):
            new = fn(blk, node)
            if new is not blk:
                blk[:] = new
    return tree


def _always_leaves(stmts):
    if not stmts:
        return False
    last = stmts[-1]
    if isinstance(last, (ast.Return, ast.Raise)):
        return True
    return isinstance(last, ast.If) and bool(last.orelse) and _always_leaves(last.body) and _always_leaves(last.orelse)


def _apply(repo, rewrite):
    out = {}
    for f in code_files(repo):
        tree = rewrite(ast.parse(repo.text(f)))
        ast.fix_missing_locations(tree)
        out[f] = ast.unparse(tree) + "\n"
    return out


def fold_returns(repo):
    """`x = <expr>` directly followed by `return x` becomes `return <expr>`"""
    def fn(blk, owner):
        out, i, changed = [], 0, False
        while i < len(blk):
            a = blk[i]
            b = blk[i + 1] if i + 1 < len(blk) else None
            if isinstance(a, ast.Assign) and len(a.targets) == 1 and isinstance(a.targets[0], ast.Name) and isinstance(b, ast.Return) \
                    and isinstance(b.value, ast.Name) and b.value.id == a.targets[0].id:
                out.append(ast.copy_location(ast.Return(value=a.value), a))
                i += 2
                changed = True
                continue
            out.append(a)
            i += 1
        return out if changed else blk

    def rewrite(tree):
        for f in [n for n in ast.walk(tree) if isinstance(n, (ast.FunctionDef, ast.AsyncFunctionDef))]:
            if any(isinstance(n, (ast.Global, ast.Nonlocal)) for n in ast.walk(f)):
                continue
            _rewrite_blocks(f, fn)
        return tree
    return _apply(repo, rewrite)


def unfold_returns(repo):
    """`return <expr>` (anything but a name or a constant) becomes `result_ = <expr>` + `return result_`"""
    def rewrite(tree):
        for f in [n for n in ast.walk(tree) if isinstance(n, (ast.FunctionDef, ast.AsyncFunctionDef))]:
            names = {n.id for n in ast.walk(f) if isinstance(n, ast.Name)} | {a.arg for a in f.args.args}
            tmp = "result_"
            while tmp in names:
                tmp += "_"
            own = set()
            stack = list(f.body)
            while stack:            # statements of f itself, not of nested functions
                n = stack.pop()
                own.add(id(n))
                if isinstance(n, (ast.FunctionDef, ast.AsyncFunctionDef, ast.ClassDef)):
                    continue
                for _, blk in _block_fields(n):
                    stack.extend(blk)

            def fn(blk, owner, tmp=tmp, own=own):
                out, changed = [], False
                for st in blk:
                    if id(st) in own and isinstance(st, ast.Return) and st.value is not None and not isinstance(st.value, (ast.Name, ast.Constant)):
                        out.append(ast.copy_location(ast.Assign(targets=[ast.Name(id=tmp, ctx=ast.Store())], value=st.value), st))
                        out.append(ast.copy_location(ast.Return(value=ast.Name(id=tmp, ctx=ast.Load())), st))
                        changed = True
                    else:
                        out.append(st)
                return out if changed else blk
            _rewrite_blocks(f, fn)
        return tree
    return _apply(repo, rewrite)


def guard_clauses(repo):
    """`if c: <always returns / raises> else: B` becomes `if c: ...` followed by B (and the same for the last arm of an elif chain)"""
    def fn(blk, owner):
        out, changed = [], False
        for st in blk:
            if isinstance(st, ast.If) and st.orelse and _always_leaves(st.body) and not (len(st.orelse) == 1 and isinstance(st.orelse[0], ast.If)
                                                                                         and not _always_leaves(st.orelse[0].body)):
                rest = st.orelse
                st.orelse = []
                out.append(st)
                out.extend(rest)
                changed = True
            else:
                out.append(st)
        return out if changed else blk

    def rewrite(tree):
        for _ in range(3):
            _rewrite_blocks(tree, fn)
        return tree
    return _apply(repo, rewrite)


def no_loop_else(repo):
    """`for .. else: E` / `while .. else: E` whose loop contains no `break` of its own: E simply follows the loop"""
    def own_break(loop):
        stack = list(loop.body)
        while stack:
            n = stack.pop()
            if isinstance(n, ast.Break):
                return True
            if isinstance(n, (ast.For, ast.While, ast.FunctionDef, ast.AsyncFunctionDef, ast.ClassDef)):
                if isinstance(n, (ast.For, ast.While)):
                    stack.extend(n.orelse)
                continue
            for _, blk in _block_fields(n):
                stack.extend(blk)
        return False

    def fn(blk, owner):
        out, changed = [], False
        for st in blk:
            if isinstance(st, (ast.For, ast.While)) and st.orelse and not own_break(st):
                rest = st.orelse
                st.orelse = []
                out.append(st)
                out.extend(rest)
                changed = True
            else:
                out.append(st)
        return out if changed else blk
    return _apply(repo, lambda tree: _rewrite_blocks(tree, fn))


def dict_calls(repo):
    """a dict literal inside a function whose keys are all identifier strings becomes dict(k=v, ..)"""
    import keyword

    class T(ast.NodeTransformer):
        depth = 0

        def visit_FunctionDef(self, node):
            self.depth += 1
            self.generic_visit(node)
            self.depth -= 1
            return node

        def visit_Dict(self, node):
            self.generic_visit(node)
            if self.depth and node.keys and all(isinstance(k, ast.Constant) and isinstance(k.value, str) and k.value.isidentifier()
                                                and not keyword.iskeyword(k.value) for k in node.keys) \
                    and len({k.value for k in node.keys}) == len(node.keys):
                return ast.copy_location(ast.Call(func=ast.Name(id="dict", ctx=ast.Load()), args=[],
                                                  keywords=[ast.keyword(arg=k.value, value=v) for k, v in zip(node.keys, node.values)]), node)
            return node
    return _apply(repo, lambda tree: T().visit(tree))


def fstrings(repo):
    """'..{}..'.format(a, b) with plain positional placeholders becomes an f-string"""
    import string

    class T(ast.NodeTransformer):
        def visit_Call(self, node):
            self.generic_visit(node)
            if isinstance(node.func, ast.Attribute) and node.func.attr == "format" and isinstance(node.func.value, ast.Constant) \
                    and isinstance(node.func.value.value, str) and not node.keywords and node.args \
                    and not any(isinstance(a, ast.Starred) for a in node.args):
                try:
                    parts = list(string.Formatter().parse(node.func.value.value))
                except ValueError:
                    return node
                if sum(1 for _, fld, _, _ in parts if fld is not None) != len(node.args) or any(
                        fld not in (None, "") or (spec or conv) for _, fld, spec, conv in parts):
                    return node
                # quotes or backslashes inside the pieces would need escaping rules that differ between versions: leave those alone
                if any(c in lit for lit, _, _, _ in parts for c in "'\"\\{}") or any(not isinstance(a, (ast.Name, ast.Attribute)) for a in node.args):
                    return node
                vals, it = [], iter(node.args)
                for lit, fld, _, _ in parts:
                    if lit:
                        vals.append(ast.Constant(value=lit))
                    if fld is not None:
                        vals.append(ast.FormattedValue(value=next(it), conversion=-1, format_spec=None))
                return ast.copy_location(ast.JoinedStr(values=vals), node)
            return node
    return _apply(repo, lambda tree: T().visit(tree))

"""Behaviour-preserving whole-tree transformations used as global twins by the self-test:
  reformat      - every module re-emitted by ast.unparse (comments dropped, layout and line numbers changed)
  alpha_rename  - every local variable of every function renamed (parameters, globals, attributes untouched)
  flip_ifs      - every two-armed if written the other way round
  document      - every function that has no docstring gets one, and every parameter without a default gets an annotation
The checks must stay silent on all of them (no rule may depend on layout, on the spelling of a local, on the polarity a
condition happens to be written in, or on the position of a statement in its body)."""
import ast
import builtins

SKIP_PREFIX = "dateparser/data/date_translation_data/"


def code_files(repo):
    return [f for f in repo.walk_py("dateparser") if not f.startswith(SKIP_PREFIX) and repo.text(f).strip()]


def reformat(repo):
    return {f: ast.unparse(ast.parse(repo.text(f))) + "\n" for f in code_files(repo)}


class _Renamer(ast.NodeTransformer):
    def __init__(self, mapping):
        self.m = mapping

    def visit_Name(self, node):
        if node.id in self.m:
            node.id = self.m[node.id]
        return node

    def visit_ExceptHandler(self, node):
        if node.name in self.m:
            node.name = self.m[node.name]
        self.generic_visit(node)
        return node


def _rename_function(fn, module_names):
    params = set()
    stores = set()
    declared = set()
    loads = set()
    for n in ast.walk(fn):
        if isinstance(n, (ast.FunctionDef, ast.AsyncFunctionDef, ast.Lambda)):
            a = n.args
            for x in a.posonlyargs + a.args + a.kwonlyargs + ([a.vararg] if a.vararg else []) + ([a.kwarg] if a.kwarg else []):
                params.add(x.arg)
            if not isinstance(n, ast.Lambda) and n is not fn:
                declared.add(n.name)  # nested function names stay
        elif isinstance(n, (ast.Global, ast.Nonlocal)):
            declared |= set(n.names)
        elif isinstance(n, ast.Name):
            (stores if isinstance(n.ctx, (ast.Store, ast.Del)) else loads).add(n.id)
        elif isinstance(n, ast.ExceptHandler) and n.name:
            stores.add(n.name)
        elif isinstance(n, ast.ClassDef):
            return  # leave functions with nested classes alone
        elif isinstance(n, (ast.Import, ast.ImportFrom)):
            for al in n.names:
                declared.add((al.asname or al.name).split(".")[0])
    local = stores - params - declared - set(dir(builtins))
    # a name that is also a module-level name read before assignment would change meaning; be conservative
    local = {x for x in local if x not in module_names and not x.startswith("__")}
    mapping = {x: x + "_rn" for x in local if (x + "_rn") not in stores | loads | params}
    _Renamer(mapping).visit(fn)


def alpha_rename(repo):
    out = {}
    for f in code_files(repo):
        tree = ast.parse(repo.text(f))
        module_names = set()
        for n in tree.body:
            if isinstance(n, (ast.FunctionDef, ast.ClassDef)):
                module_names.add(n.name)
            elif isinstance(n, ast.Assign):
                for t in n.targets:
                    for x in ast.walk(t):
                        if isinstance(x, ast.Name):
                            module_names.add(x.id)
            elif isinstance(n, (ast.Import, ast.ImportFrom)):
                for al in n.names:
                    module_names.add((al.asname or al.name).split(".")[0])

        def visit(body):
            for n in body:
                if isinstance(n, (ast.FunctionDef, ast.AsyncFunctionDef)):
                    _rename_function(n, module_names)
                elif isinstance(n, ast.ClassDef):
                    visit(n.body)
        visit(tree.body)
        out[f] = ast.unparse(tree) + "\n"
    return out


class _IfFlipper(ast.NodeTransformer):
    """`if c: A else: B` -> `if not (c): B else: A` for every two-armed if whose else-arm is not an elif chain"""

    def visit_If(self, node):
        self.generic_visit(node)
        if node.orelse and not (len(node.orelse) == 1 and isinstance(node.orelse[0], ast.If)) \
                and not (len(node.body) == 1 and isinstance(node.body[0], ast.If) and False):
            t = node.test
            if isinstance(t, ast.UnaryOp) and isinstance(t.op, ast.Not):
                new_test = t.operand
            else:
                new_test = ast.UnaryOp(op=ast.Not(), operand=t)
            return ast.copy_location(ast.If(test=new_test, body=node.orelse, orelse=node.body), node)
        return node


def flip_ifs(repo):
    """every two-armed if written the other way round (tests the polarity handling of guard extraction)"""
    out = {}
    for f in code_files(repo):
        tree = _IfFlipper().visit(ast.parse(repo.text(f)))
        ast.fix_missing_locations(tree)
        out[f] = ast.unparse(tree) + "\n"
    return out


class _Documenter(ast.NodeTransformer):
    def visit_FunctionDef(self, node):
        self.generic_visit(node)
        has_doc = bool(node.body) and isinstance(node.body[0], ast.Expr) and isinstance(node.body[0].value, ast.Constant) \
            and isinstance(node.body[0].value.value, str)
        if not has_doc:
            node.body.insert(0, ast.Expr(value=ast.Constant(value="Documented by the self-test twin: %s." % node.name)))
        a = node.args
        n_required = len(a.args) - len(a.defaults)
        for i, x in enumerate(a.args):
            if i < n_required and x.annotation is None and x.arg not in ("self", "cls"):
                x.annotation = ast.Name(id="object", ctx=ast.Load())
        return node


def document(repo):
    """docstrings and parameter annotations added everywhere (what a documentation pass over the code base does)"""
    out = {}
    for f in code_files(repo):
        tree = _Documenter().visit(ast.parse(repo.text(f)))
        ast.fix_missing_locations(tree)
        out[f] = ast.unparse(tree) + "\n"
    return out

"""Canonical spelling of a few statement forms, applied to every code module when it is parsed (never to the data modules), so that the
rules see ONE shape where developers freely choose between two:

  * `t = <expr>` directly followed by `return t`, where `t` occurs nowhere else in the function  ->  `return <expr>`
    (an explaining variable in front of a return carries no information for any rule)
  * `dict(k=v, ..)` with keyword arguments only, in a module that never binds the name `dict`     ->  `{'k': v, ..}`
  * in a test: `any(f(x) for x in (A, B, C))` over a literal of constants                         ->  `f(A) or f(B) or f(C)` (all: and)
  * `s = self.attr` at the top level of a method that never stores self.attr, s bound nowhere else ->  every `s` reads `self.attr`
    (the one rewrite that is not exact in every program: a call made in between that REBINDS self.attr would be seen through the
    alias; no method of this library rebinds an attribute it also reads through a local, and a finding still names the real line)

Both rewrites are exact (same value, same evaluation order).  Positions are kept, so findings still point at the original lines."""
import ast


def _functions(tree):
    return [n for n in ast.walk(tree) if isinstance(n, (ast.FunctionDef, ast.AsyncFunctionDef))]


def _own_nodes(fn):
    stack = list(fn.body)
    while stack:
        n = stack.pop()
        yield n
        if isinstance(n, (ast.FunctionDef, ast.AsyncFunctionDef, ast.ClassDef, ast.Lambda)):
            continue
        stack.extend(ast.iter_child_nodes(n))


def _is_pair(a, b):
    return isinstance(a, ast.Assign) and len(a.targets) == 1 and isinstance(a.targets[0], ast.Name) and isinstance(b, ast.Return) \
        and isinstance(b.value, ast.Name) and b.value.id == a.targets[0].id


def _blocks_of(fn):
    for n in list(_own_nodes(fn)) + [fn]:
        for fld in ("body", "orelse", "finalbody"):
            blk = getattr(n, fld, None)
            if isinstance(blk, list) and blk and isinstance(blk[0], ast.stmt):
                yield blk


def _fold_temp_returns(tree):
    for fn in _functions(tree):
        if any(isinstance(n, (ast.Global, ast.Nonlocal)) for n in ast.walk(fn)):
            continue
        count = {}
        for n in ast.walk(fn):                      # nested scopes included: a closure may read the name
            if isinstance(n, ast.Name):
                count[n.id] = count.get(n.id, 0) + 1
            elif isinstance(n, ast.arg):
                count[n.arg] = count.get(n.arg, 0) + 1
        pairs = {}
        for blk in _blocks_of(fn):
            for a, b in zip(blk, blk[1:]):
                if _is_pair(a, b):
                    pairs[b.value.id] = pairs.get(b.value.id, 0) + 1
        # a name that occurs ONLY as `t = <expr>` + `return t` (possibly at several returns) is an explaining variable
        temps = {nm for nm, k in pairs.items() if count.get(nm) == 2 * k}
        if not temps:
            continue
        for blk in _blocks_of(fn):
            i = 0
            while i + 1 < len(blk):
                a, b = blk[i], blk[i + 1]
                if _is_pair(a, b) and b.value.id in temps:
                    blk[i:i + 2] = [ast.copy_location(ast.Return(value=a.value), a)]
                i += 1
    return tree


class _DictCalls(ast.NodeTransformer):
    def visit_Call(self, node):
        self.generic_visit(node)
        if isinstance(node.func, ast.Name) and node.func.id == "dict" and not node.args and node.keywords and all(k.arg is not None for k in node.keywords):
            return ast.copy_location(ast.Dict(keys=[ast.copy_location(ast.Constant(value=k.arg), k.value) for k in node.keywords],
                                              values=[k.value for k in node.keywords]), node)
        return node


def _literal_seq(e, fn):
    """the constant elements of a tuple / list literal, or of a local bound exactly once to one; None otherwise"""
    if isinstance(e, ast.Name) and fn is not None:
        defs = [n for n in ast.walk(fn) if isinstance(n, ast.Assign) and any(isinstance(t, ast.Name) and t.id == e.id for t in n.targets)]
        stores = sum(1 for n in ast.walk(fn) if isinstance(n, ast.Name) and n.id == e.id and isinstance(n.ctx, (ast.Store, ast.Del)))
        if len(defs) == 1 and stores == 1 and len(defs[0].targets) == 1:
            e = defs[0].value
    if isinstance(e, (ast.Tuple, ast.List)) and e.elts and len(e.elts) <= 8 and all(isinstance(x, ast.Constant) for x in e.elts):
        return list(e.elts)
    return None


def _expand_any_all(tree):
    """in a TEST (if / while / conditional expression / operand of not, and, or inside one): any(f(x) for x in (A, B)) is f(A) or f(B), and
    all(..) the same with `and` - only the truth value is used there, and a generator over constants has no effects of its own"""
    import copy

    class Sub(ast.NodeTransformer):
        def __init__(self, name, const):
            self.name, self.const = name, const

        def visit_Name(self, node):
            return ast.copy_location(copy.deepcopy(self.const), node) if node.id == self.name and isinstance(node.ctx, ast.Load) else node

    def expand(e, fn):
        if isinstance(e, ast.BoolOp):
            e.values = [expand(v, fn) for v in e.values]
            return e
        if isinstance(e, ast.UnaryOp) and isinstance(e.op, ast.Not):
            e.operand = expand(e.operand, fn)
            if isinstance(e.operand, ast.UnaryOp) and isinstance(e.operand.op, ast.Not):
                return e.operand.operand            # `not not x` in a test is x
            return e
        if isinstance(e, ast.Call) and isinstance(e.func, ast.Name) and e.func.id in ("any", "all") and len(e.args) == 1 and not e.keywords:
            g = e.args[0]
            items = None
            if isinstance(g, (ast.GeneratorExp, ast.ListComp)) and len(g.generators) == 1 and not g.generators[0].ifs \
                    and isinstance(g.generators[0].target, ast.Name) and not g.generators[0].is_async:
                seq = _literal_seq(g.generators[0].iter, fn)
                if seq is not None and not any(isinstance(n, (ast.NamedExpr, ast.Lambda, ast.Yield, ast.Await)) for n in ast.walk(g.elt)):
                    items = [Sub(g.generators[0].target.id, c).visit(copy.deepcopy(g.elt)) for c in seq]
            elif isinstance(g, (ast.List, ast.Tuple)) and g.elts and not any(isinstance(x, ast.Starred) for x in g.elts):
                pass            # any([a, b]) evaluates every element first: not the same as `a or b` when an element has an effect
            if items:
                op = ast.Or() if e.func.id == "any" else ast.And()
                return ast.copy_location(ast.BoolOp(op=op, values=items) if len(items) > 1 else items[0], e)
        return e
    for fn in _functions(tree):
        for n in _own_nodes(fn):
            if isinstance(n, (ast.If, ast.While, ast.IfExp)):
                n.test = expand(n.test, fn)
    return tree


def _inline_self_aliases(tree):
    """`s = self.attr` as a top-level statement of a method, s bound nowhere else and self.attr stored nowhere in the method: every later
    `s` is written `self.attr` again (what "hoist the repeated attribute read into a local" did).  Only plain one-level reads of self."""
    import copy
    for fn in _functions(tree):
        if not fn.args.args or fn.args.args[0].arg != "self":
            continue
        if any(isinstance(n, (ast.Global, ast.Nonlocal)) for n in ast.walk(fn)):
            continue
        stored_attrs = {n.attr for n in ast.walk(fn) if isinstance(n, ast.Attribute) and isinstance(n.ctx, (ast.Store, ast.Del))
                        and isinstance(n.value, ast.Name) and n.value.id == "self"}
        for st in list(fn.body):
            if not (isinstance(st, ast.Assign) and len(st.targets) == 1 and isinstance(st.targets[0], ast.Name) and isinstance(st.value, ast.Attribute)
                    and isinstance(st.value.value, ast.Name) and st.value.value.id == "self"):
                continue
            name, attr = st.targets[0].id, st.value.attr
            if attr in stored_attrs or name in {a.arg for a in fn.args.args + fn.args.kwonlyargs}:
                continue
            stores = [n for n in ast.walk(fn) if isinstance(n, ast.Name) and n.id == name and isinstance(n.ctx, (ast.Store, ast.Del))]
            if len(stores) != 1 or any(isinstance(n, ast.arg) and n.arg == name for n in ast.walk(fn)):
                continue
            # every read comes after the binding in the text of the function (reads in nested functions included)
            reads = [n for n in ast.walk(fn) if isinstance(n, ast.Name) and n.id == name and isinstance(n.ctx, ast.Load)]
            if not reads or any((n.lineno, n.col_offset) < (st.end_lineno or st.lineno, st.end_col_offset or 0) for n in reads):
                continue
            # setattr(self, ..) / self.__dict__ tricks: leave such methods alone
            if any(isinstance(n, ast.Call) and isinstance(n.func, ast.Name) and n.func.id in ("setattr", "delattr") for n in ast.walk(fn)):
                continue

            class Sub(ast.NodeTransformer):
                def visit_Name(self, node):
                    if node.id == name and isinstance(node.ctx, ast.Load):
                        return ast.copy_location(ast.Attribute(value=ast.copy_location(ast.Name(id="self", ctx=ast.Load()), node), attr=attr, ctx=ast.Load()), node)
                    return node
            fn.body.remove(st)
            for i, b in enumerate(fn.body):
                fn.body[i] = Sub().visit(b)
            if not fn.body:
                fn.body.append(ast.copy_location(ast.Pass(), st))
    return tree


def normalize(tree):
    _fold_temp_returns(tree)
    _expand_any_all(tree)
    _inline_self_aliases(tree)
    binds_dict = any((isinstance(n, ast.Name) and n.id == "dict" and isinstance(n.ctx, (ast.Store, ast.Del))) or (isinstance(n, ast.arg) and n.arg == "dict")
                     or (isinstance(n, (ast.FunctionDef, ast.ClassDef)) and n.name == "dict")
                     or (isinstance(n, ast.alias) and (n.asname or n.name) == "dict") for n in ast.walk(tree))
    if not binds_dict:
        tree = _DictCalls().visit(tree)
    ast.fix_missing_locations(tree)
    return tree

"""Regex ASTs (re._parser) of the library's regex literals and queries on them."""
import ast
import re._parser as sre
from re._constants import (
    ASSERT, ASSERT_NOT, AT, BRANCH, CATEGORY, CATEGORY_DIGIT, IN, LITERAL, MAX_REPEAT,
    MIN_REPEAT, NEGATE, NOT_LITERAL, RANGE, SUBPATTERN,
)

from .effects import fold_str
from .repo import AnalysisError


def parse(pattern):
    try:
        return sre.parse(pattern)
    except Exception as e:
        raise AnalysisError("rx", "cannot parse regex %r: %s" % (pattern, e))


def module_regex(ix, modname, name):
    """(pattern text, flags expr text) of NAME = re.compile(<foldable>, flags) at module level"""
    m = ix.module(modname)
    vals = m.assigns.get(name)
    if not vals:
        raise AnalysisError("rx", "%s.%s not found" % (modname, name))
    v = vals[-1]
    if not (isinstance(v, ast.Call) and isinstance(v.func, ast.Attribute) and v.func.attr == "compile" and v.args):
        raise AnalysisError("rx", "%s.%s is not a re.compile(...) call" % (modname, name))
    pat = fold_str(v.args[0], m.toplevel, ix)
    if pat is None:
        raise AnalysisError("rx", "%s.%s pattern is not a constant" % (modname, name))
    flags = ""
    if len(v.args) > 1:
        flags = ast.unparse(v.args[1])
    for kw in v.keywords:
        if kw.arg == "flags":
            flags = ast.unparse(kw.value)
    return pat, flags


def all_regex_literals(ix, module_filter=None):
    """every re.compile / re.sub / re.search ... call whose pattern folds to a constant:
    yields (func, call node, pattern text)"""
    from .index import iter_own_nodes

    for f in ix.funcs.values():
        if module_filter and not module_filter(f.module):
            continue
        for n in iter_own_nodes(f.node):
            if isinstance(n, ast.Call) and isinstance(n.func, ast.Attribute) and n.args and \
                    n.func.attr in ("compile", "sub", "search", "match", "split", "findall", "fullmatch", "subn"):
                base = ast.unparse(n.func.value)
                if base not in ("re", "regex"):
                    continue
                pat = fold_str(n.args[0], f, ix)
                if pat is not None:
                    yield f, n, pat


def _digits_only(items):
    """the items are exactly one repeat of a digit class; returns (min, max) or None"""
    if len(items) != 1:
        return None
    op, av = items[0]
    if op not in (MAX_REPEAT, MIN_REPEAT):
        return None
    lo, hi, sub = av
    sub = list(sub)
    if len(sub) == 1 and sub[0][0] == IN and is_digit_class(sub[0][1]):
        return lo, hi
    return None


def is_digit_class(cls_items):
    """[\\d] or [0-9] (no negation, nothing else)"""
    cls_items = list(cls_items)
    if any(op == NEGATE for op, _ in cls_items):
        return False
    if len(cls_items) != 1:
        return False
    op, av = cls_items[0]
    if op == CATEGORY and av == CATEGORY_DIGIT:
        return True
    if op == RANGE and av == (48, 57):
        return True
    return False


def timestamp_shape(ix, name):
    """shape of RE_SEARCH_[NEGATIVE_]TIMESTAMP: anchored, group1 = '-'? + n digits,
    groups 2 and 3 optional fixed-width digit groups"""
    try:
        pat, _ = module_regex(ix, "dateparser.date", name)
    except AnalysisError:
        return None
    t = list(parse(pat))
    if not t or t[0] != (AT, sre.AT_BEGINNING):
        return None
    groups = {}
    optional = {}
    for op, av in t[1:]:
        if op == SUBPATTERN:
            groups[av[0]] = list(av[3])
            optional[av[0]] = False
        elif op == MAX_REPEAT and av[0] == 0 and av[1] == 1:
            sub = list(av[2])
            if len(sub) == 1 and sub[0][0] == SUBPATTERN:
                groups[sub[0][1][0]] = list(sub[0][1][3])
                optional[sub[0][1][0]] = True
    if set(groups) != {1, 2, 3} or optional[1] or not optional[2] or not optional[3]:
        return None
    g1 = groups[1]
    sign = False
    if g1 and g1[0][0] == LITERAL and g1[0][1] == 45:
        sign = True
        g1 = g1[1:]
    elif g1 and g1[0][0] == IN and list(g1[0][1]) == [(LITERAL, 45)]:
        sign = True
        g1 = g1[1:]
    d1 = _digits_only(g1)
    d2 = _digits_only(groups[2])
    d3 = _digits_only(groups[3])
    if not d1 or not d2 or not d3 or d1[0] != d1[1] or d2[0] != d2[1] or d3[0] != d3[1]:
        return None
    return {"pattern": pat, "sign": sign, "g1_digits": d1[0], "g2": d2[0], "g3": d3[0]}


def walk(tree):
    """all (op, av) nodes of a parsed pattern, depth first"""
    for op, av in tree:
        yield op, av
        if op in (MAX_REPEAT, MIN_REPEAT):
            yield from walk(av[2])
        elif op == SUBPATTERN:
            yield from walk(av[3])
        elif op in (ASSERT, ASSERT_NOT):
            yield from walk(av[1])
        elif op == BRANCH:
            for alt in av[1]:
                yield from walk(alt)
        elif str(op) in ("ATOMIC_GROUP", "POSSESSIVE_REPEAT"):
            try:
                yield from walk(av[2] if isinstance(av, tuple) else av)
            except Exception:
                pass


def ascii_digit_constructs(pattern):
    """constructs that distinguish ASCII digits from other Unicode decimal digits:
    ranges inside 0-9, literal digit characters inside a character class.
    (Literal digits outside classes, e.g. in '2[0-3]', are also reported.)"""
    out = []
    for op, av in walk(parse(pattern)):
        if op == IN:
            for o, a in av:
                if o == RANGE and 48 <= a[0] <= 57 and 48 <= a[1] <= 57:
                    out.append("range %s-%s" % (chr(a[0]), chr(a[1])))
                elif o == LITERAL and 48 <= a <= 57:
                    out.append("literal %s in class" % chr(a))
        elif op in (LITERAL, NOT_LITERAL) and 48 <= av <= 57:
            out.append("literal %s" % chr(av))
    return out


def max_repeat_of_group(pattern, group_name):
    """(min, max) repeat of the single class inside named group"""
    p = parse(pattern)
    gid = p.state.groupdict.get(group_name)
    if gid is None:
        return None
    for op, av in walk(p):
        if op == SUBPATTERN and av[0] == gid:
            sub = list(av[3])
            if len(sub) == 1 and sub[0][0] in (MAX_REPEAT, MIN_REPEAT):
                return sub[0][1][0], sub[0][1][1]
    return None


def group_is_digits(pattern, key):
    """group `key` (number or name) of the pattern matches only runs of decimal digits"""
    p = parse(pattern)
    gid = p.state.groupdict.get(key) if isinstance(key, str) else key
    if gid is None:
        return False
    found = False
    for op, av in walk(p):
        if op == SUBPATTERN and av[0] == gid:
            found = True
            sub = list(av[3])
            if sub and sub[0][0] == LITERAL and sub[0][1] == 45:
                sub = sub[1:]  # leading '-' (negative timestamp): int() accepts it
            elif sub and sub[0][0] == IN and list(sub[0][1]) == [(LITERAL, 45)]:
                sub = sub[1:]
            if not sub:
                return False
            for o, a in sub:
                if o in (MAX_REPEAT, MIN_REPEAT):
                    inner = list(a[2])
                    if not (len(inner) == 1 and inner[0][0] == IN and is_digit_class(inner[0][1])):
                        return False
                elif o == IN:
                    if not is_digit_class(a):
                        return False
                else:
                    return False
    return found


# ---- whitespace sensitivity --------------------------------------------------------------
WS_FAMILY = (32, 9, 10, 13, 0xA0)   # space, tab, newline, carriage return, no-break space


def _class_matches(cls_items, cp):
    """does the character class (items of an IN node) match code point cp? (categories: space/word/digit only)"""
    from re._constants import (CATEGORY_NOT_DIGIT, CATEGORY_NOT_SPACE, CATEGORY_NOT_WORD, CATEGORY_SPACE, CATEGORY_WORD)
    items = list(cls_items)
    neg = any(op == NEGATE for op, _ in items)
    hit = False
    ch = chr(cp)
    for op, av in items:
        if op == NEGATE:
            continue
        if op == LITERAL and av == cp:
            hit = True
        elif op == RANGE and av[0] <= cp <= av[1]:
            hit = True
        elif op == CATEGORY:
            if av == CATEGORY_SPACE and ch.isspace():
                hit = True
            elif av == CATEGORY_NOT_SPACE and not ch.isspace():
                hit = True
            elif av == CATEGORY_DIGIT and ch.isdecimal():
                hit = True
            elif av == CATEGORY_NOT_DIGIT and not ch.isdecimal():
                hit = True
            elif av == CATEGORY_WORD and (ch.isalnum() or ch == "_"):
                hit = True
            elif av == CATEGORY_NOT_WORD and not (ch.isalnum() or ch == "_"):
                hit = True
    return hit != neg


def _walk_skipping_ws_runs(tree):
    """walk(), but an unbounded repeat of the pure whitespace class (\\s+, \\s*) is not descended into: it treats every
    run of whitespace alike, whatever its members and length"""
    from re._constants import CATEGORY_SPACE, MAXREPEAT
    for op, av in tree:
        if op in (MAX_REPEAT, MIN_REPEAT) and av[1] == MAXREPEAT:
            sub = list(av[2])
            if len(sub) == 1 and sub[0][0] == IN and list(sub[0][1]) == [(CATEGORY, CATEGORY_SPACE)]:
                continue
        yield op, av
        if op in (MAX_REPEAT, MIN_REPEAT):
            yield from _walk_skipping_ws_runs(av[2])
        elif op == SUBPATTERN:
            yield from _walk_skipping_ws_runs(av[3])
        elif op in (ASSERT, ASSERT_NOT):
            yield from _walk_skipping_ws_runs(av[1])
        elif op == BRANCH:
            for alt in av[1]:
                yield from _walk_skipping_ws_runs(alt)


def whitespace_constructs(pattern, flags_text=""):
    """constructs of the pattern whose outcome depends on which whitespace characters the subject contains or on how
    many: anything that can match a member of WS_FAMILY, '.', and the anchors ^ $ \\A \\Z.  Top-level alternatives that are
    nothing but whitespace literals are returned separately, as the characters they match (they map whitespace to the
    replacement).
    -> (sensitive: [text], pure_ws_branches: [text])"""
    from re._constants import ANY, AT_BOUNDARY, AT_NON_BOUNDARY
    p = parse(pattern)
    top = list(p)
    branches = [top]
    if len(top) == 1 and top[0][0] == BRANCH:
        branches = [list(b) for b in top[0][1][1]]
    elif top and all(op == IN for op, _ in top) and len(top) == 1:
        # a|b|c of single characters is folded by the parser into one class
        cls = list(top[0][1])
        if all(op == LITERAL and av in WS_FAMILY for op, av in cls):
            return [], ["".join(chr(av) for _, av in cls)]
    sens, pure = [], []
    for br in branches:
        if br and all(op == LITERAL and av in WS_FAMILY for op, av in br):
            pure.append("".join(chr(av) for _, av in br))
            continue
        if len(br) == 1 and br[0][0] == IN and all(op == LITERAL and av in WS_FAMILY for op, av in br[0][1]):
            pure.append("".join(chr(av) for _, av in br[0][1]))
            continue
        for op, av in _walk_skipping_ws_runs(br):
            if op == LITERAL and av in WS_FAMILY:
                sens.append("literal %r" % chr(av))
            elif op == NOT_LITERAL:
                sens.append("[^%s] matches whitespace" % chr(av))
            elif op == IN:
                m = [cp for cp in WS_FAMILY if _class_matches(av, cp)]
                if m:
                    sens.append("class matching %s" % ",".join(repr(chr(c)) for c in m))
            elif op == ANY:
                sens.append("'.' (matches a space but not a newline)")
            elif op == AT and av not in (AT_BOUNDARY, AT_NON_BOUNDARY):
                sens.append("anchor %s" % str(av).lower())
    return sens, pure


def is_ws_collapse(pattern, repl):
    """sub(pattern, repl) replaces every maximal whitespace run by one space: \\s+ -> ' '"""
    from re._constants import CATEGORY_SPACE, MAXREPEAT
    t = list(parse(pattern))
    if repl != " " or len(t) != 1 or t[0][0] not in (MAX_REPEAT,):
        return False
    lo, hi, sub = t[0][1]
    sub = list(sub)
    return lo == 1 and hi == MAXREPEAT and len(sub) == 1 and sub[0][0] == IN and list(sub[0][1]) == [(CATEGORY, CATEGORY_SPACE)]


def trim_sides(pattern, repl):
    """which ends sub(pattern, repl) trims on a string whose whitespace is already collapsed, independently of the other end:
    '^\\s*(\\S.*?)\\s*$' -> \\1 gives {'L','R'}; with \\s+ on both ends the pattern only fires when BOTH ends carry whitespace
    -> set() (neither end is trimmed on its own); '^\\s+' -> '' gives {'L'}; '\\s+$' -> '' gives {'R'}"""
    from re._constants import AT_BEGINNING, AT_END, CATEGORY_SPACE, MAXREPEAT

    def ws_rep(node):
        op, av = node
        if op != MAX_REPEAT:
            return None
        lo, hi, sub = av
        sub = list(sub)
        if hi == MAXREPEAT and len(sub) == 1 and sub[0][0] == IN and list(sub[0][1]) == [(CATEGORY, CATEGORY_SPACE)]:
            return lo
        return None
    t = list(parse(pattern))
    if not t:
        return None
    if repl == "" and len(t) == 2:
        if t[0] == (AT, AT_BEGINNING) and ws_rep(t[1]) is not None:
            return {"L"}
        if t[1] == (AT, AT_END) and ws_rep(t[0]) is not None:
            return {"R"}
        return None
    if repl in ("\\1", "\\g<1>") and len(t) == 5 and t[0] == (AT, AT_BEGINNING) and t[4] == (AT, AT_END) and t[2][0] == SUBPATTERN:
        a, b = ws_rep(t[1]), ws_rep(t[3])
        if a is None or b is None:
            return None
        if a == 0 and b == 0:
            return {"L", "R"}
        if a == 0:
            return set() if b else {"L", "R"}
        return set()      # fires only when the left end has whitespace (and, if b>=1, the right end too)
    return None


def trailing_colon_trim(pattern, repl):
    """sub removes a run of colons at the end of the string: '(\\S.*?):*$' -> \\1, ':+$' -> ''"""
    from re._constants import AT_END, MAXREPEAT
    t = list(parse(pattern))
    if len(t) < 2 or t[-1] != (AT, AT_END):
        return False
    op, av = t[-2]
    if op != MAX_REPEAT:
        return False
    lo, hi, sub = av
    sub = list(sub)
    if not (hi == MAXREPEAT and len(sub) == 1 and sub[0] == (LITERAL, 58)):
        return False
    if len(t) == 2:
        return repl == ""
    return repl in ("\\1", "\\g<1>") and len(t) == 3 and t[0][0] == SUBPATTERN


def end_sensitive_constructs(pattern):
    """constructs whose outcome depends on what FOLLOWS the match up to the end of the string: $ / \\Z anchors and look-aheads"""
    from re._constants import AT_END, AT_END_STRING
    out = []
    for op, av in walk(parse(pattern)):
        if op == AT and av in (AT_END, AT_END_STRING):
            out.append("anchor %s" % str(av).lower())
        elif op in (ASSERT, ASSERT_NOT) and av[0] == 1:
            out.append("look-ahead")
    return out


def sample(pattern, number):
    """a shortest string matched by the pattern in which the first digit-bearing group reads `number`
    (first alternative of every branch, minimum count of every repeat); None if the pattern uses constructs outside
    literals / classes / groups / repeats / branches / anchors"""
    from re._constants import ANY, CATEGORY_SPACE, CATEGORY_WORD
    used = [False]

    def has_digit(tree):
        for op, av in walk(tree):
            if op == IN and any((o == CATEGORY and a == CATEGORY_DIGIT) or (o == RANGE and a == (48, 57)) for o, a in av):
                return True
        return False

    def gen(tree):
        out = []
        for op, av in tree:
            if op == LITERAL:
                out.append(chr(av))
            elif op == IN:
                items = [x for x in av if x[0] != NEGATE]
                if any(x[0] == NEGATE for x in av) or not items:
                    return None
                o, a = items[0]
                if o == LITERAL:
                    out.append(chr(a))
                elif o == RANGE:
                    out.append(chr(a[0]))
                elif o == CATEGORY and a == CATEGORY_DIGIT:
                    out.append("1")
                elif o == CATEGORY and a == CATEGORY_SPACE:
                    out.append(" ")
                elif o == CATEGORY and a == CATEGORY_WORD:
                    out.append("x")
                else:
                    return None
            elif op == SUBPATTERN:
                sub = list(av[3])
                if not used[0] and has_digit(sub):
                    used[0] = True
                    out.append(number)
                else:
                    g = gen(sub)
                    if g is None:
                        return None
                    out.append(g)
            elif op in (MAX_REPEAT, MIN_REPEAT):
                lo, hi, sub = av
                for _ in range(lo):
                    g = gen(list(sub))
                    if g is None:
                        return None
                    out.append(g)
            elif op == BRANCH:
                g = gen(list(av[1][0]))
                if g is None:
                    return None
                out.append(g)
            elif op == AT:
                continue
            elif op == ANY:
                out.append("x")
            else:
                return None
        return "".join(out)
    try:
        return gen(list(parse(pattern)))
    except AnalysisError:
        return None

"""Lazily built analysis artefacts shared by the rules of one run."""
from .callgraph import CallGraph
from .index import Index
from .repo import Repo


class Ctx:
    def __init__(self, repo=None):
        self.repo = repo or Repo()
        self._ix = None
        self._cg = None
        self._cache = {}

    @property
    def ix(self):
        if self._ix is None:
            self._ix = Index(self.repo)
        return self._ix

    @property
    def cg(self):
        if self._cg is None:
            self._cg = CallGraph(self.ix)
        return self._cg

    @property
    def ti(self):
        return self.cg.ti

    def memo(self, key, build):
        if key not in self._cache:
            self._cache[key] = build()
        return self._cache[key]

"""Branch conditions as boolean formulas over recognised atoms; finite truth tables."""
import ast
import itertools

from .ctx import ancestors, enclosing_tests


class Free(Exception):
    pass


def to_formula(e, atom_fn):
    """atom_fn(expr) -> atom name (str), ('const', bool) or None (unrecognised: a free atom)"""
    a = atom_fn(e)
    if a is not None:
        if isinstance(a, tuple) and a[0] == "const":
            return ("const", a[1])
        if isinstance(a, tuple):
            return a  # already a formula
        return ("atom", a)
    if isinstance(e, ast.BoolOp):
        op = "and" if isinstance(e.op, ast.And) else "or"
        return (op,) + tuple(to_formula(v, atom_fn) for v in e.values)
    if isinstance(e, ast.UnaryOp) and isinstance(e.op, ast.Not):
        return ("not", to_formula(e.operand, atom_fn))
    if isinstance(e, ast.Call) and isinstance(e.func, ast.Name) and e.func.id in ("any", "all") and e.args \
            and isinstance(e.args[0], (ast.List, ast.Tuple)):
        op = "or" if e.func.id == "any" else "and"
        return (op,) + tuple(to_formula(v, atom_fn) for v in e.args[0].elts)
    if isinstance(e, ast.Constant):
        return ("const", bool(e.value))
    return ("free", " ".join(ast.unparse(e).split()))


def atoms_of(f, kinds=("atom",)):
    out = set()
    if f[0] in kinds:
        out.add(f[1])
    elif f[0] in ("and", "or", "not"):
        for x in f[1:]:
            out |= atoms_of(x, kinds)
    return out


def evaluate(f, env):
    k = f[0]
    if k == "const":
        return f[1]
    if k == "atom":
        return env[f[1]]
    if k == "free":
        return env[("free", f[1])]
    if k == "not":
        return not evaluate(f[1], env)
    if k == "and":
        return all(evaluate(x, env) for x in f[1:])
    if k == "or":
        return any(evaluate(x, env) for x in f[1:])
    raise ValueError(k)


def conj(*fs):
    fs = [f for f in fs if f != ("const", True)]
    if not fs:
        return ("const", True)
    if len(fs) == 1:
        return fs[0]
    return ("and",) + tuple(fs)


def neg(f):
    return ("not", f)


def assignments(atom_names, free_names=(), constraint=None):
    names = list(atom_names) + [("free", n) for n in free_names]
    for vals in itertools.product([False, True], repeat=len(names)):
        env = dict(zip(names, vals))
        if constraint is None or constraint(env):
            yield env


def satisfiable(f, atom_universe, constraint=None):
    """first satisfying assignment over the universe (+ the free atoms of f), or None"""
    free = sorted(atoms_of(f, ("free",)))
    names = sorted(set(atom_universe) | atoms_of(f))
    for env in assignments(names, free, constraint):
        if evaluate(f, env):
            return env
    return None


def equivalent(f, g, atom_universe, constraint=None):
    """None if equivalent, else a distinguishing assignment"""
    free = sorted(atoms_of(f, ("free",)) | atoms_of(g, ("free",)))
    names = sorted(set(atom_universe) | atoms_of(f) | atoms_of(g))
    for env in assignments(names, free, constraint):
        if evaluate(f, env) != evaluate(g, env):
            return env
    return None


def guard_of(fn_node, node, atom_fn):
    """conjunction of the conditions known to hold when `node` runs"""
    parts = []
    for test, pol in enclosing_tests(fn_node, node):
        f = to_formula(test, atom_fn)
        parts.append(f if pol else neg(f))
    return conj(*parts)


def show(f):
    k = f[0]
    if k == "const":
        return str(f[1])
    if k == "atom":
        return str(f[1])
    if k == "free":
        return "{" + f[1] + "}"
    if k == "not":
        return "¬" + show(f[1])
    sep = " ∧ " if k == "and" else " ∨ "
    return "(" + sep.join(show(x) for x in f[1:]) + ")"

"""Length-equality analysis for list-valued locals (global-value-numbering style, per function, with summaries).

Abstract value of a list variable: (sym, off, esig, pairs)
  len = sym + off           sym an opaque symbol, ("Z",) is 0
  esig                      opaque symbol for the sequence of its elements' lengths (None = unknown)
  pairs                     every element is a 2-sequence [x, y] with len(x) == len(y)
Two lists have provably equal length where their (sym, off) agree.  The domain follows lock-step growth
(A.append(..); B.append(..)), parallel construction, tuple returns of callees (summaries), length tests
(`while len(a) != len(b)` exit) and str.split under an equal-count precondition.

Soundness devices: symbols created at an AST node are invalidated in every other holder when the node is
executed again; values at joins are partitioned by their incoming (symbol, relative offset) vectors and renamed
per class; exception edges carry the state before the statement.
"""
import ast

from .cfg import CFG
from .index import iter_own_nodes

Z = ("Z",)
E0 = ("E0",)
GROW = {"append": 1, "insert": 1}
SHRINK = {"pop": -1, "remove": -1}
SAMELEN_FUNCS = ("list", "sorted", "tuple", "reversed")
PURE_BUILTINS = {"len", "enumerate", "zip", "filter", "list", "any", "all", "sorted", "isinstance", "str", "map", "min", "max",
                 "sum", "bool", "tuple", "set", "range", "reversed", "float", "int", "print", "repr", "iter", "next", "dict"}


def _mentions(v, tag):
    if v == tag:
        return True
    if isinstance(v, tuple):
        return any(_mentions(x, tag) for x in v)
    return False


def key_of(e):
    """tracked place: a local name or self.<attr>"""
    if isinstance(e, ast.Name):
        return e.id
    if isinstance(e, ast.Attribute) and isinstance(e.value, ast.Name) and e.value.id == "self":
        return "self." + e.attr
    return None


class FuncResult:
    def __init__(self):
        self.IN = {}            # node id -> state before the node
        self.ret_eq = None      # set of (i, j) index pairs of the returned tuple with equal lengths (None: no tuple return)
        self.ret_esig = None
        self.ret_pairs = None   # {index or None: bool}
        self.cfg = None


class LenEq:
    def __init__(self, ix, cg, rounds=3):
        self.ix = ix
        self.cg = cg
        self._call_nodes = {}
        self.res = {}       # fkey -> FuncResult
        self.pre = {}       # fkey -> dict(eq=set of frozenset({p,q}), esig=set(...), pairs=set(p), count=set((p,q,s)))
        self._mut = {}
        self.funcs = [f for f in self.ix.funcs.values() if not f.module.rel.startswith("dateparser/data/")
                      and isinstance(f.node, (ast.FunctionDef, ast.AsyncFunctionDef))]
        for _ in range(rounds):
            for f in self.funcs:
                self.res[f.key] = self._analyse(f)
            self._preconditions()
        for f in self.funcs:
            self.res[f.key] = self._analyse(f)

    # ------------------------------------------------------------------ helpers
    def _implicit(self, name):
        return (("init", name), 0, ("einit", name), False)

    def get(self, st, name):
        return st.get(name) or self._implicit(name)

    def mutates_param(self, callee, pname, depth=0):
        k = (callee.key, pname)
        if k in self._mut:
            return self._mut[k]
        self._mut[k] = False
        out = False
        for n in iter_own_nodes(callee.node):
            if isinstance(n, ast.Call) and isinstance(n.func, ast.Attribute) and isinstance(n.func.value, ast.Name) \
                    and n.func.value.id == pname and n.func.attr in ("append", "insert", "pop", "remove", "extend", "clear"):
                out = True
            elif isinstance(n, ast.Delete) and any(isinstance(t, ast.Subscript) and isinstance(t.value, ast.Name) and t.value.id == pname for t in n.targets):
                out = True
            elif isinstance(n, ast.AugAssign) and isinstance(n.target, ast.Name) and n.target.id == pname:
                out = True
        self._mut[k] = out
        return out

    def _callees(self, f, call):
        for s in self.cg.sites.get(f.key, []):
            if s.node is call:
                return s.callees
        return []

    # ------------------------------------------------------------------ expression evaluation
    def lenkey(self, e, st, f):
        """hashable description of an element's length (for esig)"""
        v = self.eval(e, st, f, fresh_ok=False)
        if v is None:
            return ("scalar",)
        return (v[0], v[1])

    def is_pair_eq(self, e, st, f):
        if isinstance(e, (ast.List, ast.Tuple)) and len(e.elts) == 2:
            a, b = (self.eval(x, st, f, fresh_ok=False) for x in e.elts)
            return a is not None and b is not None and a[:2] == b[:2]
        return False

    def eval(self, e, st, f, fresh_ok=True):
        """abstract value of a list-valued expression; None when fresh_ok is False and nothing is known"""
        k = key_of(e)
        if k is not None:
            if k in st or fresh_ok:
                return self.get(st, k)
            return self.get(st, k) if k in self._listish.get(f.key, ()) else None
        if isinstance(e, (ast.List, ast.Tuple)):
            esig = E0
            for x in e.elts:
                if isinstance(x, ast.Starred):
                    return (("fresh", id(e)), 0, None, False) if fresh_ok else None
                esig = ("ap", esig, self.lenkey(x, st, f))
            return (Z, len(e.elts), esig, all(self.is_pair_eq(x, st, f) for x in e.elts))
        if isinstance(e, ast.Call):
            fn = e.func
            if isinstance(fn, ast.Name) and fn.id == "list" and not e.args:
                return (Z, 0, E0, True)
            if isinstance(fn, ast.Name) and fn.id in SAMELEN_FUNCS and len(e.args) == 1:
                v = self.iter_len(e.args[0], st, f)
                if v is not None:
                    keep = fn.id in ("list", "tuple")
                    return (v[0], v[1], v[2] if keep else None, v[3] if keep else False)
            if isinstance(fn, ast.Attribute) and fn.attr == "copy" and not e.args:
                v = self.eval(fn.value, st, f, fresh_ok=False)
                if v is not None:
                    return v
            if isinstance(fn, ast.Attribute) and fn.attr == "split" and len(e.args) == 1 and isinstance(fn.value, ast.Name) \
                    and isinstance(e.args[0], ast.Name) and self._stable_name(f, fn.value.id) and self._stable_name(f, e.args[0].id):
                rep = self._count_rep(f, fn.value.id, e.args[0].id)
                return (("split", rep, e.args[0].id), 0, None, False)
            # project callee returning one list
            cs = self._callees(f, e)
            if cs:
                pr = [self.res.get(c.key) for c in cs]
                if all(r is not None and r.ret_pairs is not None and r.ret_pairs.get(None) for r in pr):
                    return (("fresh", id(e)), 0, None, True)
        if isinstance(e, ast.ListComp) and len(e.generators) == 1 and not e.generators[0].ifs:
            v = self.iter_len(e.generators[0].iter, st, f)
            if v is not None:
                return (v[0], v[1], None, False)
        if isinstance(e, ast.Subscript) and not isinstance(e.slice, ast.Slice):
            b = self.eval(e.value, st, f, fresh_ok=False)
            if b is not None and b[2] is not None:
                return (("elem", b[2], " ".join(ast.unparse(e.slice).split())), 0, None, False)
        if not fresh_ok:
            return None
        if isinstance(e, ast.Call):
            self._call_nodes[id(e)] = (f, e)
        return (("fresh", id(e)), 0, None, False)

    def _tuple_summary_of_value(self, v):
        """the value was produced by a call whose callees all return tuples with a summary"""
        sym = v[0]
        if isinstance(sym, tuple) and len(sym) == 2 and sym[0] == "fresh" and sym[1] in self._call_nodes:
            f, call = self._call_nodes[sym[1]]
            cs = self._callees(f, call)
            rs = [self.res.get(c.key) for c in cs]
            if cs and all(r is not None and r.ret_eq is not None and r.ret_pairs is not None and None not in r.ret_pairs for r in rs):
                return (set.intersection(*[r.ret_eq for r in rs]), set.intersection(*[r.ret_esig for r in rs]),
                        {i: all(r.ret_pairs.get(i, False) for r in rs) for i in rs[0].ret_pairs})
        return None

    def iter_len(self, it, st, f):
        """abstract length of what a for/comprehension iterates over"""
        if isinstance(it, ast.Call) and isinstance(it.func, ast.Name):
            if it.func.id == "enumerate" and it.args:
                return self.iter_len(it.args[0], st, f)
            if it.func.id == "zip" and it.args:
                vs = [self.iter_len(a, st, f) for a in it.args]
                if all(v is not None for v in vs) and len({v[:2] for v in vs}) == 1:
                    return vs[0]
                return None
            if it.func.id == "range" and len(it.args) == 1 and isinstance(it.args[0], ast.Call) \
                    and isinstance(it.args[0].func, ast.Name) and it.args[0].func.id == "len" and it.args[0].args:
                return self.eval(it.args[0].args[0], st, f, fresh_ok=False)
            if it.func.id in SAMELEN_FUNCS and len(it.args) == 1:
                return self.iter_len(it.args[0], st, f)
        return self.eval(it, st, f, fresh_ok=False)

    def _stable_name(self, f, name):
        """a parameter (or local bound once) that is never rebound in f"""
        n = 0
        for x in iter_own_nodes(f.node):
            if isinstance(x, ast.Name) and x.id == name and isinstance(x.ctx, (ast.Store, ast.Del)):
                n += 1
        return n == 0 and name in f.params()

    def _count_rep(self, f, name, sep):
        pre = self.pre.get(f.key, {})
        cls = sorted({name} | {q for (p, q, s) in pre.get("count", ()) if p == name and s == sep}
                     | {p for (p, q, s) in pre.get("count", ()) if q == name and s == sep})
        return cls[0]

    # ------------------------------------------------------------------ transfer
    def _kill_symbol(self, st, tag, keep=None):
        for k, v in list(st.items()):
            if k != keep and _mentions(v, tag):
                st[k] = (("lost", tag, k), 0, None, False)

    def _kill_index_name(self, st, name):
        for k, v in list(st.items()):
            if _mentions_elem_index(v, name):
                st[k] = (("lost", "idx", name, k), 0, None, False)

    def _assign(self, st, target, val_expr, f, node_tag, precomputed=None):
        k = key_of(target)
        if k is None:
            if isinstance(target, ast.Subscript):
                bk = key_of(target.value)
                if bk is not None and bk in st:
                    v = st[bk]
                    st[bk] = (v[0], v[1], ("lost-esig", node_tag, bk), False)
            return
        v = precomputed if precomputed is not None else self.eval(val_expr, st, f)
        tag = v[0]
        if isinstance(tag, tuple) and tag and tag[0] in ("fresh", "ret", "it"):
            self._kill_symbol(st, tag, keep=None)
        if isinstance(target, ast.Name):
            self._kill_index_name(st, target.id)
        st[k] = v

    def _call_effects(self, st, call, f, node_tag):
        fn = call.func
        if isinstance(fn, ast.Attribute):
            k = key_of(fn.value)
            if k is not None and (k in st or fn.attr in GROW or fn.attr in ("extend", "clear")):
                v = self.get(st, k)
                if fn.attr in GROW and call.args:
                    arg = call.args[-1]
                    lk = self.lenkey(arg, st, f)
                    esig = None if v[2] is None else (("ap", v[2], lk) if fn.attr == "append" else ("ins", v[2], ast.unparse(call.args[0]), lk))
                    st[k] = (v[0], v[1] + 1, esig, v[3] and self.is_pair_eq(arg, st, f))
                elif fn.attr in SHRINK:
                    st[k] = (v[0], v[1] - 1, None, v[3])
                elif fn.attr == "extend" and call.args:
                    a = self.eval(call.args[0], st, f, fresh_ok=False)
                    tag = ("fresh", id(call))
                    self._kill_symbol(st, tag)
                    st[k] = (tag, 0, None, v[3] and a is not None and a[3])
                elif fn.attr == "clear":
                    st[k] = (Z, 0, E0, True)
                elif fn.attr in ("sort", "reverse"):
                    st[k] = (v[0], v[1], None, v[3])
        # arguments handed to project functions that change their length
        cs = self._callees(f, call)
        for c in cs:
            ps = c.params()
            off = 1 if ps and ps[0] in ("self", "cls") and isinstance(fn, ast.Attribute) else 0
            for i, a in enumerate(call.args):
                k = key_of(a)
                if k is not None and k in st and i + off < len(ps) and self.mutates_param(c, ps[i + off]):
                    tag = ("fresh", id(call), i)
                    st[k] = (tag, 0, None, False)
            for kw in call.keywords:
                k = key_of(kw.value)
                if k is not None and k in st and kw.arg in ps and self.mutates_param(c, kw.arg):
                    st[k] = (("fresh", id(call), kw.arg), 0, None, False)

    def _transfer(self, node, st, f):
        """state after executing the node normally (tests and loop headers: refinement is done per edge)"""
        st = dict(st)
        s = node.stmt
        if node.kind == "stmt":
            for c in [n for n in ast.walk(s) if isinstance(n, ast.Call)] if not isinstance(s, (ast.FunctionDef, ast.ClassDef)) else []:
                self._call_effects(st, c, f, id(s))
            if isinstance(s, ast.Assign):
                for t in s.targets:
                    if isinstance(t, (ast.Tuple, ast.List)):
                        self._assign_tuple(st, t, s.value, f, s)
                    else:
                        self._assign(st, t, s.value, f, id(s))
            elif isinstance(s, ast.AugAssign):
                k = key_of(s.target)
                if k is not None and k in st:
                    tag = ("fresh", id(s))
                    self._kill_symbol(st, tag)
                    st[k] = (tag, 0, None, False)
                if isinstance(s.target, ast.Name):
                    self._kill_index_name(st, s.target.id)
            elif isinstance(s, ast.AnnAssign) and s.value is not None:
                self._assign(st, s.target, s.value, f, id(s))
            elif isinstance(s, ast.Delete):
                for t in s.targets:
                    if isinstance(t, ast.Subscript):
                        k = key_of(t.value)
                        if k is not None and k in st:
                            v = st[k]
                            st[k] = (v[0], v[1] - 1, None, v[3])
        elif node.kind in ("test", "with", "loop"):
            exprs = [s.test] if node.kind == "test" or isinstance(s, ast.While) else [s.iter] if node.kind == "loop" else [i.context_expr for i in s.items]
            for e in exprs:
                for c in [n for n in ast.walk(e) if isinstance(n, ast.Call)]:
                    self._call_effects(st, c, f, id(s))
        return st

    def _assign_tuple(self, st, target, value, f, stmt):
        names = target.elts
        if isinstance(value, (ast.Tuple, ast.List)) and len(value.elts) == len(names):
            vals = [self.eval(x, st, f) for x in value.elts]
            for t, x, v in zip(names, value.elts, vals):
                self._assign(st, t, x, f, id(stmt), precomputed=v)
            return
        n = len(names)
        eq, esq, prs = set(), set(), {}
        if isinstance(value, ast.Call):
            cs = self._callees(f, value)
            rs = [self.res.get(c.key) for c in cs]
            if cs and all(r is not None and r.ret_eq is not None for r in rs):
                eq = set.intersection(*[r.ret_eq for r in rs])
                esq = set.intersection(*[r.ret_esig for r in rs])
                prs = {i: all(r.ret_pairs.get(i, False) for r in rs) for i in range(n)}
        # union-find over indices
        rep = list(range(n))
        erep = list(range(n))
        for (i, j) in sorted(eq):
            if i < n and j < n:
                a, b = rep[i], rep[j]
                rep = [min(a, b) if r in (a, b) else r for r in rep]
        for (i, j) in sorted(esq):
            if i < n and j < n:
                a, b = erep[i], erep[j]
                erep = [min(a, b) if r in (a, b) else r for r in erep]
        base = ("ret", id(stmt))
        self._kill_symbol(st, base)
        for i, t in enumerate(names):
            v = ((base, rep[i]), 0, ("resig", base, erep[i]) if esq else None, bool(prs.get(i)))
            k = key_of(t)
            if k is not None:
                if isinstance(t, ast.Name):
                    self._kill_index_name(st, t.id)
                st[k] = v

    def _refine(self, node, label, st, f):
        """state on the edge `label` out of a test / loop node"""
        s = node.stmt
        if node.kind == "loop" and isinstance(s, ast.For):
            st = dict(st)
            if label == "t":
                tag = ("it", id(s))
                self._kill_symbol(st, tag)
                tg = s.target
                names = [n for n in ast.walk(tg) if isinstance(n, ast.Name)]
                for n in names:
                    self._kill_index_name(st, n.id)
                itv = self.iter_len(s.iter, st, f) if not (isinstance(s.iter, ast.Call) and isinstance(s.iter.func, ast.Name) and s.iter.func.id in ("enumerate", "range")) else None
                src = s.iter
                pair_t = tg
                if isinstance(src, ast.Call) and isinstance(src.func, ast.Name) and src.func.id == "enumerate" and src.args \
                        and isinstance(tg, ast.Tuple) and len(tg.elts) == 2:
                    pair_t = tg.elts[1]
                    itv = self.iter_len(src.args[0], st, f)
                if isinstance(pair_t, (ast.Tuple, ast.List)) and len(pair_t.elts) == 2 and itv is not None and itv[3] \
                        and all(isinstance(x, ast.Name) for x in pair_t.elts):
                    for x in pair_t.elts:
                        st[x.id] = ((tag, "pair"), 0, None, False)
                    names = [n for n in names if n.id not in {x.id for x in pair_t.elts}]
                for n in names:
                    st[n.id] = ((tag, n.id), 0, None, False)
            return st
        test = s.test if isinstance(s, (ast.If, ast.While)) else None
        if test is None:
            return st
        eqs = _len_equalities(test, label == "t")
        if eqs:
            st = dict(st)
            for a, b in eqs:
                va, vb = self.eval(a, st, f), self.eval(b, st, f)
                kb = key_of(b)
                if kb is not None:
                    st[kb] = (va[0], va[1], vb[2], vb[3])
                    ka = key_of(a)
                    if ka is not None and ka not in st:
                        st[ka] = va
        return st

    # ------------------------------------------------------------------ join
    def _join(self, nid, states):
        states = [s for s in states if s is not None]
        if not states:
            return None
        if len(states) == 1:
            return dict(states[0])
        keys = set()
        for s in states:
            keys |= set(s)
        out = {}
        classes = {}
        eclasses = {}
        for k in sorted(keys):
            vals = [self.get(s, k) for s in states]
            if all(v == vals[0] for v in vals):
                v = vals[0]
                if _mentions(v, ("phi", nid)) or _mentions(v, ("ephi", nid)):
                    v = (("lost", ("phi", nid), k), 0, None, False)
                out[k] = v
                continue
            o0 = vals[0][1]
            ck = (tuple(v[0] for v in vals), tuple(v[1] - o0 for v in vals))
            classes.setdefault(ck, []).append(k)
            ek = tuple(v[2] for v in vals)
            if all(x is not None for x in ek):
                eclasses.setdefault(ek, []).append(k)
            out[k] = None
        ename = {}
        for ek, ks in eclasses.items():
            for k in ks:
                ename[k] = (("ephi", nid), min(ks)) if len(set(ek)) > 1 else ek[0]
        for ck, ks in classes.items():
            nm = (("phi", nid), min(ks))
            same_sym = len(set(ck[0])) == 1 and len(set(ck[1])) == 1
            for k in ks:
                vals = [self.get(s, k) for s in states]
                sym = ck[0][0] if same_sym else nm
                off = vals[0][1] if same_sym else vals[0][1] - self.get(states[0], min(ks))[1]
                out[k] = (sym, off, ename.get(k), all(v[3] for v in vals))
        return out

    # ------------------------------------------------------------------ per function
    _listish = {}

    def _analyse(self, f):
        r = FuncResult()
        g = r.cfg = CFG(f.node)
        entry = {}
        pre = self.pre.get(f.key, {})
        ps = [p for p in f.params() if p not in ("self", "cls")]
        rep = {p: p for p in ps}
        for pair in pre.get("eq", ()):
            a, b = sorted(pair)
            ra, rb = rep[a], rep[b]
            for p in ps:
                if rep[p] in (ra, rb):
                    rep[p] = min(ra, rb)
        erep = {p: p for p in ps}
        for pair in pre.get("esig", ()):
            a, b = sorted(pair)
            ra, rb = erep[a], erep[b]
            for p in ps:
                if erep[p] in (ra, rb):
                    erep[p] = min(ra, rb)
        for p in ps:
            entry[p] = (("param", rep[p]), 0, ("pesig", erep[p]), p in pre.get("pairs", ()))
        self._listish[f.key] = set(ps)
        OUT = {}
        IN = {}
        order = [n.id for n in g.nodes]
        IN[g.entry.id] = entry
        OUT[(g.entry.id, "n")] = entry
        for _ in range(12):
            changed = False
            for nid in order:
                if nid == g.entry.id:
                    continue
                incoming = []
                for p, label in sorted(g.pred[nid]):
                    if label.startswith("exc"):
                        s_ = IN.get(p)
                    else:
                        s_ = OUT.get((p, label))
                    if s_ is not None:
                        incoming.append(s_)
                st = self._join(nid, incoming)
                if st is None:
                    continue
                if IN.get(nid) != st:
                    IN[nid] = st
                    changed = True
                node = g.nodes[nid]
                after = self._transfer(node, st, f)
                for (q, label) in g.succ[nid]:
                    if label.startswith("exc"):
                        continue
                    o = self._refine(node, label, after, f) if node.kind in ("test", "loop") else after
                    if OUT.get((nid, label)) != o:
                        OUT[(nid, label)] = o
                        changed = True
            if not changed:
                break
        else:
            # no fixpoint within the bound: forget everything (sound)
            IN = {nid: {} for nid in order}
        r.IN = IN
        # return summary
        rets = [n for n in g.nodes if n.kind == "stmt" and isinstance(n.stmt, ast.Return) and n.stmt.value is not None]
        tuples = [n for n in rets if isinstance(n.stmt.value, ast.Tuple)]
        if rets and len(tuples) == len(rets) and len({len(n.stmt.value.elts) for n in tuples}) == 1:
            eqs, esqs, prs = [], [], []
            for n in tuples:
                st = IN.get(n.id) or {}
                vals = [self.eval(x, st, f) for x in n.stmt.value.elts]
                eqs.append({(i, j) for i in range(len(vals)) for j in range(len(vals)) if i < j and vals[i][:2] == vals[j][:2]})
                esqs.append({(i, j) for i in range(len(vals)) for j in range(len(vals)) if i < j and vals[i][2] is not None and vals[i][2] == vals[j][2]})
                prs.append({i: v[3] for i, v in enumerate(vals)})
            r.ret_eq = set.intersection(*eqs)
            r.ret_esig = set.intersection(*esqs)
            r.ret_pairs = {i: all(p.get(i, False) for p in prs) for i in prs[0]}
        elif rets and not tuples and all(isinstance(n.stmt.value, (ast.Name, ast.Call)) and self._tuple_summary_of_value(
                self.eval(n.stmt.value, IN.get(n.id) or {}, f)) is not None for n in rets):
            sums = [self._tuple_summary_of_value(self.eval(n.stmt.value, IN.get(n.id) or {}, f)) for n in rets]
            r.ret_eq = set.intersection(*[x[0] for x in sums])
            r.ret_esig = set.intersection(*[x[1] for x in sums])
            r.ret_pairs = {i: all(x[2].get(i, False) for x in sums) for i in sums[0][2]}
        elif rets and not tuples:
            flags = []
            for n in rets:
                st = IN.get(n.id) or {}
                v = self.eval(n.stmt.value, st, f, fresh_ok=False)
                flags.append(bool(v is not None and v[3]))
            r.ret_eq, r.ret_esig, r.ret_pairs = set(), set(), {None: all(flags)}
        return r

    # ------------------------------------------------------------------ preconditions from call sites
    def _preconditions(self):
        from .ctx import conjuncts, enclosing_tests
        agg = {}
        for caller in self.funcs:
            r = self.res.get(caller.key)
            if r is None:
                continue
            for site in self.cg.sites.get(caller.key, []):
                if not site.callees or not isinstance(site.node, ast.Call):
                    continue
                nid = r.cfg.node_of_expr(caller.node, site.node)
                st = r.IN.get(nid) if nid is not None else None
                for c in site.callees:
                    if not isinstance(c.node, (ast.FunctionDef, ast.AsyncFunctionDef)):
                        continue
                    ps = c.params()
                    off = 1 if ps and ps[0] in ("self", "cls") and isinstance(site.node.func, ast.Attribute) else 0
                    binding = {}
                    for i, a in enumerate(site.node.args):
                        if isinstance(a, ast.Starred):
                            binding = None
                            break
                        if i + off < len(ps):
                            binding[ps[i + off]] = a
                    if binding is None:
                        agg.setdefault(c.key, []).append(None)
                        continue
                    for kw in site.node.keywords:
                        if kw.arg is None:
                            binding = None
                            break
                        binding[kw.arg] = kw.value
                    if binding is None or st is None:
                        agg.setdefault(c.key, []).append(None)
                        continue
                    vals = {p: self.eval(a, st, caller, fresh_ok=False) for p, a in binding.items()}
                    names = sorted(p for p, v in vals.items() if v is not None)
                    eq = {frozenset((p, q)) for p in names for q in names if p < q and vals[p][:2] == vals[q][:2]}
                    es = {frozenset((p, q)) for p in names for q in names if p < q and vals[p][2] is not None and vals[p][2] == vals[q][2]}
                    pr = {p for p in names if vals[p][3]}
                    cnt = set()
                    facts = {" ".join(ast.unparse(a_).split()) for t, pol in enclosing_tests(caller.node, site.node) for a_, p_ in conjuncts(t, pol) if p_}
                    txt = {p: " ".join(ast.unparse(a).split()) for p, a in binding.items()}
                    for p in txt:
                        for q in txt:
                            for s_ in txt:
                                if p < q and ("%s.count(%s) == %s.count(%s)" % (txt[p], txt[s_], txt[q], txt[s_]) in facts
                                              or "%s.count(%s) == %s.count(%s)" % (txt[q], txt[s_], txt[p], txt[s_]) in facts):
                                    cnt.add((p, q, s_))
                    agg.setdefault(c.key, []).append(dict(eq=eq, esig=es, pairs=pr, count=cnt))
        new = {}
        for k, lst in agg.items():
            if any(x is None for x in lst):
                continue
            new[k] = dict(eq=set.intersection(*[x["eq"] for x in lst]), esig=set.intersection(*[x["esig"] for x in lst]),
                          pairs=set.intersection(*[x["pairs"] for x in lst]), count=set.intersection(*[x["count"] for x in lst]))
        self.pre = new

    # ------------------------------------------------------------------ queries
    def state_at(self, f, expr_node):
        r = self.res.get(f.key)
        if r is None:
            return None, None
        nid = r.cfg.node_of_expr(f.node, expr_node)
        return (r.IN.get(nid) if nid is not None else None), r

    def covers(self, f, sub, seq_expr, extra=0):
        """len(sub.value) >= len(seq_expr) + extra at the subscript (both evaluated in the state before its statement)"""
        st, r = self.state_at(f, sub)
        if st is None:
            return False, "no state"
        b = self.eval(sub.value, st, f, fresh_ok=False)
        a = self.iter_len(seq_expr, st, f)
        if a is None or b is None:
            return False, "length of %s or %s is not tracked" % (ast.unparse(sub.value), ast.unparse(seq_expr))
        if a[0] == b[0] and b[1] >= a[1] + extra:
            return True, "len(%s) = len(%s)%+d" % (ast.unparse(sub.value), ast.unparse(seq_expr), b[1] - a[1])
        return False, "len(%s) ~ %s%+d, len(%s) ~ %s%+d" % (ast.unparse(sub.value), _show(b[0]), b[1], ast.unparse(seq_expr), _show(a[0]), a[1])


def _show(sym):
    s = repr(sym)
    return s if len(s) < 60 else s[:57] + "..."


def _mentions_elem_index(v, name):
    """the value contains an ('elem', esig, index text) symbol whose index text uses `name`"""
    if isinstance(v, tuple):
        if len(v) == 3 and v[0] == "elem" and isinstance(v[2], str):
            import re
            if re.search(r"\b%s\b" % re.escape(name), v[2]):
                return True
        return any(_mentions_elem_index(x, name) for x in v)
    return False


def _len_equalities(test, truth):
    """pairs (a, b) with len(a) == len(b) known on the branch where `test` evaluates to `truth`"""
    out = []
    if isinstance(test, ast.BoolOp):
        if isinstance(test.op, ast.And) and truth:
            for v in test.values:
                out += _len_equalities(v, True)
        elif isinstance(test.op, ast.Or) and not truth:
            for v in test.values:
                out += _len_equalities(v, False)
        return out
    if isinstance(test, ast.UnaryOp) and isinstance(test.op, ast.Not):
        return _len_equalities(test.operand, not truth)
    if isinstance(test, ast.Compare) and len(test.ops) == 1:
        l, r = test.left, test.comparators[0]
        if all(isinstance(x, ast.Call) and isinstance(x.func, ast.Name) and x.func.id == "len" and len(x.args) == 1 for x in (l, r)):
            if (isinstance(test.ops[0], ast.Eq) and truth) or (isinstance(test.ops[0], ast.NotEq) and not truth):
                out.append((l.args[0], r.args[0]))
    return out

"""Rule instances are confirmed by reading the pinned tree; sa/known_functions.json freezes the set of functions that were read.
When the tree contains a function that is not in that set (typically: a helper extracted from, or inlined into, a function the
rules reason about), a finding located in the new function, in a function that calls it, or in a function it calls cannot be told
apart from "the construct moved": such findings are withdrawn and reported as ANALYSIS-ERROR (exit 2, 'cannot decide here')
instead of VIOLATION.  Findings anywhere else are unaffected."""
import ast
import json
import os

HERE = os.path.dirname(os.path.dirname(os.path.abspath(__file__)))


def _inventory():
    with open(os.path.join(HERE, "known_functions.json"), encoding="utf-8") as fh:
        return set(json.load(fh)["functions"])


def known_state():
    with open(os.path.join(HERE, "known_functions.json"), encoding="utf-8") as fh:
        return {k: set(v) for k, v in json.load(fh).get("state", {}).items()}


def new_function_keys(ix):
    inv = _inventory()
    return {k for k, f in ix.funcs.items() if not isinstance(f.node, ast.Lambda) and k not in inv
            and f.module.rel.startswith(("dateparser/", "dateparser_scripts/")) and not f.module.rel.startswith("dateparser/data/")}


def new_functions(ctx):
    return new_function_keys(ctx.ix)


def _near(ctx, new):
    """functions whose reasoning a new function can invalidate: the new ones, their direct callers and their direct callees"""
    cg = ctx.cg
    near = set(new)
    for k in new:
        near |= set(cg.callers.get(k, ()))
        for s in cg.sites.get(k, ()):
            near |= {c.key for c in s.callees}
    # nested functions / lambdas of a near function share its scope
    for k, f in ctx.ix.funcs.items():
        p = f.parent
        while p is not None:
            if p.key in near:
                near.add(k)
                break
            p = p.parent
    return near


def withdraw_unconfirmed(ctx, chk):
    new = new_functions(ctx) | set(getattr(ctx, "inlined_helpers", ()))
    if not new and not getattr(ctx, "inlined_touched", None):
        return 0
    near = _near(ctx, {k for k in new if k in ctx.ix.funcs}) | set(getattr(ctx, "inlined_touched", ()))
    by_site = {}
    for k, f in ctx.ix.funcs.items():
        by_site.setdefault((f.file, f.qual), k)
    n = 0
    listed = {f_.ident() for f_, _k in chk.classify()[0]}       # a listed finding that is still reported under its own key has not moved
    for ident, f in list(chk.findings.items()):
        if ident in getattr(chk, "positive", ()) or ident in listed:
            continue
        cands = set()
        if isinstance(f.key, dict) and f.key.get("function"):
            cands.add(str(f.key["function"]))
        site = getattr(f, "construct", None) or {}
        if site.get("file") and site.get("function"):
            k = by_site.get((site["file"], site["function"]))
            if k:
                cands.add(k)
        for step in (getattr(f, "path", None) or []):
            # rules that reason through callers / call chains record the functions involved in the path
            for tok in str(step).replace(",", " ").split():
                k = tok.split("@")[0]
                if k in ctx.ix.funcs:
                    cands.add(k)
        if cands & near:
            del chk.findings[ident]
            n += 1
            chk.error(f.rule, "cannot decide `%s`: %s was restructured around function(s) this rule was never confirmed against (%s)" % (
                str(f.key)[:80], sorted(cands & near)[0].split(":")[-1], ", ".join(sorted(x.split(":")[-1] for x in new)[:3])))
    return n


def withdraw_by_second_pass(ctx, chk, mod, make_ctx):
    """findings that exist only because of what may happen INSIDE a function no rule was confirmed against (an exception born there that
    travels up to a restore-on-all-exits rule, say) cannot be located by the finding's own position.  They are found by difference: the
    rules are run a second time with the primitive may-raise sites of the new functions switched off; a finding of the first run that is
    absent from the second is withdrawn as ANALYSIS-ERROR.  Nothing happens when there are no new functions or no findings."""
    new = new_functions(ctx)
    listed, unlisted, _ = chk.classify()
    if not new or not unlisted:
        return 0
    from .report import Check
    from .repo import AnalysisError
    os.environ["SA_DROP_UNCONFIRMED"] = "1"
    try:
        ctx2 = make_ctx()
        chk2 = Check(chk.prop, "quick", ctx2.repo, quiet=True)
        try:
            mod.run(ctx2, chk2)
        except AnalysisError:
            return 0
    finally:
        os.environ.pop("SA_DROP_UNCONFIRMED", None)
    n = 0
    for f in unlisted:
        ident = f.ident()
        if ident not in chk2.findings and ident in chk.findings and ident not in getattr(chk, "positive", ()):
            del chk.findings[ident]
            n += 1
            chk.error(f.rule, "cannot decide `%s`: it depends on what may be raised inside function(s) this rule was never confirmed against (%s)" % (
                str(f.key)[:80], ", ".join(sorted(x.split(":")[-1] for x in new)[:3])))
    return n


def with_helpers_inlined(ctx, make_ctx):
    """the context the rules should run on: the given one, or - when new functions are called as whole statements by known functions - one
    whose source overlay has those calls replaced by the helper bodies (core/inline.py)"""
    if not new_functions(ctx):
        return ctx
    try:
        from .inline import build_overlay
        overlay, touched = build_overlay(ctx)
    except Exception as e:
        import sys
        print("NOTE: helper inlining failed (%s: %s); the rules run on the tree as written" % (type(e).__name__, e), file=sys.stderr)
        return make_ctx(None)
    if not overlay:
        return make_ctx(None)
    ctx2 = make_ctx(overlay)
    helpers = set(new_functions(ctx))
    # writing a helper out can expose a call of another new function (a callable handed to the helper, a helper calling a helper)
    for _ in range(3):
        if not new_functions(ctx2):
            break
        try:
            more, touched2 = build_overlay(ctx2)
        except Exception as e:
            import sys
            print("NOTE: helper inlining stopped early (%s: %s)" % (type(e).__name__, e), file=sys.stderr)
            break
        if not more:
            break
        overlay = dict(overlay, **more)
        touched = set(touched) | set(touched2)
        ctx2 = make_ctx(overlay)
    ctx2.inlined_touched = touched
    ctx2.inlined_helpers = helpers
    return ctx2

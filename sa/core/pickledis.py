"""Symbolic pickle disassembler: builds a value tree from the opcode stream without
importing or calling anything the stream names (pickletools.genops only decodes)."""
import pickletools

from .repo import AnalysisError


class Global:
    __slots__ = ("module", "name")

    def __init__(self, module, name):
        self.module, self.name = module, name

    def __repr__(self):
        return "<global %s.%s>" % (self.module, self.name)


class Reduce:
    __slots__ = ("func", "args", "state")

    def __init__(self, func, args):
        self.func, self.args, self.state = func, args, None

    def __repr__(self):
        return "<reduce %r %r>" % (self.func, self.args)


_MARK = object()


def disassemble(data):
    stack = []
    memo = {}
    result = [None]
    done = False
    proto = [0]

    def pop_mark():
        items = []
        while True:
            if not stack:
                raise AnalysisError("pickle", "MARK not found")
            x = stack.pop()
            if x is _MARK:
                break
            items.append(x)
        items.reverse()
        return items

    try:
        ops = list(pickletools.genops(data))
    except Exception as e:
        raise AnalysisError("pickle", "opcode stream does not decode: %s" % e)
    for op, arg, pos in ops:
        n = op.name
        if done:
            raise AnalysisError("pickle", "data after STOP")
        if n == "PROTO":
            proto[0] = arg
        elif n == "FRAME":
            pass
        elif n == "MARK":
            stack.append(_MARK)
        elif n == "STOP":
            result[0] = stack.pop()
            done = True
        elif n == "MEMOIZE":
            memo[len(memo)] = stack[-1]
        elif n in ("BINPUT", "LONG_BINPUT", "PUT"):
            memo[arg] = stack[-1]
        elif n in ("BINGET", "LONG_BINGET", "GET"):
            stack.append(memo[arg])
        elif n in ("BININT", "BININT1", "BININT2", "LONG1", "LONG4", "INT", "LONG", "BINFLOAT", "FLOAT",
                   "SHORT_BINUNICODE", "BINUNICODE", "BINUNICODE8", "UNICODE", "SHORT_BINBYTES", "BINBYTES",
                   "BINBYTES8", "SHORT_BINSTRING", "BINSTRING", "STRING"):
            stack.append(arg)
        elif n == "NONE":
            stack.append(None)
        elif n == "NEWTRUE":
            stack.append(True)
        elif n == "NEWFALSE":
            stack.append(False)
        elif n == "EMPTY_LIST":
            stack.append([])
        elif n == "EMPTY_DICT":
            stack.append({})
        elif n == "EMPTY_TUPLE":
            stack.append(())
        elif n == "EMPTY_SET":
            stack.append(set())
        elif n == "APPEND":
            v = stack.pop()
            stack[-1].append(v)
        elif n == "APPENDS":
            items = pop_mark()
            stack[-1].extend(items)
        elif n == "SETITEM":
            v = stack.pop()
            k = stack.pop()
            stack[-1][k] = v
        elif n == "SETITEMS":
            items = pop_mark()
            d = stack[-1]
            target = d.state if isinstance(d, Reduce) and isinstance(d.state, dict) else d
            for i in range(0, len(items), 2):
                target[items[i]] = items[i + 1]
        elif n == "ADDITEMS":
            items = pop_mark()
            stack[-1].update(items)
        elif n == "TUPLE":
            stack.append(tuple(pop_mark()))
        elif n == "TUPLE1":
            stack.append((stack.pop(),))
        elif n == "TUPLE2":
            b = stack.pop()
            a = stack.pop()
            stack.append((a, b))
        elif n == "TUPLE3":
            c = stack.pop()
            b = stack.pop()
            a = stack.pop()
            stack.append((a, b, c))
        elif n == "LIST":
            stack.append(list(pop_mark()))
        elif n == "DICT":
            items = pop_mark()
            stack.append({items[i]: items[i + 1] for i in range(0, len(items), 2)})
        elif n == "GLOBAL":
            mod, name = arg.split(" ", 1)
            stack.append(Global(mod, name))
        elif n == "STACK_GLOBAL":
            name = stack.pop()
            mod = stack.pop()
            stack.append(Global(mod, name))
        elif n == "REDUCE":
            args = stack.pop()
            func = stack.pop()
            stack.append(Reduce(func, args))
        elif n in ("NEWOBJ",):
            args = stack.pop()
            cls = stack.pop()
            stack.append(Reduce(cls, args))
        elif n == "NEWOBJ_EX":
            kw = stack.pop()
            args = stack.pop()
            cls = stack.pop()
            r = Reduce(cls, args)
            r.state = {"__kwargs__": kw}
            stack.append(r)
        elif n == "BUILD":
            state = stack.pop()
            obj = stack[-1]
            if isinstance(obj, Reduce):
                obj.state = state
            else:
                raise AnalysisError("pickle", "BUILD on a non-object at byte %d" % pos)
        elif n == "POP":
            stack.pop()
        elif n == "POP_MARK":
            pop_mark()
        elif n == "DUP":
            stack.append(stack[-1])
        else:
            raise AnalysisError("pickle", "opcode %s at byte %d is outside the modelled set" % (n, pos))
    if not done:
        raise AnalysisError("pickle", "no STOP opcode: truncated stream")
    return result[0], proto[0], len(ops)

"""Reader for the YAML subset used by dateparser_data/supplementary_language_data.

Supported: block mappings, block sequences, `- key: value` single-pair items, flow
sequences of scalars on one line, plain / single-quoted / double-quoted scalars,
YAML 1.2 core-schema scalar resolution, full-line comments and blank lines.
Anything else (anchors, tags, block scalars, multi-line scalars, flow mappings,
inline comments, tabs) raises AnalysisError: the check then exits 2, never guesses.
Insertion order of mappings is preserved (dict).
"""
import re

from .repo import AnalysisError

_INT = re.compile(r"^[-+]?[0-9]+$")
_OCT = re.compile(r"^0o[0-7]+$")
_HEX = re.compile(r"^0x[0-9a-fA-F]+$")
_FLOAT = re.compile(r"^[-+]?(\.[0-9]+|[0-9]+(\.[0-9]*)?)([eE][-+]?[0-9]+)?$")
_INF = re.compile(r"^[-+]?\.(inf|Inf|INF)$")
_NAN = re.compile(r"^\.(nan|NaN|NAN)$")


class _Err(AnalysisError):
    def __init__(self, name, lineno, msg):
        super().__init__("yaml", "%s:%d: %s" % (name, lineno, msg))


def resolve_plain(s):
    if s in ("", "~", "null", "Null", "NULL"):
        return None
    if s in ("true", "True", "TRUE"):
        return True
    if s in ("false", "False", "FALSE"):
        return False
    if _INT.match(s):
        return int(s)
    if _OCT.match(s):
        return int(s[2:], 8)
    if _HEX.match(s):
        return int(s[2:], 16)
    if _FLOAT.match(s) and any(c in s for c in ".eE"):
        return float(s)
    if _INF.match(s):
        return float("-inf") if s.startswith("-") else float("inf")
    if _NAN.match(s):
        return float("nan")
    return s


_DQ_ESC = {"0": "\0", "a": "\a", "b": "\b", "t": "\t", "n": "\n", "v": "\v", "f": "\f", "r": "\r",
           "e": "\x1b", " ": " ", '"': '"', "/": "/", "\\": "\\", "N": "\x85", "_": "\xa0",
           "L": " ", "P": " "}


def _read_quoted(s, i, name, lineno):
    """s[i] is the opening quote; returns (value, index after closing quote)"""
    q = s[i]
    out = []
    i += 1
    while i < len(s):
        c = s[i]
        if q == "'":
            if c == "'":
                if i + 1 < len(s) and s[i + 1] == "'":
                    out.append("'")
                    i += 2
                    continue
                return "".join(out), i + 1
            out.append(c)
            i += 1
        else:
            if c == '"':
                return "".join(out), i + 1
            if c == "\\":
                if i + 1 >= len(s):
                    raise _Err(name, lineno, "dangling escape")
                e = s[i + 1]
                if e in _DQ_ESC:
                    out.append(_DQ_ESC[e])
                    i += 2
                elif e in "xuU":
                    n = {"x": 2, "u": 4, "U": 8}[e]
                    out.append(chr(int(s[i + 2:i + 2 + n], 16)))
                    i += 2 + n
                else:
                    raise _Err(name, lineno, "unknown escape \\%s" % e)
                continue
            out.append(c)
            i += 1
    raise _Err(name, lineno, "unterminated quoted scalar (multi-line scalars are outside the subset)")


def _scalar(text, name, lineno):
    t = text.strip()
    if not t:
        return None
    if t[0] in "\"'":
        v, j = _read_quoted(t, 0, name, lineno)
        if t[j:].strip():
            raise _Err(name, lineno, "trailing text after quoted scalar: %r" % t[j:])
        return v
    if t[0] in "&*!|>%@`{":
        raise _Err(name, lineno, "construct outside the supported subset: %r" % t[:20])
    if t[0] == "[":
        return _flow_seq(t, name, lineno)
    if " #" in t:
        raise _Err(name, lineno, "inline comment or ' #' in a plain scalar is outside the subset")
    return resolve_plain(t)


def _flow_seq(t, name, lineno):
    if not t.endswith("]"):
        raise _Err(name, lineno, "multi-line flow sequence")
    i = 1
    out = []
    while True:
        while i < len(t) and t[i] == " ":
            i += 1
        if t[i] == "]":
            break
        if t[i] in "\"'":
            v, i = _read_quoted(t, i, name, lineno)
        else:
            j = i
            while j < len(t) and t[j] not in ",]":
                j += 1
            raw = t[i:j].strip()
            if raw[:1] in "[{&*!":
                raise _Err(name, lineno, "nested flow collection")
            v = resolve_plain(raw)
            i = j
        out.append(v)
        while i < len(t) and t[i] == " ":
            i += 1
        if t[i] == ",":
            i += 1
        elif t[i] == "]":
            break
        else:
            raise _Err(name, lineno, "bad flow sequence near %r" % t[i:i + 10])
    if t[i + 1:].strip():
        raise _Err(name, lineno, "trailing text after flow sequence")
    return out


def _split_key(line, name, lineno):
    """split 'key: value' -> (key, value text) ; None if the line is not a mapping entry"""
    t = line
    if t[:1] in "\"'":
        k, j = _read_quoted(t, 0, name, lineno)
        rest = t[j:]
        m = re.match(r"^\s*:(\s|$)", rest)
        if not m:
            return None
        return k, rest[m.end():]
    # plain key: ends at the first ':' followed by space or end of line
    m = re.search(r":(\s|$)", t)
    if not m:
        return None
    key = t[:m.start()].rstrip()
    if not key or key[0] in "&*!|>%@`[{-?" and not key[0] in "(":
        if key[:1] == "-" or key[:1] == "?":
            # keys like "-a" exist only as scalars in sequences; as mapping keys they are plain
            pass
        elif not key:
            raise _Err(name, lineno, "empty key")
    rk = resolve_plain(key)
    return (rk if isinstance(rk, str) else key if rk is None else rk), t[m.end():]


def loads(text, name="<yaml>"):
    lines = []
    for no, raw in enumerate(text.split("\n"), 1):
        if "\t" in raw[: len(raw) - len(raw.lstrip())]:
            raise _Err(name, no, "tab indentation")
        s = raw.rstrip()
        if not s.strip() or s.lstrip().startswith("#"):
            continue
        if s.strip() in ("---", "..."):
            if s.strip() == "---" and not lines:
                continue
            raise _Err(name, no, "multiple documents")
        lines.append((len(s) - len(s.lstrip(" ")), s.strip(), no))
    pos = [0]

    def block(indent):
        if pos[0] >= len(lines):
            return None
        ind, s, no = lines[pos[0]]
        if ind < indent:
            return None
        if s.startswith("- ") or s == "-":
            return seq(ind)
        return mapping(ind)

    def seq(indent):
        out = []
        while pos[0] < len(lines):
            ind, s, no = lines[pos[0]]
            if ind < indent:
                break
            if ind > indent:
                raise _Err(name, no, "unexpected indentation in sequence")
            if not (s.startswith("- ") or s == "-"):
                break
            body = s[1:].lstrip()
            pos[0] += 1
            if not body:
                out.append(block(indent + 1))
                continue
            kv = None
            if body[:1] not in "[":
                kv = _split_key(body, name, no)
            if kv is not None and not (body[:1] in "\"'" and kv is None):
                k, v = kv
                if pos[0] < len(lines) and lines[pos[0]][0] > indent and not v.strip():
                    item = {k: block(lines[pos[0]][0])}
                else:
                    item = {k: _scalar(v, name, no)}
                # further keys of the same item (aligned with the first key)
                while pos[0] < len(lines) and lines[pos[0]][0] == indent + 2 and not lines[pos[0]][1].startswith("- "):
                    raise _Err(name, lines[pos[0]][2], "multi-key sequence item is outside the subset")
                out.append(item)
            else:
                out.append(_scalar(body, name, no))
        return out

    def mapping(indent):
        out = {}
        while pos[0] < len(lines):
            ind, s, no = lines[pos[0]]
            if ind < indent:
                break
            if ind > indent:
                raise _Err(name, no, "unexpected indentation in mapping")
            if s.startswith("- "):
                break
            kv = _split_key(s, name, no)
            if kv is None:
                raise _Err(name, no, "not a 'key: value' line (multi-line scalar?): %r" % s[:40])
            k, v = kv
            pos[0] += 1
            if k in out:
                raise _Err(name, no, "duplicate key %r" % (k,))
            if v.strip():
                out[k] = _scalar(v, name, no)
            else:
                if pos[0] < len(lines) and (lines[pos[0]][0] > indent or (
                        lines[pos[0]][0] == indent and lines[pos[0]][1].startswith("- "))):
                    out[k] = block(lines[pos[0]][0])
                else:
                    out[k] = None
        return out

    doc = block(0)
    if pos[0] != len(lines):
        raise _Err(name, lines[pos[0]][2], "could not parse (structure outside the subset)")
    return doc

"""A very small evaluator for DECISION code: functions (or statement lists) that pick one of a few constants by testing a handful of
facts.  It exists so that a rule can ask "what does this code answer for each combination of the facts?" instead of matching the
spelling of the decision (loop over a literal list, if-chain, guard clauses, next() over a generator, lookup table ...).

Only the constructs listed here are understood; everything else raises Unknown and the calling rule reports ANALYSIS-ERROR.
It is constant folding over a finite truth table - no library code is imported or run.
"""
import ast


class Unknown(Exception):
    pass


class _Return(Exception):
    def __init__(self, value):
        self.value = value


class _Break(Exception):
    pass


class Raised(Exception):
    """the evaluated code reached a `raise` statement"""
    def __init__(self, text):
        Exception.__init__(self, text)
        self.text = text


class _Continue(Exception):
    pass


class Evaluator:
    def __init__(self, oracle, module_consts=None):
        """oracle(expr_node, env) -> value for expressions the caller wants to decide itself (facts), or raises Unknown to let the
        evaluator try; module_consts: {name: python value} for module-level tables the code may read"""
        self.oracle = oracle
        self.consts = module_consts or {}

    # -- expressions -----------------------------------------------------
    def ev(self, e, env):
        try:
            return self.oracle(e, env)
        except Unknown:
            pass
        if isinstance(e, ast.Constant):
            return e.value
        if isinstance(e, ast.Name):
            if e.id in env:
                return env[e.id]
            if e.id in self.consts:
                return self.consts[e.id]
            if e.id in ("True", "False", "None"):
                return {"True": True, "False": False, "None": None}[e.id]
            raise Unknown("name " + e.id)
        if isinstance(e, (ast.Tuple, ast.List)):
            return [self.ev(x, env) for x in e.elts]
        if isinstance(e, ast.Dict):
            return {self.ev(k, env): self.ev(v, env) for k, v in zip(e.keys, e.values)}
        if isinstance(e, ast.UnaryOp) and isinstance(e.op, ast.Not):
            return not self.ev(e.operand, env)
        if isinstance(e, ast.UnaryOp) and isinstance(e.op, ast.USub):
            return -self.ev(e.operand, env)
        if isinstance(e, ast.BoolOp):
            last = None
            for v in e.values:
                last = self.ev(v, env)
                if isinstance(e.op, ast.And) and not last:
                    return last
                if isinstance(e.op, ast.Or) and last:
                    return last
            return last
        if isinstance(e, ast.IfExp):
            return self.ev(e.body, env) if self.ev(e.test, env) else self.ev(e.orelse, env)
        if isinstance(e, ast.Compare) and len(e.ops) == 1:
            a, b = self.ev(e.left, env), self.ev(e.comparators[0], env)
            op = e.ops[0]
            if isinstance(op, ast.Eq):
                return a == b
            if isinstance(op, ast.NotEq):
                return a != b
            if isinstance(op, ast.In):
                return a in b
            if isinstance(op, ast.NotIn):
                return a not in b
            if isinstance(op, ast.Is):
                return a is b
            if isinstance(op, ast.IsNot):
                return a is not b
            raise Unknown("comparison")
        if isinstance(e, ast.Subscript):
            v = self.ev(e.value, env)
            if isinstance(e.slice, ast.Slice):
                lo = self.ev(e.slice.lower, env) if e.slice.lower is not None else None
                hi = self.ev(e.slice.upper, env) if e.slice.upper is not None else None
                return v[lo:hi]
            return v[self.ev(e.slice, env)]
        if isinstance(e, ast.Call):
            fn = ast.unparse(e.func)
            if fn in ("any", "all") and len(e.args) == 1 and isinstance(e.args[0], (ast.GeneratorExp, ast.ListComp)):
                vals = list(self._gen(e.args[0], env))
                return any(vals) if fn == "any" else all(vals)
            if fn in ("any", "all") and len(e.args) == 1:
                vals = self.ev(e.args[0], env)
                return any(vals) if fn == "any" else all(vals)
            if fn == "next" and len(e.args) == 2 and isinstance(e.args[0], ast.GeneratorExp):
                for v in self._gen(e.args[0], env):
                    return v
                return self.ev(e.args[1], env)
            if fn == "sorted" and e.args:
                seq = list(self.ev(e.args[0], env))
                kw = {k.arg: k.value for k in e.keywords}
                rev = bool(self.ev(kw["reverse"], env)) if "reverse" in kw else False
                keyf = kw.get("key")
                if keyf is None:
                    return sorted(seq, reverse=rev)
                if isinstance(keyf, ast.Lambda) and len(keyf.args.args) == 1:
                    p = keyf.args.args[0].arg
                    return sorted(seq, key=lambda x: self.ev(keyf.body, dict(env, **{p: x})), reverse=rev)
                raise Unknown("sort key")
            if isinstance(e.func, ast.Attribute) and e.func.attr == "items" and not e.args:
                d = self.ev(e.func.value, env)
                if isinstance(d, dict):
                    return list(d.items())
            if fn in ("list", "tuple") and len(e.args) == 1:
                return list(self.ev(e.args[0], env))
            if fn == "bool" and len(e.args) == 1:
                return bool(self.ev(e.args[0], env))
            if fn == "len" and len(e.args) == 1 and not e.keywords:
                return len(self.ev(e.args[0], env))
            if fn in ("set", "frozenset") and len(e.args) <= 1 and not e.keywords:
                return set(self.ev(e.args[0], env)) if e.args else set()
        if isinstance(e, (ast.GeneratorExp, ast.ListComp)):
            return list(self._gen(e, env))
        if isinstance(e, ast.SetComp):
            return set(self._gen(e, env))
        if isinstance(e, ast.Set):
            return {self.ev(x, env) for x in e.elts}
        if isinstance(e, ast.BinOp) and isinstance(e.op, (ast.BitAnd, ast.BitOr, ast.Sub)):
            a, b = self.ev(e.left, env), self.ev(e.right, env)
            if isinstance(a, (set, frozenset)) and isinstance(b, (set, frozenset)):
                return a & b if isinstance(e.op, ast.BitAnd) else a | b if isinstance(e.op, ast.BitOr) else a - b
        raise Unknown(ast.unparse(e)[:50])

    def _gen(self, g, env):
        if len(g.generators) != 1:
            raise Unknown("nested generator")
        c = g.generators[0]
        for item in self.ev(c.iter, env):
            e2 = dict(env)
            self.bind(c.target, item, e2)
            if all(self.ev(t, e2) for t in c.ifs):
                yield self.ev(g.elt, e2)

    def bind(self, t, v, env):
        if isinstance(t, ast.Name):
            env[t.id] = v
        elif isinstance(t, (ast.Tuple, ast.List)) and len(t.elts) == len(v):
            for a, b in zip(t.elts, v):
                self.bind(a, b, env)
        else:
            raise Unknown("target")

    # -- statements ------------------------------------------------------
    def run(self, stmts, env):
        for st in stmts:
            if isinstance(st, ast.Expr) and isinstance(st.value, ast.Constant):
                continue
            if isinstance(st, ast.Return):
                raise _Return(self.ev(st.value, env) if st.value is not None else None)
            if isinstance(st, ast.If):
                self.run(st.body if self.ev(st.test, env) else st.orelse, env)
            elif isinstance(st, ast.For):
                broke = False
                for item in self.ev(st.iter, env):
                    self.bind(st.target, item, env)
                    try:
                        self.run(st.body, env)
                    except _Break:
                        broke = True
                        break
                    except _Continue:
                        continue
                if not broke:
                    self.run(st.orelse, env)
            elif isinstance(st, ast.Assign) and len(st.targets) == 1:
                self.bind(st.targets[0], self.ev(st.value, env), env)
            elif isinstance(st, ast.Raise):
                raise Raised(ast.unparse(st.exc)[:80] if st.exc is not None else "")
            elif isinstance(st, ast.Expr) and isinstance(st.value, ast.Call) and isinstance(st.value.func, ast.Attribute) \
                    and st.value.func.attr in ("append", "add") and isinstance(st.value.func.value, ast.Name) \
                    and isinstance(env.get(st.value.func.value.id), (list, set)) and len(st.value.args) == 1 and not st.value.keywords:
                box = env[st.value.func.value.id]
                item = self.ev(st.value.args[0], env)
                box.append(item) if isinstance(box, list) else box.add(item)
            elif isinstance(st, ast.Break):
                raise _Break()
            elif isinstance(st, ast.Continue):
                raise _Continue()
            elif isinstance(st, ast.Pass):
                continue
            else:
                raise Unknown("statement " + ast.unparse(st)[:40])

    def call(self, fn_node, env=None):
        """value returned by the function body (None when it falls off the end)"""
        env = dict(env or {})
        try:
            self.run(fn_node.body, env)
        except _Return as r:
            return r.value
        return None

"""Ownership classes and the inventory of writes to process-wide state.

shared classes: least fixpoint of "instances are stored into something process-wide"
(module-level variables, class attributes, class-level containers, fields of shared
instances, @registry classes).  Everything else whose instances are created inside a
call and never stored into shared state is per-call.
"""
import ast

from .index import iter_own_nodes
from .taint import MUTATORS, Taint


class Heap:
    def __init__(self, ctx):
        self.ctx = ctx
        self.ix = ctx.ix
        self.ti = ctx.ti
        self.cg = ctx.cg
        self.shared = {}   # classkey -> reason
        self._classify()
        self._containers()

    # ------------------------------------------------------------------
    def _inst(self, types):
        return {t[2:] for t in types if isinstance(t, str) and t.startswith("C:")}

    def _classify(self):
        ix, ti = self.ix, self.ti
        # seeds
        for m in ix.modules.values():
            for name, vals in m.assigns.items():
                for t in self._inst(ti.var.get((m.toplevel.key, name), set())):
                    self.shared.setdefault(t, "module-level variable %s.%s" % (m.name, name))
        for c in ix.classes.values():
            if self.cg.class_decorators.get(c.key):
                self.shared.setdefault(c.key, "class decorator %s caches instances" % self.cg.class_decorators[c.key][0].name)
            for a, v in c.attrs.items():
                if v is None:
                    continue
                for t in self._inst(ti.type_of(v, c.module.toplevel)):
                    self.shared.setdefault(t, "class attribute %s.%s" % (c.name, a))
        changed = True
        while changed:
            changed = False
            # stores through K: receivers (cls.x = ..) and fields/elems of shared instances
            for (ck, attr), types in list(ti.field.items()):
                holder_shared = ck in self.shared
                for t in self._inst(types):
                    if t in self.shared:
                        continue
                    if holder_shared or self._is_class_level_store(ck, attr):
                        self.shared[t] = "stored in field %s.%s of a shared object" % (ck.split(":")[1], attr)
                        changed = True
            for key, types in list(ti.elem.items()):
                if isinstance(key, tuple) and key and key[0] == "field":
                    _, ck, attr = key
                    c = ix.classes.get(ck)
                    class_level = c is not None and any(attr in k.attrs for k in c.mro())
                    if ck in self.shared or class_level:
                        for t in self._inst(types):
                            if t not in self.shared:
                                self.shared[t] = "stored in container %s.%s (%s)" % (
                                    ck.split(":")[1], attr, "class-level" if class_level else "field of shared object")
                                changed = True
            # subclasses of shared classes that are instantiated through the same paths are not implied

    def _is_class_level_store(self, ck, attr):
        """the field is (also) assigned through the class object: cls.attr = ..."""
        c = self.ix.classes.get(ck)
        if c is None:
            return False
        for f in c.methods.values():
            if f.kind() != "class":
                continue
            for n in iter_own_nodes(f.node):
                if isinstance(n, ast.Assign):
                    for t in n.targets:
                        if isinstance(t, ast.Attribute) and t.attr == attr and isinstance(t.value, ast.Name) and t.value.id == f.params()[0]:
                            return True
        return False

    # ------------------------------------------------------------------
    def _containers(self):
        """taint: expressions that may denote a process-wide mutable container / object"""
        ix = self.ix

        def class_level_attr(e, f):
            # Cls.attr / cls.attr / self.attr where attr is a class-level container literal
            if not isinstance(e, ast.Attribute):
                return False
            for t in self.ti.type_of(e.value, f):
                if isinstance(t, str) and t[:2] in ("C:", "K:"):
                    c = ix.classes.get(t[2:])
                    for k in (c.mro() if c else []):
                        v = k.attrs.get(e.attr)
                        if isinstance(v, (ast.Dict, ast.List, ast.Set)) or (
                                isinstance(v, ast.Call) and ast.unparse(v.func) in ("dict", "list", "set", "OrderedDict", "collections.OrderedDict")):
                            # overwritten per instance in __init__? then it is an instance field
                            if not self._instance_rebinds(c, e.attr):
                                return True
            return False

        def is_source(e, f):
            if class_level_attr(e, f):
                return True
            # any attribute of a shared instance that holds a container
            if isinstance(e, ast.Attribute):
                for t in self.ti.type_of(e.value, f):
                    if isinstance(t, str) and t.startswith("C:") and t[2:] in self.shared:
                        ft = set()
                        c = ix.classes.get(t[2:])
                        for k in (c.mro() + c.all_subclasses()) if c else []:
                            ft |= self.ti.field.get((k.key, e.attr), set())
                        if ft & {"X:list", "X:dict", "X:set"}:
                            return True
            # module-level containers
            if isinstance(e, ast.Name):
                ent = ix.lookup_module_attr(f.module, e.id)
                if isinstance(ent, tuple) and ent[0] == "var":
                    g = f
                    while g is not None:
                        if g.qual != "<module>" and (e.id in g.params() or e.id in getattr(g, "_sa_assigned", ())):
                            return False
                        g = g.parent
                    vals = ent[1].assigns.get(ent[2], [])
                    if any(isinstance(v, (ast.Dict, ast.List, ast.Set)) for v in vals):
                        return True
            return False

        self.container_taint = Taint(self.ctx, is_source, through_iter=False)

    def _instance_rebinds(self, c, attr):
        init = c.find_method("__init__")
        if init is None:
            return False
        for n in iter_own_nodes(init.node):
            if isinstance(n, ast.Assign):
                for t in n.targets:
                    if isinstance(t, ast.Attribute) and t.attr == attr and isinstance(t.value, ast.Name) and t.value.id == "self":
                        return True
        return False

    # ------------------------------------------------------------------
    def receiver_shared(self, e, f):
        """why the object denoted by expression e is process-wide, or None"""
        for t in self.ti.type_of(e, f):
            if isinstance(t, str) and t.startswith("C:") and t[2:] in self.shared:
                return "instance of shared class %s (%s)" % (t[2:].split(":")[1], self.shared[t[2:]])
            if isinstance(t, str) and t.startswith("K:"):
                return "class object %s" % t[2:].split(":")[1]
        if self.container_taint.tainted(e, f):
            return "process-wide container"
        return None

    def writes(self, funcs):
        """inventory: (func, node, kind, target text, why shared) for writes to shared state"""
        out = []
        for fk in sorted(funcs):
            f = self.ix.funcs[fk]
            for n in iter_own_nodes(f.node):
                if isinstance(n, (ast.Assign, ast.AugAssign, ast.AnnAssign)):
                    tgs = n.targets if isinstance(n, ast.Assign) else [n.target]
                    flat = []
                    for t in tgs:
                        flat += list(t.elts) if isinstance(t, (ast.Tuple, ast.List)) else [t]
                    for t in flat:
                        if isinstance(t, ast.Attribute):
                            why = self.receiver_shared(t.value, f)
                            if why:
                                out.append((f, n, "attr", ast.unparse(t), why))
                        elif isinstance(t, ast.Subscript):
                            why = self.receiver_shared(t.value, f)
                            if why:
                                out.append((f, n, "item", ast.unparse(t), why))
                        elif isinstance(t, ast.Name) and isinstance(n, ast.Assign):
                            # assignment to a declared global
                            if any(isinstance(g, ast.Global) and t.id in g.names for g in iter_own_nodes(f.node)):
                                out.append((f, n, "global", t.id, "module global"))
                elif isinstance(n, ast.Delete):
                    for t in n.targets:
                        if isinstance(t, (ast.Subscript, ast.Attribute)):
                            why = self.receiver_shared(t.value, f)
                            if why:
                                out.append((f, n, "del", ast.unparse(t), why))
                elif isinstance(n, ast.Call) and isinstance(n.func, ast.Attribute) and n.func.attr in MUTATORS:
                    why = self.receiver_shared(n.func.value, f)
                    if why and why != None:
                        rt = self.ti.type_of(n.func.value, f)
                        # str.replace/str methods are not mutators; MUTATORS holds only container mutators
                        out.append((f, n, "call", ast.unparse(n.func), why))
                elif isinstance(n, ast.Call) and isinstance(n.func, ast.Name) and n.func.id == "setattr" and len(n.args) == 3:
                    why = self.receiver_shared(n.args[0], f)
                    if why:
                        out.append((f, n, "setattr", ast.unparse(n), why))
        return out

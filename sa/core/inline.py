"""Undo "extract function" for functions the rule instances were never confirmed against.

The rules read the functions of the pinned tree (sa/known_functions.json).  When the tree contains a NEW function and a known function
calls it as a whole statement (`x = h(..)`, `return h(..)`, `h(..)`), the call is replaced - in an in-memory overlay, never on disk - by
the body of h with its parameters substituted, its locals renamed and its `return`s turned into the assignment / return / expression the
call site wanted.  The rules then see the logic where they expect it.  This can only turn "cannot decide" into "decided": findings located
in a function that was rewritten here are still withdrawn as ANALYSIS-ERROR unless they are positive (core/unconfirmed.py).

Not inlined (left as they are): generators, decorated functions other than static/classmethod, *args/**kwargs, recursion, functions with
nested defs, returns inside `with`/nested loops, loops that mix `return` with `break`/`else`, calls buried inside larger expressions
(except helpers that consist of lets and one return expression, which are substituted as expressions).
"""
import ast
import copy

from .unconfirmed import new_function_keys


class NotInlinable(Exception):
    pass


def _own_walk(node):
    """walk without entering nested function/class definitions"""
    todo = list(ast.iter_child_nodes(node))
    while todo:
        n = todo.pop()
        yield n
        if not isinstance(n, (ast.FunctionDef, ast.AsyncFunctionDef, ast.ClassDef, ast.Lambda)):
            todo.extend(ast.iter_child_nodes(n))


def _contains_return(st):
    return isinstance(st, ast.Return) or any(isinstance(n, ast.Return) for n in _own_walk(st))


def _always_returns(stmts):
    if not stmts:
        return False
    last = stmts[-1]
    if isinstance(last, (ast.Return, ast.Raise)):
        return True
    if isinstance(last, ast.If):
        return _always_returns(last.body) and _always_returns(last.orelse)
    if isinstance(last, ast.Try):
        return not last.finalbody and _always_returns(last.body + last.orelse) and all(_always_returns(h.body) for h in last.handlers)
    return False


def _convert(stmts, sink, in_loop=False):
    """statement list with `return e` replaced by sink(e) (+ break inside the one loop we are allowed to be in); the statements after a
    branch that returned become the other branch.  -> (new statements, terminated?)"""
    out = []
    for i, st in enumerate(stmts):
        rest = stmts[i + 1:]
        if isinstance(st, ast.Return):
            out += sink(st.value)
            if in_loop:
                out.append(ast.Break())
            return out, True
        if isinstance(st, ast.Raise):
            out.append(st)
            return out, True
        if not _contains_return(st):
            out.append(st)
            continue
        if isinstance(st, ast.If):
            bt, ot = _always_returns(st.body), _always_returns(st.orelse)
            if in_loop:
                b, _ = _convert(st.body, sink, True)
                o, _ = _convert(st.orelse, sink, True) if st.orelse else ([], False)
                out.append(ast.If(test=st.test, body=b or [ast.Pass()], orelse=o))
                continue
            if bt and ot:
                b, _ = _convert(st.body, sink)
                o, _ = _convert(st.orelse, sink)
                out.append(ast.If(test=st.test, body=b or [ast.Pass()], orelse=o))
                return out, True
            if bt:
                b, _ = _convert(st.body, sink)
                o, term = _convert(list(st.orelse) + list(rest), sink)
                out.append(ast.If(test=st.test, body=b or [ast.Pass()], orelse=o))
                return out, term
            if ot:
                o, _ = _convert(st.orelse, sink)
                b, term = _convert(list(st.body) + list(rest), sink)
                out.append(ast.If(test=st.test, body=b or [ast.Pass()], orelse=o))
                return out, term
            raise NotInlinable("return in a branch that may fall through")
        if isinstance(st, ast.Try):
            if st.finalbody and any(_contains_return(x) for x in st.finalbody):
                raise NotInlinable("return in finally")
            if in_loop:
                raise NotInlinable("try with return inside a loop")
            body_term = _always_returns(st.body + st.orelse)
            b, _ = _convert(list(st.body), sink)
            oe, _ = _convert(list(st.orelse), sink) if st.orelse else ([], False)
            hs = []
            all_term = body_term
            for h in st.handlers:
                if _always_returns(h.body):
                    hb, _ = _convert(list(h.body), sink)
                else:
                    hb, t_ = _convert(list(h.body) + list(rest), sink)
                    all_term = all_term and t_
                hs.append(ast.ExceptHandler(type=h.type, name=h.name, body=hb or [ast.Pass()]))
            if not body_term:
                if rest and any(not _always_returns(h.body) for h in st.handlers):
                    raise NotInlinable("try falls through with a continuation shared by body and handlers")
                cont, t_ = _convert(list(rest), sink)
                out.append(ast.Try(body=b, handlers=hs, orelse=oe, finalbody=st.finalbody))
                out += cont
                return out, t_
            out.append(ast.Try(body=b, handlers=hs, orelse=oe, finalbody=st.finalbody))
            return out, all_term
        if isinstance(st, (ast.For, ast.While)):
            if in_loop or st.orelse or any(isinstance(n, ast.Break) for n in _own_walk(st)):
                raise NotInlinable("loop mixes return with break/else or is nested")
            if any(isinstance(n, (ast.For, ast.While)) and _contains_return(n) for n in _own_walk(st)):
                raise NotInlinable("return inside a nested loop")
            b, _ = _convert(list(st.body), sink, True)
            cont, term = _convert(list(rest), sink)
            new = copy.copy(st)
            new.body = b
            new.orelse = cont           # runs exactly when no `return` (now: break) left the loop
            out.append(new)
            return out, term
        raise NotInlinable("return inside %s" % type(st).__name__)
    return out, False


def _convert_default_first(stmts, sink):
    """for a body that ends in `return <constant K>` and whose other returns all sit in tail position of if / with / try blocks (nothing
    but leaving those blocks happens after them): `result = K` first, then the body with every `return e` replaced by `result = e`.
    Handlers that fall through set the result back to K, which is what reaching the final return meant (a handler can run after a
    return only when leaving a `with` raised)."""
    if len(stmts) < 2 or not isinstance(stmts[-1], ast.Return):
        raise NotInlinable("no final return")
    k = stmts[-1].value if stmts[-1].value is not None else ast.Constant(value=None)
    if not isinstance(k, ast.Constant):
        raise NotInlinable("final return is not a constant")

    def conv_block(block):
        if not block:
            return []
        for st in block[:-1]:
            if _contains_return(st):
                raise NotInlinable("return not in tail position")
        return list(block[:-1]) + conv_tail(block[-1])

    def conv_tail(st):
        if isinstance(st, ast.Return):
            return sink(st.value if st.value is not None else ast.Constant(value=None))
        if not _contains_return(st):
            return [st]
        if isinstance(st, ast.If):
            return [ast.If(test=st.test, body=conv_block(st.body) or [ast.Pass()], orelse=conv_block(st.orelse))]
        if isinstance(st, ast.With):
            new = copy.copy(st)
            new.body = conv_block(st.body)
            return [new]
        if isinstance(st, ast.Try) and not st.finalbody and not st.orelse:
            hs = []
            for h in st.handlers:
                if any(_contains_return(x) for x in h.body):
                    if not _always_returns(h.body):
                        raise NotInlinable("handler returns on some paths only")
                    hb = conv_block(h.body)
                else:
                    hb = [x for x in h.body if not isinstance(x, ast.Pass)] + sink(copy.deepcopy(k))
                hs.append(ast.ExceptHandler(type=h.type, name=h.name, body=hb))
            return [ast.Try(body=conv_block(st.body), handlers=hs, orelse=[], finalbody=[])]
        raise NotInlinable("return inside %s" % type(st).__name__)
    return sink(copy.deepcopy(k)) + conv_block(list(stmts[:-1])), True


class _Rename(ast.NodeTransformer):
    def __init__(self, mapping, subst):
        self.mapping, self.subst = mapping, subst

    def visit_Name(self, node):
        if node.id in self.subst and isinstance(node.ctx, ast.Load):
            return copy.deepcopy(self.subst[node.id])
        if node.id in self.mapping:
            return ast.copy_location(ast.Name(id=self.mapping[node.id], ctx=node.ctx), node)
        return node

    def visit_ExceptHandler(self, node):
        if node.name in self.mapping:
            node.name = self.mapping[node.name]
        self.generic_visit(node)
        return node


class _Simplify(ast.NodeTransformer):
    """what substituting constant arguments makes foldable: getattr(x, 'NAME') -> x.NAME, f(**{'k': v}) -> f(k=v)"""

    def visit_Call(self, node):
        self.generic_visit(node)
        if isinstance(node.func, ast.Name) and node.func.id == "getattr" and len(node.args) == 2 and not node.keywords \
                and isinstance(node.args[1], ast.Constant) and isinstance(node.args[1].value, str) and node.args[1].value.isidentifier():
            return ast.copy_location(ast.Attribute(value=node.args[0], attr=node.args[1].value, ctx=ast.Load()), node)
        kws = []
        changed = False
        for k in node.keywords:
            if k.arg is None and isinstance(k.value, ast.Dict) and k.value.keys and all(
                    isinstance(x, ast.Constant) and isinstance(x.value, str) and x.value.isidentifier() for x in k.value.keys):
                kws += [ast.keyword(arg=x.value, value=v) for x, v in zip(k.value.keys, k.value.values)]
                changed = True
            else:
                kws.append(k)
        if changed:
            node.keywords = kws
        return node


def _fold_returns(stmts, depth=0):
    """the value returned by a block made only of returns and ifs around returns, as one (conditional) expression; None otherwise"""
    if not stmts or depth > 4:
        return None
    st = stmts[0]
    if isinstance(st, ast.Return):
        return st.value if st.value is not None else ast.Constant(value=None)
    if isinstance(st, ast.If):
        a = _fold_returns(st.body, depth + 1)
        b = _fold_returns(list(st.orelse) + list(stmts[1:]), depth + 1)
        if a is None or b is None:
            return None
        return ast.IfExp(test=st.test, body=a, orelse=b)
    return None


def _unroll_literal_loops(stmts, consts=None):
    """in a freshly written-out helper body: `T = ((A, 'x'), (B, 'y'))` + `for p, r in T: <body>` (T used nowhere else) becomes the bodies
    with p, r replaced by the elements - what the code looked like before the table-driven helper was introduced.  Only for tables of
    names / constants, loops without break / continue / else whose variables the body does not assign."""
    def plain(e):
        return isinstance(e, ast.Constant) or _simple(e)
    tables = {}
    for st in stmts:
        if isinstance(st, ast.Assign) and len(st.targets) == 1 and isinstance(st.targets[0], ast.Name) and isinstance(st.value, (ast.Tuple, ast.List)):
            tables[st.targets[0].id] = st
    uses = {}
    for st in stmts:
        for n in ast.walk(st):
            if isinstance(n, ast.Name) and n.id in tables:
                uses[n.id] = uses.get(n.id, 0) + 1
    out, drop = [], set()
    for st in stmts:
        if not isinstance(st, ast.For) or st.orelse:
            out.append(st)
            continue
        it = st.iter
        src = None
        if isinstance(it, ast.Name) and it.id in tables and uses.get(it.id) == 2:      # the binding and this loop
            src, it = it.id, tables[it.id].value
        elif isinstance(it, ast.Name) and consts and it.id in consts and it.id not in tables and isinstance(consts[it.id], (ast.Tuple, ast.List)):
            it = consts[it.id]          # a table kept in a module-level constant (bound once, see the caller)
        if not isinstance(it, (ast.Tuple, ast.List)) or not it.elts or len(it.elts) > 12:
            out.append(st)
            continue
        tg = st.target
        names = [tg.id] if isinstance(tg, ast.Name) else [e.id for e in tg.elts] if isinstance(tg, (ast.Tuple, ast.List)) and all(
            isinstance(e, ast.Name) for e in tg.elts) else None
        rows = []
        for e in it.elts:
            row = [e] if isinstance(tg, ast.Name) else list(e.elts) if isinstance(e, (ast.Tuple, ast.List)) else None
            if names is None or row is None or len(row) != len(names) or not all(plain(x) for x in row):
                rows = None
                break
            rows.append(row)
        body_nodes = [n for b_ in st.body for n in ast.walk(b_)]
        if not rows or any(isinstance(n, (ast.Break, ast.Continue)) for n in body_nodes) or any(
                isinstance(n, ast.Name) and n.id in names and isinstance(n.ctx, (ast.Store, ast.Del)) for n in body_nodes):
            out.append(st)
            continue
        # the loop variables must not be read after the loop
        later = stmts[stmts.index(st) + 1:]
        if any(isinstance(n, ast.Name) and n.id in names for l_ in later for n in ast.walk(l_)):
            out.append(st)
            continue
        for row in rows:
            sub = dict(zip(names, row))
            for b_ in st.body:
                out.append(_Rename({}, sub).visit(copy.deepcopy(b_)))
        if src:
            drop.add(id(tables[src]))
    return [x for x in out if id(x) not in drop]


def _simple(e):
    if isinstance(e, (ast.Name, ast.Constant)):
        return True
    if isinstance(e, ast.Attribute):
        return _simple(e.value)
    return False


def _prepare(h):
    """(params, defaults, body statements, set of assigned locals) of an inlinable helper, or NotInlinable"""
    node = h.node
    if not isinstance(node, ast.FunctionDef):
        raise NotInlinable("not a plain function")
    for d in node.decorator_list:
        if ast.unparse(d) not in ("staticmethod", "classmethod"):
            raise NotInlinable("decorated")
    a = node.args
    if a.vararg or a.kwarg or a.kwonlyargs or a.posonlyargs:
        raise NotInlinable("signature")
    for n in _own_walk(node):
        if isinstance(n, (ast.Yield, ast.YieldFrom, ast.Await, ast.Nonlocal)):
            raise NotInlinable("generator / nonlocal")
    if any(isinstance(n, (ast.FunctionDef, ast.AsyncFunctionDef, ast.ClassDef)) for n in ast.walk(node) if n is not node):
        raise NotInlinable("nested definitions")
    if any(isinstance(n, ast.Call) and isinstance(n.func, (ast.Name, ast.Attribute)) and ast.unparse(n.func).split(".")[-1] == node.name for n in ast.walk(node)):
        raise NotInlinable("recursive")
    body = [s for s in node.body if not (isinstance(s, ast.Expr) and isinstance(s.value, ast.Constant) and isinstance(s.value.value, str))]
    # `global X` at the top of the helper: X keeps its name; the caller (same module) gets the declaration (see _globals_of)
    gl = _globals_of(h)
    if any(isinstance(n, ast.Global) for s in body if not isinstance(s, ast.Global) for n in ast.walk(s)):
        raise NotInlinable("global declared inside a block")
    body = [s for s in body if not isinstance(s, ast.Global)]
    params = [x.arg for x in a.args]
    defaults = dict(zip(params[len(params) - len(a.defaults):], a.defaults))
    assigned = set()
    for n in _own_walk(node):
        if isinstance(n, ast.Name) and isinstance(n.ctx, (ast.Store, ast.Del)):
            assigned.add(n.id)
        elif isinstance(n, ast.ExceptHandler) and n.name:
            assigned.add(n.name)
    if gl & set(params):
        raise NotInlinable("parameter declared global")
    assigned -= gl
    return params, defaults, body, assigned


def _globals_of(h):
    return {nm for s in h.node.body if isinstance(s, ast.Global) for nm in s.names}


def _globals_in_order(h):
    return [nm for s in h.node.body if isinstance(s, ast.Global) for nm in s.names]


def _instantiate(h, call, receiver, counter, alias_to=None):
    """helper body ready to be spliced in for this call: (prologue assignments, body statements).  alias_to: names of the caller that are
    dead once the call returns (`x = h(x)`: x; `return h(x)`: every local) - a parameter the helper re-assigns may then simply BE such a
    name instead of a copy of it"""
    params, defaults, body, assigned = _prepare(h)
    args = list(call.args)
    kw = {k.arg: k.value for k in call.keywords}
    if None in kw or any(isinstance(x, ast.Starred) for x in args):
        raise NotInlinable("star arguments")
    bound = {}
    ps = list(params)
    if h.is_method() and h.kind() != "static":
        if receiver is None:
            raise NotInlinable("method called without receiver")
        bound[ps.pop(0)] = receiver
    for p, v in zip(ps, args):
        bound[p] = v
    for p in ps[len(args):]:
        if p in kw:
            bound[p] = kw[p]
        elif p in defaults:
            bound[p] = defaults[p]
        else:
            raise NotInlinable("missing argument " + p)
    if set(kw) - set(ps):
        raise NotInlinable("unknown keyword")
    suffix = "_%s%d" % (h.node.name.strip("_"), counter)
    mapping = {n: n + suffix for n in assigned}
    subst, prologue = {}, []
    def names_in(e):
        return [x.id for x in ast.walk(e) if isinstance(x, ast.Name)]
    for p, v in bound.items():
        if p not in assigned and _simple(v):
            subst[p] = v
        elif alias_to and isinstance(v, ast.Name) and (alias_to == "*" or v.id in alias_to) and v.id not in ("self", "cls") \
                and sum(names_in(w).count(v.id) for w in bound.values()) == 1:
            mapping[p] = v.id
        else:
            mapping[p] = p + suffix
            prologue.append(ast.Assign(targets=[ast.Name(id=p + suffix, ctx=ast.Store())], value=copy.deepcopy(v)))
    new_body = [_Simplify().visit(_Rename(mapping, subst).visit(copy.deepcopy(s))) for s in body]
    return prologue, new_body


def build_overlay(ctx):
    """({rel path: rewritten module text}, {keys of functions whose body was rewritten}) - empty when nothing new / nothing inlinable"""
    ix, cg = ctx.ix, ctx.cg
    new = {k for k in new_function_keys(ix) if ix.funcs[k].parent is None}
    if not new:
        return {}, set()
    # call node id -> helper, for calls that resolve to exactly one new function
    target = {}
    for fk, sites in cg.sites.items():
        for s in sites:
            if isinstance(s.node, ast.Call) and len(s.callees) == 1 and s.callees[0].key in new:
                target[id(s.node)] = s.callees[0]
    if not target:
        return {}, set()
    touched = set()
    counter = [0]
    pending_globals = {}
    in_try = {}

    def receiver_of(call):
        f_ = call.func
        if isinstance(f_, ast.Attribute) and isinstance(f_.value, ast.Name) and f_.value.id in ("self", "cls"):
            return f_.value
        return None

    def splice(st, owner):
        """replacement statement list for statement st, or None"""
        call, kind = None, None
        if isinstance(st, ast.Assign) and isinstance(st.value, ast.Call) and id(st.value) in target and len(st.targets) == 1:
            call, kind = st.value, "assign"
        elif isinstance(st, ast.Return) and isinstance(st.value, ast.Call) and id(st.value) in target:
            call, kind = st.value, "return"
        elif isinstance(st, ast.Expr) and isinstance(st.value, ast.Call) and id(st.value) in target:
            call, kind = st.value, "expr"
        if call is None:
            return None
        h = target[id(call)]
        if h.key == owner.key:
            return None
        gl = _globals_of(h)
        if gl:
            # the names must mean the same module's globals in the caller, and the caller must not use them as locals
            if h.module is not owner.module or not isinstance(owner.node, ast.FunctionDef) or owner.parent is not None:
                return None
            declared = {nm for s_ in owner.node.body if isinstance(s_, ast.Global) for nm in s_.names} | set(pending_globals.get(owner.key, []))
            local_use = {n.id for n in _own_walk(owner.node) if isinstance(n, ast.Name) and isinstance(n.ctx, (ast.Store, ast.Del))} | set(owner.params())
            if (gl - declared) & local_use:
                return None
            pending_globals.setdefault(owner.key, [])
            pending_globals[owner.key] += [g_ for g_ in _globals_in_order(h) if g_ not in declared and g_ not in pending_globals[owner.key]]
        alias_to = None
        if id(st) not in in_try.setdefault(owner.key, {id(x) for t_ in _own_walk(owner.node) if isinstance(t_, ast.Try) for x in ast.walk(t_)}):
            local_names = {n.id for n in _own_walk(owner.node) if isinstance(n, ast.Name) and isinstance(n.ctx, ast.Store)} | set(owner.params())
            declared_gl = {nm for s_ in owner.node.body if isinstance(s_, ast.Global) for nm in s_.names}
            if kind == "assign" and isinstance(st.targets[0], ast.Name) and st.targets[0].id in local_names - declared_gl:
                alias_to = {st.targets[0].id}
            elif kind == "return":
                alias_to = local_names - declared_gl - {"self", "cls"}
        try:
            counter[0] += 1
            pro, body = _instantiate(h, call, receiver_of(call), counter[0], alias_to)
            if kind == "return":
                out = pro + body
                if not _always_returns(body):
                    out.append(ast.Return(value=ast.Constant(value=None)))
            else:
                if kind == "assign":
                    tgt = st.targets[0]
                    def sink(e, tgt=tgt):
                        e = e if e is not None else ast.Constant(value=None)
                        # `a, b = (x, y)` written as `a = x`, `b = y` when no target is read by another element
                        if isinstance(tgt, ast.Tuple) and isinstance(e, ast.Tuple) and len(tgt.elts) == len(e.elts) \
                                and all(isinstance(t_, ast.Name) for t_ in tgt.elts):
                            names = [t_.id for t_ in tgt.elts]
                            clash = any(isinstance(x, ast.Name) and x.id in names and x.id != names[i]
                                        for i, v_ in enumerate(e.elts) for x in ast.walk(v_))
                            if not clash and len(set(names)) == len(names):
                                return [ast.Assign(targets=[copy.deepcopy(t_)], value=v_) for t_, v_ in zip(tgt.elts, e.elts)]
                        return [ast.Assign(targets=[copy.deepcopy(tgt)], value=e)]
                else:
                    sink = lambda e: [ast.Expr(value=e)] if e is not None else []
                try:
                    conv, term = _convert(body, sink)
                except NotInlinable:
                    # the result is assigned up front: nothing in the helper may read the variable it goes to
                    tnames = {x.id for t_ in (st.targets if kind == "assign" else []) for x in ast.walk(t_) if isinstance(x, ast.Name)}
                    if tnames & {x.id for b_ in pro + body for x in ast.walk(b_) if isinstance(x, ast.Name)}:
                        raise
                    conv, term = _convert_default_first(body, sink)
                if not term and kind == "assign":
                    conv = conv + sink(None)
                out = pro + conv
        except NotInlinable:
            return None
        mconsts = {k_: v_[0] for k_, v_ in owner.module.assigns.items() if len(v_) == 1}
        local_names = {n.id for x in out for n in ast.walk(x) if isinstance(n, ast.Name) and isinstance(n.ctx, ast.Store)}
        mconsts = {k_: v_ for k_, v_ in mconsts.items() if k_ not in local_names}
        out = [x for x in _unroll_literal_loops(out, mconsts) if not (isinstance(x, ast.Assign) and len(x.targets) == 1 and isinstance(x.targets[0], ast.Name)
                                                          and isinstance(x.value, ast.Name) and x.value.id == x.targets[0].id)]
        for x in out:
            ast.copy_location(x, st)
            for y in ast.walk(x):
                if not hasattr(y, "lineno"):
                    ast.copy_location(y, st)
        return out or [ast.Pass()]

    def hoist(st, owner):
        """`x = a + h(..)` -> `t = h(..)`, `x = a + t` when h is a statement-bodied new helper whose call is evaluated unconditionally and
        everything the statement evaluates before it is a local name or a constant (so evaluating the call first changes nothing)"""
        fld = "test" if isinstance(st, ast.If) else "value"
        if not isinstance(st, (ast.Assign, ast.AugAssign, ast.Return, ast.Expr, ast.If)) or getattr(st, fld) is None:
            return None
        top = getattr(st, fld)
        found = []

        def visit(e, safe):
            """walk in evaluation order; `safe` = nothing with an effect or a heap read was evaluated before"""
            if isinstance(e, ast.Call) and id(e) in target and (e is not top or fld == "test"):
                if safe and expr_template(target[id(e)]) is None and target[id(e)].key != owner.key:
                    found.append(e)
                return False
            if isinstance(e, (ast.Name, ast.Constant)):
                return safe
            if isinstance(e, ast.BinOp):
                s1 = visit(e.left, safe)
                return visit(e.right, s1)
            if isinstance(e, ast.UnaryOp):
                return visit(e.operand, safe)
            if isinstance(e, ast.Yield) and e.value is not None and e is top:
                visit(e.value, safe)
                return False
            if isinstance(e, ast.BoolOp):
                visit(e.values[0], safe)        # only the first operand is evaluated whatever the others are
                return False
            if isinstance(e, (ast.Tuple, ast.List)):
                for x in e.elts:
                    safe = visit(x, safe)
                return safe
            if isinstance(e, ast.Call) and not any(isinstance(a_, ast.Starred) for a_ in e.args) and all(k.arg for k in e.keywords):
                if isinstance(e.func, ast.Attribute):
                    safe = visit(e.func.value, safe)
                elif not isinstance(e.func, ast.Name):
                    return False
                for x in list(e.args) + [k.value for k in e.keywords]:
                    safe = visit(x, safe)
                return False            # the call itself may do anything: nothing after it is hoisted
            return False
        visit(top, True)
        if len(found) != 1:
            return None
        call = found[0]
        counter[0] += 1
        tmp = "_%s_value%d" % (target[id(call)].node.name.strip("_"), counter[0])
        new_call = ast.Call(func=call.func, args=call.args, keywords=call.keywords)
        ast.copy_location(new_call, call)
        target[id(new_call)] = target[id(call)]
        pre = ast.copy_location(ast.Assign(targets=[ast.Name(id=tmp, ctx=ast.Store())], value=new_call), st)

        class Repl(ast.NodeTransformer):
            def visit_Call(self, node):
                if node is call:
                    return ast.copy_location(ast.Name(id=tmp, ctx=ast.Load()), node)
                return self.generic_visit(node)
        setattr(st, fld, Repl().visit(top))
        return [pre, st]

    def rewrite_block(stmts, owner):
        changed = False
        out = []
        work = list(stmts)
        stmts = []
        for st in work:
            h2 = hoist(st, owner)
            if h2:
                stmts += h2
                changed = True
            else:
                stmts.append(st)
        for st in stmts:
            rep = splice(st, owner)
            if rep is not None:
                out += rep
                changed = True
                continue
            for fld in ("body", "orelse", "finalbody"):
                sub = getattr(st, fld, None)
                if isinstance(sub, list) and sub and isinstance(sub[0], ast.stmt) and not isinstance(st, (ast.FunctionDef, ast.AsyncFunctionDef, ast.ClassDef)):
                    nb, ch = rewrite_block(sub, owner)
                    if ch:
                        setattr(st, fld, nb)
                        changed = True
            if isinstance(st, ast.Try):
                for h_ in st.handlers:
                    nb, ch = rewrite_block(h_.body, owner)
                    if ch:
                        h_.body = nb
                        changed = True
            out.append(st)
        return out, changed

    def expr_template(h):
        """(params, expression) of a helper that is lets + one `return <expr>`, else None"""
        try:
            params, defaults, body, assigned = _prepare(h)
        except NotInlinable:
            return None
        # guard clauses (`if c: return A` ... `return B`, `if c: return A else: return B`) are one conditional expression
        k_ = 0
        while k_ < len(body) and isinstance(body[k_], ast.Assign):
            k_ += 1
        if k_ < len(body) - 1 or (body and isinstance(body[-1], ast.If)):
            folded = _fold_returns(body[k_:])
            if folded is None:
                return None
            body = body[:k_] + [ast.Return(value=folded)]
        lets = body[:-1]
        if not body or not isinstance(body[-1], ast.Return) or body[-1].value is None or len(lets) > 3 or not all(
                isinstance(l_, ast.Assign) and len(l_.targets) == 1 and isinstance(l_.targets[0], ast.Name) for l_ in lets):
            return None
        if len({l_.targets[0].id for l_ in lets}) != len(lets) or any(l_.targets[0].id in params for l_ in lets):
            return None
        return params, defaults, lets, body[-1].value

    class _ExprInline(ast.NodeTransformer):
        def __init__(self, owner):
            self.owner, self.changed = owner, False

        def visit_FunctionDef(self, node):
            return node if node is not self.owner.node else self.generic_visit(node)

        def visit_Lambda(self, node):
            return node

        def visit_Call(self, node):
            self.generic_visit(node)
            h = target.get(id(node))
            if h is None or h.key == self.owner.key:
                return node
            tpl = expr_template(h)
            if tpl is None or any(isinstance(a_, ast.Starred) for a_ in node.args) or any(k.arg is None for k in node.keywords):
                return node
            params, defaults, lets, expr = tpl
            ps = list(params)
            m = {}
            if h.is_method() and h.kind() != "static":
                rc = receiver_of(node)
                if rc is None:
                    return node
                m[ps.pop(0)] = rc
            for p_, v_ in zip(ps, node.args):
                m[p_] = v_
            kw = {k.arg: k.value for k in node.keywords}
            for p_ in ps[len(node.args):]:
                if p_ in kw:
                    m[p_] = kw[p_]
                elif p_ in defaults:
                    m[p_] = defaults[p_]
                else:
                    return node
            # an argument that is not a plain name/constant/attribute is evaluated once by the call; substituting it is only the same
            # when the parameter is used at most once
            for p_, v_ in m.items():
                uses = sum(1 for x in ast.walk(expr) if isinstance(x, ast.Name) and x.id == p_) + sum(
                    1 for l_ in lets for x in ast.walk(l_.value) if isinstance(x, ast.Name) and x.id == p_)
                if not _simple(v_) and uses > 1:
                    return node
            sub = dict(m)
            # names the helper's expression binds itself (comprehension variables) must not capture names of the arguments
            counter[0] += 1
            let_names = {l_.targets[0].id for l_ in lets}
            bound_here = {x.id for y in [expr] + [l_.value for l_ in lets] for x in ast.walk(y)
                          if isinstance(x, ast.Name) and isinstance(x.ctx, ast.Store)} - let_names
            if bound_here & set(m):
                return node
            ren = {b_: "%s_%s%d" % (b_, h.node.name.strip("_"), counter[0]) for b_ in bound_here}
            for l_ in lets:
                sub[l_.targets[0].id] = _Rename(ren, sub).visit(copy.deepcopy(l_.value))
            self.changed = True
            return ast.copy_location(_Simplify().visit(_Rename(ren, sub).visit(copy.deepcopy(expr))), node)

    def tail_if(f):
        """the function ends in `if [not] h(..): B [else: O]` with h a statement-bodied new helper: h's body is written out with every
        `return e` replaced by the branch e selects followed by `return` - the flag-free form of the same control flow (what the code
        looked like before a predicate-with-side-effects was extracted)"""
        body = f.node.body
        if not body or not isinstance(body[-1], ast.If):
            return False
        st = body[-1]
        neg = isinstance(st.test, ast.UnaryOp) and isinstance(st.test.op, ast.Not)
        call = st.test.operand if neg else st.test
        if not (isinstance(call, ast.Call) and id(call) in target):
            return False
        h = target[id(call)]
        if h.key == f.key or expr_template(h) is not None:
            return False
        if any(isinstance(n, (ast.Return, ast.Yield, ast.YieldFrom)) for b_ in (st.body, st.orelse) for x in b_ for n in ast.walk(x)):
            return False
        if any(isinstance(n, ast.Return) and n.value is not None for n in _own_walk(f.node)):
            return False            # the function must return None on every path for `return` to stand for "falls off the end"
        gl = _globals_of(h)
        if gl:
            if h.module is not f.module or f.parent is not None:
                return False
            declared = {nm for s_ in body if isinstance(s_, ast.Global) for nm in s_.names}
            local_use = {n.id for n in _own_walk(f.node) if isinstance(n, ast.Name) and isinstance(n.ctx, (ast.Store, ast.Del))} | set(f.params())
            if (gl - declared) & local_use:
                return False
        try:
            counter[0] += 1
            pro, hb = _instantiate(h, call, receiver_of(call), counter[0])
        except NotInlinable:
            return False
        def cont(e):
            if isinstance(e, ast.Constant):
                truth = bool(e.value) != neg
                return [copy.deepcopy(x) for x in (st.body if truth else st.orelse)]
            t = ast.UnaryOp(op=ast.Not(), operand=e) if neg else e
            return [ast.If(test=t, body=[copy.deepcopy(x) for x in st.body], orelse=[copy.deepcopy(x) for x in st.orelse])]

        def conv(stmts, guarded=False):
            out = []
            for x in stmts:
                if isinstance(x, ast.Return):
                    branch = cont(x.value if x.value is not None else ast.Constant(value=None))
                    if branch and guarded:
                        # the caller's branch would run inside the helper's try / with: its exceptions would meet the helper's handlers
                        raise NotInlinable("branch code would move under the helper's try/with")
                    out += branch + [ast.Return(value=None)]
                    continue
                g2 = guarded or isinstance(x, (ast.Try, ast.With))
                for fld in ("body", "orelse", "finalbody"):
                    sub = getattr(x, fld, None)
                    if isinstance(sub, list) and sub and isinstance(sub[0], ast.stmt):
                        setattr(x, fld, conv(sub, g2))
                if isinstance(x, ast.Try):
                    for h_ in x.handlers:
                        h_.body = conv(h_.body, g2)
                out.append(x)
            return out
        try:
            new = pro + conv(hb)
        except NotInlinable:
            return False
        if gl:
            pending_globals.setdefault(f.key, [])
            pending_globals[f.key] += [g_ for g_ in _globals_in_order(h) if g_ not in declared and g_ not in pending_globals[f.key]]
        if not _always_returns(hb):
            new += cont(ast.Constant(value=None))
        # copies of B made for several return sites: their calls of new helpers stay known to the later passes
        orig = {}
        for b_ in (st.body, st.orelse):
            for x in b_:
                for n in ast.walk(x):
                    if isinstance(n, ast.Call) and id(n) in target:
                        orig.setdefault(ast.dump(n), target[id(n)])
        for x in new:
            for n in ast.walk(x):
                if isinstance(n, ast.Call) and id(n) not in target and ast.dump(n) in orig:
                    target[id(n)] = orig[ast.dump(n)]
        for x in new:
            ast.copy_location(x, st)
            for y in ast.walk(x):
                if not hasattr(y, "lineno"):
                    ast.copy_location(y, st)
        if new and isinstance(new[-1], ast.Return) and new[-1].value is None:
            new = new[:-1]          # falling off the end says the same
        f.node.body = body[:-1] + (new or [ast.Pass()])
        return True

    by_module = {}
    for fk, f in list(ix.funcs.items()):
        if f.qual == "<module>":
            # import-time code: only one-expression helpers are written out
            if any(id(n) in target for n in _own_walk(f.node)):
                ei = _ExprInline(f)
                ei.visit(f.node)
                if ei.changed:
                    touched.add(fk)
                    by_module[f.module.rel] = f.module
            continue
        if isinstance(f.node, ast.Lambda) or f.qual == "<module>" or not isinstance(f.node, ast.FunctionDef):
            continue
        if not any(id(n) in target for n in _own_walk(f.node)):
            continue
        tailed = tail_if(f)
        nb, ch = rewrite_block(f.node.body, f)          # the index's trees are private to this run: edited in place
        if pending_globals.get(fk):
            k_ = 1 if nb and isinstance(nb[0], ast.Expr) and isinstance(nb[0].value, ast.Constant) and isinstance(nb[0].value.value, str) else 0
            nb = nb[:k_] + [ast.Global(names=list(pending_globals[fk]))] + nb[k_:]
        f.node.body = nb
        ei = _ExprInline(f)
        ei.visit(f.node)
        ch = ch or ei.changed or tailed
        if ch:
            touched.add(fk)
            by_module[f.module.rel] = f.module
    # a helper every call of which was written out, and whose name occurs nowhere else, is dead: it is left out of the overlay (as a
    # separate function it would only be an extra, caller-less caller of whatever it calls)
    if by_module:
        used = {}
        for m in ix.modules.values():
            for n in ast.walk(m.tree):
                if isinstance(n, ast.Name):
                    used[n.id] = used.get(n.id, 0) + 1
                elif isinstance(n, ast.Attribute):
                    used[n.attr] = used.get(n.attr, 0) + 1
                elif isinstance(n, ast.Constant) and isinstance(n.value, str) and n.value.isidentifier():
                    used[n.value] = used.get(n.value, 0) + 1        # getattr(obj, "name")
                elif isinstance(n, ast.alias):
                    used[n.name.split(".")[-1]] = used.get(n.name.split(".")[-1], 0) + 1
        for k in sorted(new):
            h = ix.funcs[k]
            nm = h.node.name
            if used.get(nm, 0) or not nm.startswith("_") or nm.startswith("__"):
                continue
            holder = h.cls.node.body if h.cls is not None else h.module.tree.body
            if h.node in holder:
                holder.remove(h.node)
                if not holder:
                    holder.append(ast.Pass())
                by_module[h.module.rel] = h.module
    def _fill_empty_bodies(tree):
        for n in ast.walk(tree):
            for fld in ("body",):
                blk = getattr(n, fld, None)
                if isinstance(blk, list) and not blk and isinstance(n, (ast.If, ast.For, ast.While, ast.With, ast.Try, ast.FunctionDef, ast.ClassDef, ast.ExceptHandler)):
                    blk.append(ast.Pass())
    overlay = {}
    for rel, m in by_module.items():

        tree = m.tree if hasattr(m, "tree") else ctx.repo.ast(rel)
        _fill_empty_bodies(tree)
        ast.fix_missing_locations(tree)
        overlay[rel] = ast.unparse(tree) + "\n"
    return overlay, touched

"""Undo "extract function" for functions the rule instances were never confirmed against.

The rules read the functions of the pinned tree (sa/known_functions.json).  When the tree contains a NEW function and a known function
calls it as a whole statement (`x = h(..)`, `return h(..)`, `h(..)`), the call is replaced - in an in-memory overlay, never on disk - by
the body of h with its parameters substituted, its locals renamed and its `return`s turned into the assignment / return / expression the
call site wanted.  The rules then see the logic where they expect it.  This can only turn "cannot decide" into "decided": findings located
in a function that was rewritten here are still withdrawn as ANALYSIS-ERROR unless they are positive (core/unconfirmed.py).

Not inlined (left as they are): generators, decorated functions other than static/classmethod, *args/**kwargs, recursion, functions with
nested defs, returns inside `with`/nested loops, loops that mix `return` with `break`/`else`, calls buried inside larger expressions
(except helpers that consist of lets and one return expression, which are substituted as expressions).
"""
import ast
import copy

from .unconfirmed import new_function_keys


class NotInlinable(Exception):
    pass


def _own_walk(node):
    """walk without entering nested function/class definitions"""
    todo = list(ast.iter_child_nodes(node))
    while todo:
        n = todo.pop()
        yield n
        if not isinstance(n, (ast.FunctionDef, ast.AsyncFunctionDef, ast.ClassDef, ast.Lambda)):
            todo.extend(ast.iter_child_nodes(n))


def _contains_return(st):
    return isinstance(st, ast.Return) or any(isinstance(n, ast.Return) for n in _own_walk(st))


def _always_returns(stmts):
    if not stmts:
        return False
    last = stmts[-1]
    if isinstance(last, (ast.Return, ast.Raise)):
        return True
    if isinstance(last, ast.If):
        return _always_returns(last.body) and _always_returns(last.orelse)
    if isinstance(last, ast.Try):
        return not last.finalbody and _always_returns(last.body + last.orelse) and all(_always_returns(h.body) for h in last.handlers)
    return False


def _convert(stmts, sink, in_loop=False):
    """statement list with `return e` replaced by sink(e) (+ break inside the one loop we are allowed to be in); the statements after a
    branch that returned become the other branch.  -> (new statements, terminated?)"""
    out = []
    for i, st in enumerate(stmts):
        rest = stmts[i + 1:]
        if isinstance(st, ast.Return):
            out += sink(st.value)
            if in_loop:
                out.append(ast.Break())
            return out, True
        if isinstance(st, ast.Raise):
            out.append(st)
            return out, True
        if not _contains_return(st):
            out.append(st)
            continue
        if isinstance(st, ast.If):
            bt, ot = _always_returns(st.body), _always_returns(st.orelse)
            if in_loop:
                b, _ = _convert(st.body, sink, True)
                o, _ = _convert(st.orelse, sink, True) if st.orelse else ([], False)
                out.append(ast.If(test=st.test, body=b or [ast.Pass()], orelse=o))
                continue
            if bt and ot:
                b, _ = _convert(st.body, sink)
                o, _ = _convert(st.orelse, sink)
                out.append(ast.If(test=st.test, body=b, orelse=o))
                return out, True
            if bt:
                b, _ = _convert(st.body, sink)
                o, term = _convert(list(st.orelse) + list(rest), sink)
                out.append(ast.If(test=st.test, body=b, orelse=o))
                return out, term
            if ot:
                o, _ = _convert(st.orelse, sink)
                b, term = _convert(list(st.body) + list(rest), sink)
                out.append(ast.If(test=st.test, body=b, orelse=o))
                return out, term
            raise NotInlinable("return in a branch that may fall through")
        if isinstance(st, ast.Try):
            if st.finalbody and any(_contains_return(x) for x in st.finalbody):
                raise NotInlinable("return in finally")
            if in_loop:
                raise NotInlinable("try with return inside a loop")
            body_term = _always_returns(st.body + st.orelse)
            b, _ = _convert(list(st.body), sink)
            oe, _ = _convert(list(st.orelse), sink) if st.orelse else ([], False)
            hs = []
            all_term = body_term
            for h in st.handlers:
                if _always_returns(h.body):
                    hb, _ = _convert(list(h.body), sink)
                else:
                    hb, t_ = _convert(list(h.body) + list(rest), sink)
                    all_term = all_term and t_
                hs.append(ast.ExceptHandler(type=h.type, name=h.name, body=hb or [ast.Pass()]))
            if not body_term:
                if rest and any(not _always_returns(h.body) for h in st.handlers):
                    raise NotInlinable("try falls through with a continuation shared by body and handlers")
                cont, t_ = _convert(list(rest), sink)
                out.append(ast.Try(body=b, handlers=hs, orelse=oe, finalbody=st.finalbody))
                out += cont
                return out, t_
            out.append(ast.Try(body=b, handlers=hs, orelse=oe, finalbody=st.finalbody))
            return out, all_term
        if isinstance(st, (ast.For, ast.While)):
            if in_loop or st.orelse or any(isinstance(n, ast.Break) for n in _own_walk(st)):
                raise NotInlinable("loop mixes return with break/else or is nested")
            if any(isinstance(n, (ast.For, ast.While)) and _contains_return(n) for n in _own_walk(st)):
                raise NotInlinable("return inside a nested loop")
            b, _ = _convert(list(st.body), sink, True)
            cont, term = _convert(list(rest), sink)
            new = copy.copy(st)
            new.body = b
            new.orelse = cont           # runs exactly when no `return` (now: break) left the loop
            out.append(new)
            return out, term
        raise NotInlinable("return inside %s" % type(st).__name__)
    return out, False


class _Rename(ast.NodeTransformer):
    def __init__(self, mapping, subst):
        self.mapping, self.subst = mapping, subst

    def visit_Name(self, node):
        if node.id in self.subst and isinstance(node.ctx, ast.Load):
            return copy.deepcopy(self.subst[node.id])
        if node.id in self.mapping:
            return ast.copy_location(ast.Name(id=self.mapping[node.id], ctx=node.ctx), node)
        return node

    def visit_ExceptHandler(self, node):
        if node.name in self.mapping:
            node.name = self.mapping[node.name]
        self.generic_visit(node)
        return node


class _Simplify(ast.NodeTransformer):
    """what substituting constant arguments makes foldable: getattr(x, 'NAME') -> x.NAME, f(**{'k': v}) -> f(k=v)"""

    def visit_Call(self, node):
        self.generic_visit(node)
        if isinstance(node.func, ast.Name) and node.func.id == "getattr" and len(node.args) == 2 and not node.keywords \
                and isinstance(node.args[1], ast.Constant) and isinstance(node.args[1].value, str) and node.args[1].value.isidentifier():
            return ast.copy_location(ast.Attribute(value=node.args[0], attr=node.args[1].value, ctx=ast.Load()), node)
        kws = []
        changed = False
        for k in node.keywords:
            if k.arg is None and isinstance(k.value, ast.Dict) and k.value.keys and all(
                    isinstance(x, ast.Constant) and isinstance(x.value, str) and x.value.isidentifier() for x in k.value.keys):
                kws += [ast.keyword(arg=x.value, value=v) for x, v in zip(k.value.keys, k.value.values)]
                changed = True
            else:
                kws.append(k)
        if changed:
            node.keywords = kws
        return node


def _simple(e):
    if isinstance(e, (ast.Name, ast.Constant)):
        return True
    if isinstance(e, ast.Attribute):
        return _simple(e.value)
    return False


def _prepare(h):
    """(params, defaults, body statements, set of assigned locals) of an inlinable helper, or NotInlinable"""
    node = h.node
    if not isinstance(node, ast.FunctionDef):
        raise NotInlinable("not a plain function")
    for d in node.decorator_list:
        if ast.unparse(d) not in ("staticmethod", "classmethod"):
            raise NotInlinable("decorated")
    a = node.args
    if a.vararg or a.kwarg or a.kwonlyargs or a.posonlyargs:
        raise NotInlinable("signature")
    for n in _own_walk(node):
        if isinstance(n, (ast.Yield, ast.YieldFrom, ast.Await, ast.Global, ast.Nonlocal)):
            raise NotInlinable("generator / global")
    if any(isinstance(n, (ast.FunctionDef, ast.AsyncFunctionDef, ast.ClassDef)) for n in ast.walk(node) if n is not node):
        raise NotInlinable("nested definitions")
    if any(isinstance(n, ast.Call) and isinstance(n.func, (ast.Name, ast.Attribute)) and ast.unparse(n.func).split(".")[-1] == node.name for n in ast.walk(node)):
        raise NotInlinable("recursive")
    body = [s for s in node.body if not (isinstance(s, ast.Expr) and isinstance(s.value, ast.Constant) and isinstance(s.value.value, str))]
    params = [x.arg for x in a.args]
    defaults = dict(zip(params[len(params) - len(a.defaults):], a.defaults))
    assigned = set()
    for n in _own_walk(node):
        if isinstance(n, ast.Name) and isinstance(n.ctx, (ast.Store, ast.Del)):
            assigned.add(n.id)
        elif isinstance(n, ast.ExceptHandler) and n.name:
            assigned.add(n.name)
    return params, defaults, body, assigned


def _instantiate(h, call, receiver, counter):
    """helper body ready to be spliced in for this call: (prologue assignments, body statements)"""
    params, defaults, body, assigned = _prepare(h)
    args = list(call.args)
    kw = {k.arg: k.value for k in call.keywords}
    if None in kw or any(isinstance(x, ast.Starred) for x in args):
        raise NotInlinable("star arguments")
    bound = {}
    ps = list(params)
    if h.is_method() and h.kind() != "static":
        if receiver is None:
            raise NotInlinable("method called without receiver")
        bound[ps.pop(0)] = receiver
    for p, v in zip(ps, args):
        bound[p] = v
    for p in ps[len(args):]:
        if p in kw:
            bound[p] = kw[p]
        elif p in defaults:
            bound[p] = defaults[p]
        else:
            raise NotInlinable("missing argument " + p)
    if set(kw) - set(ps):
        raise NotInlinable("unknown keyword")
    suffix = "_%s%d" % (h.node.name.strip("_"), counter)
    mapping = {n: n + suffix for n in assigned}
    subst, prologue = {}, []
    for p, v in bound.items():
        if p not in assigned and _simple(v):
            subst[p] = v
        else:
            mapping[p] = p + suffix
            prologue.append(ast.Assign(targets=[ast.Name(id=p + suffix, ctx=ast.Store())], value=copy.deepcopy(v)))
    new_body = [_Simplify().visit(_Rename(mapping, subst).visit(copy.deepcopy(s))) for s in body]
    return prologue, new_body


def build_overlay(ctx):
    """({rel path: rewritten module text}, {keys of functions whose body was rewritten}) - empty when nothing new / nothing inlinable"""
    ix, cg = ctx.ix, ctx.cg
    new = {k for k in new_function_keys(ix) if ix.funcs[k].parent is None}
    if not new:
        return {}, set()
    # call node id -> helper, for calls that resolve to exactly one new function
    target = {}
    for fk, sites in cg.sites.items():
        for s in sites:
            if isinstance(s.node, ast.Call) and len(s.callees) == 1 and s.callees[0].key in new:
                target[id(s.node)] = s.callees[0]
    if not target:
        return {}, set()
    touched = set()
    counter = [0]

    def receiver_of(call):
        f_ = call.func
        if isinstance(f_, ast.Attribute) and isinstance(f_.value, ast.Name) and f_.value.id in ("self", "cls"):
            return f_.value
        return None

    def splice(st, owner):
        """replacement statement list for statement st, or None"""
        call, kind = None, None
        if isinstance(st, ast.Assign) and isinstance(st.value, ast.Call) and id(st.value) in target and len(st.targets) == 1:
            call, kind = st.value, "assign"
        elif isinstance(st, ast.Return) and isinstance(st.value, ast.Call) and id(st.value) in target:
            call, kind = st.value, "return"
        elif isinstance(st, ast.Expr) and isinstance(st.value, ast.Call) and id(st.value) in target:
            call, kind = st.value, "expr"
        if call is None:
            return None
        h = target[id(call)]
        if h.key == owner.key:
            return None
        try:
            counter[0] += 1
            pro, body = _instantiate(h, call, receiver_of(call), counter[0])
            if kind == "return":
                out = pro + body
                if not _always_returns(body):
                    out.append(ast.Return(value=ast.Constant(value=None)))
            else:
                if kind == "assign":
                    tgt = st.targets[0]
                    sink = lambda e: [ast.Assign(targets=[copy.deepcopy(tgt)], value=e if e is not None else ast.Constant(value=None))]
                else:
                    sink = lambda e: [ast.Expr(value=e)] if e is not None else []
                conv, term = _convert(body, sink)
                if not term and kind == "assign":
                    conv = conv + sink(None)
                out = pro + conv
        except NotInlinable:
            return None
        for x in out:
            ast.copy_location(x, st)
            for y in ast.walk(x):
                if not hasattr(y, "lineno"):
                    ast.copy_location(y, st)
        return out or [ast.Pass()]

    def rewrite_block(stmts, owner):
        changed = False
        out = []
        for st in stmts:
            rep = splice(st, owner)
            if rep is not None:
                out += rep
                changed = True
                continue
            for fld in ("body", "orelse", "finalbody"):
                sub = getattr(st, fld, None)
                if isinstance(sub, list) and sub and isinstance(sub[0], ast.stmt) and not isinstance(st, (ast.FunctionDef, ast.AsyncFunctionDef, ast.ClassDef)):
                    nb, ch = rewrite_block(sub, owner)
                    if ch:
                        setattr(st, fld, nb)
                        changed = True
            if isinstance(st, ast.Try):
                for h_ in st.handlers:
                    nb, ch = rewrite_block(h_.body, owner)
                    if ch:
                        h_.body = nb
                        changed = True
            out.append(st)
        return out, changed

    def expr_template(h):
        """(params, expression) of a helper that is lets + one `return <expr>`, else None"""
        try:
            params, defaults, body, assigned = _prepare(h)
        except NotInlinable:
            return None
        lets = body[:-1]
        if not body or not isinstance(body[-1], ast.Return) or body[-1].value is None or len(lets) > 3 or not all(
                isinstance(l_, ast.Assign) and len(l_.targets) == 1 and isinstance(l_.targets[0], ast.Name) for l_ in lets):
            return None
        if len({l_.targets[0].id for l_ in lets}) != len(lets) or any(l_.targets[0].id in params for l_ in lets):
            return None
        return params, defaults, lets, body[-1].value

    class _ExprInline(ast.NodeTransformer):
        def __init__(self, owner):
            self.owner, self.changed = owner, False

        def visit_FunctionDef(self, node):
            return node if node is not self.owner.node else self.generic_visit(node)

        def visit_Lambda(self, node):
            return node

        def visit_Call(self, node):
            self.generic_visit(node)
            h = target.get(id(node))
            if h is None or h.key == self.owner.key:
                return node
            tpl = expr_template(h)
            if tpl is None or any(isinstance(a_, ast.Starred) for a_ in node.args) or any(k.arg is None for k in node.keywords):
                return node
            params, defaults, lets, expr = tpl
            ps = list(params)
            m = {}
            if h.is_method() and h.kind() != "static":
                rc = receiver_of(node)
                if rc is None:
                    return node
                m[ps.pop(0)] = rc
            for p_, v_ in zip(ps, node.args):
                m[p_] = v_
            kw = {k.arg: k.value for k in node.keywords}
            for p_ in ps[len(node.args):]:
                if p_ in kw:
                    m[p_] = kw[p_]
                elif p_ in defaults:
                    m[p_] = defaults[p_]
                else:
                    return node
            # an argument that is not a plain name/constant/attribute is evaluated once by the call; substituting it is only the same
            # when the parameter is used at most once
            for p_, v_ in m.items():
                uses = sum(1 for x in ast.walk(expr) if isinstance(x, ast.Name) and x.id == p_) + sum(
                    1 for l_ in lets for x in ast.walk(l_.value) if isinstance(x, ast.Name) and x.id == p_)
                if not _simple(v_) and uses > 1:
                    return node
            sub = dict(m)
            for l_ in lets:
                sub[l_.targets[0].id] = _Rename({}, sub).visit(copy.deepcopy(l_.value))
            self.changed = True
            return ast.copy_location(_Simplify().visit(_Rename({}, sub).visit(copy.deepcopy(expr))), node)

    by_module = {}
    for fk, f in ix.funcs.items():
        if isinstance(f.node, ast.Lambda) or f.qual == "<module>" or not isinstance(f.node, ast.FunctionDef):
            continue
        if not any(id(n) in target for n in _own_walk(f.node)):
            continue
        nb, ch = rewrite_block(f.node.body, f)          # the index's trees are private to this run: edited in place
        f.node.body = nb
        ei = _ExprInline(f)
        ei.visit(f.node)
        ch = ch or ei.changed
        if ch:
            touched.add(fk)
            by_module[f.module.rel] = f.module
    overlay = {}
    for rel, m in by_module.items():
        tree = m.tree if hasattr(m, "tree") else ctx.repo.ast(rel)
        ast.fix_missing_locations(tree)
        overlay[rel] = ast.unparse(tree) + "\n"
    return overlay, touched

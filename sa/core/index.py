"""Program index: modules, classes, functions, imports, module constants."""
import ast

from .repo import AnalysisError

CODE_ROOTS = ["dateparser"]
EXTRA_FILES = ["dateparser_data/settings.py", "dateparser_data/__init__.py"]
# generated vocabulary modules are data, not code: read by sa.core.data
DATA_PREFIX = "dateparser/data/date_translation_data/"
# not reachable from the public API (DESIGN §2); still parsed, but kept out of
# resolution-by-name so that test helpers do not pollute the call graph
OUT_OF_SCOPE = (
    "dateparser/languages/validation.py",
    "dateparser/custom_language_detection/fasttext.py",
    "dateparser/custom_language_detection/langdetect.py",
)


def modname(rel):
    m = rel[:-3].replace("/", ".")
    if m.endswith(".__init__"):
        m = m[: -len(".__init__")]
    return m


class Func:
    def __init__(self, module, qual, node, cls=None, parent=None):
        self.module = module
        self.qual = qual  # e.g. "_DateLocaleParser._try_parser", "a.<locals>.b"
        self.node = node
        self.cls = cls  # ClassInfo or None (for nested functions: class of the parent)
        self.parent = parent  # enclosing Func or None
        self.children = {}  # nested function name -> Func
        self.lambdas = []
        self.is_generator = False

    @property
    def name(self):
        return getattr(self.node, "name", "<lambda>")

    @property
    def key(self):
        return self.module.name + ":" + self.qual

    @property
    def file(self):
        return self.module.rel

    def params(self):
        a = self.node.args
        return [x.arg for x in a.posonlyargs + a.args] + (
            [a.vararg.arg] if a.vararg else []
        ) + [x.arg for x in a.kwonlyargs] + ([a.kwarg.arg] if a.kwarg else [])

    def decorators(self):
        return [ast.unparse(d) for d in getattr(self.node, "decorator_list", [])]

    def is_method(self):
        return self.cls is not None and self.parent is None

    def kind(self):
        """'instance' | 'class' | 'static' | 'function'"""
        if not self.is_method():
            return "function"
        d = self.decorators()
        if "classmethod" in d:
            return "class"
        if "staticmethod" in d:
            return "static"
        return "instance"

    def __repr__(self):
        return "<Func %s>" % self.key


class ClassInfo:
    def __init__(self, module, name, node):
        self.module = module
        self.name = name
        self.node = node
        self.base_exprs = [ast.unparse(b) for b in node.bases]
        self.bases = []  # resolved ClassInfo
        self.methods = {}
        self.attrs = {}  # class-level name -> value node
        self.subclasses = []

    @property
    def key(self):
        return self.module.name + ":" + self.name

    def mro(self):
        out, seen = [], set()
        work = [self]
        while work:
            c = work.pop(0)
            if c.key in seen:
                continue
            seen.add(c.key)
            out.append(c)
            work.extend(c.bases)
        return out

    def all_subclasses(self):
        out, work = [], list(self.subclasses)
        while work:
            c = work.pop()
            if c not in out:
                out.append(c)
                work.extend(c.subclasses)
        return out

    def find_method(self, name):
        for c in self.mro():
            if name in c.methods:
                return c.methods[name]
        return None

    def find_attr(self, name):
        for c in self.mro():
            if name in c.attrs:
                return c, c.attrs[name]
        return None, None

    def decorators(self):
        return [ast.unparse(d) for d in self.node.decorator_list]

    def __repr__(self):
        return "<Class %s>" % self.key


class Module:
    def __init__(self, rel, tree):
        self.rel = rel
        self.name = modname(rel)
        self.tree = tree
        self.imports = {}  # local name -> ("module", modname) | ("attr", modname, attr)
        self.functions = {}  # top-level name -> Func
        self.classes = {}
        self.assigns = {}  # module-level name -> [value nodes]
        self.all_funcs = []
        self.toplevel = None  # pseudo Func for module-level code


def _resolve_relative(modname_, level, target, is_pkg):
    if level == 0:
        return target
    parts = modname_.split(".")
    if not is_pkg:
        parts = parts[:-1]
    if level > 1:
        parts = parts[: -(level - 1)]
    base = ".".join(parts)
    if target:
        return base + "." + target if base else target
    return base


class Index:
    def __init__(self, repo, roots=CODE_ROOTS, extra=EXTRA_FILES):
        self.repo = repo
        self.modules = {}
        self.by_rel = {}
        files = []
        for r in roots:
            files += [f for f in repo.walk_py(r) if not f.startswith(DATA_PREFIX)]
        files += [f for f in extra if repo.exists(f)]
        for rel in files:
            m = Module(rel, repo.ast(rel))
            self.modules[m.name] = m
            self.by_rel[rel] = m
        for m in self.modules.values():
            self._index_module(m)
        self.classes = {}
        for m in self.modules.values():
            for c in m.classes.values():
                self.classes[c.key] = c
        self._resolve_bases()
        self.funcs = {}
        for m in self.modules.values():
            for f in m.all_funcs:
                self.funcs[f.key] = f

    # ------------------------------------------------------------------
    def _index_module(self, m):
        is_pkg = m.rel.endswith("__init__.py")
        top = ast.FunctionDef(
            name="<module>",
            args=ast.arguments(
                posonlyargs=[], args=[], kwonlyargs=[], kw_defaults=[], defaults=[]
            ),
            body=m.tree.body,
            decorator_list=[],
            lineno=1,
            col_offset=0,
        )
        m.toplevel = Func(m, "<module>", top)
        m.all_funcs.append(m.toplevel)

        def imports(node):
            for n in ast.walk(node):
                if isinstance(n, ast.Import):
                    for a in n.names:
                        local = a.asname or a.name.split(".")[0]
                        target = a.name if a.asname else a.name.split(".")[0]
                        m.imports[local] = ("module", target)
                elif isinstance(n, ast.ImportFrom):
                    src = _resolve_relative(m.name, n.level, n.module, is_pkg)
                    for a in n.names:
                        m.imports[a.asname or a.name] = ("attr", src, a.name)

        imports(m.tree)

        def visit(body, prefix, cls, parent):
            for n in body:
                if isinstance(n, (ast.FunctionDef, ast.AsyncFunctionDef)):
                    f = Func(m, prefix + n.name, n, cls=cls, parent=parent)
                    m.all_funcs.append(f)
                    if parent is not None:
                        parent.children[n.name] = f
                    elif cls is not None:
                        cls.methods[n.name] = f
                    else:
                        m.functions[n.name] = f
                    f.is_generator = _is_generator(n)
                    visit(n.body, f.qual + ".<locals>.", cls, f)
                    self._lambdas(m, f)
                elif isinstance(n, ast.ClassDef):
                    if parent is not None:
                        continue
                    c = ClassInfo(m, n.name, n)
                    m.classes[n.name] = c
                    for b in n.body:
                        if isinstance(b, ast.Assign):
                            for t in b.targets:
                                if isinstance(t, ast.Name):
                                    c.attrs[t.id] = b.value
                        elif isinstance(b, ast.AnnAssign) and isinstance(
                            b.target, ast.Name
                        ):
                            c.attrs[b.target.id] = b.value
                    visit(n.body, n.name + ".", c, None)
                elif isinstance(n, (ast.If, ast.Try, ast.For, ast.While, ast.With)):
                    for fld in ("body", "orelse", "finalbody"):
                        visit(getattr(n, fld, []) or [], prefix, cls, parent)
                    for h in getattr(n, "handlers", []) or []:
                        visit(h.body, prefix, cls, parent)
                elif isinstance(n, ast.Assign) and cls is None and parent is None:
                    for t in n.targets:
                        if isinstance(t, ast.Name):
                            m.assigns.setdefault(t.id, []).append(n.value)

        visit(m.tree.body, "", None, None)
        self._lambdas(m, m.toplevel, toplevel=True)

    def _lambdas(self, m, f, toplevel=False):
        """register lambdas that appear directly in f (not in nested defs)"""
        for n in iter_own_nodes(f.node):
            if isinstance(n, ast.Lambda):
                lf = Func(
                    m,
                    f.qual + ".<lambda@%d:%d>" % (n.lineno, n.col_offset),
                    n,
                    cls=f.cls,
                    parent=f,
                )
                n._sa_func = lf
                f.lambdas.append(lf)
                m.all_funcs.append(lf)

    def _resolve_bases(self):
        for c in self.classes.values():
            for b in c.node.bases:
                t = self.resolve_name_expr(c.module, b)
                if isinstance(t, ClassInfo):
                    c.bases.append(t)
                    t.subclasses.append(c)

    # ------------------------------------------------------------------
    def resolve_import(self, module, local):
        """follow an imported name to the project entity it denotes, or an
        external dotted name (str)"""
        imp = module.imports.get(local)
        if imp is None:
            return None
        if imp[0] == "module":
            if imp[1] in self.modules:
                return self.modules[imp[1]]
            return "ext:" + imp[1]
        _, src, attr = imp
        # "from pkg import submodule"
        if src + "." + attr in self.modules:
            return self.modules[src + "." + attr]
        if src in self.modules:
            return self.lookup_module_attr(self.modules[src], attr)
        return "ext:" + src + "." + attr

    def lookup_module_attr(self, m, name, _depth=0):
        if name in m.classes:
            return m.classes[name]
        if name in m.functions:
            return m.functions[name]
        if name in m.assigns:
            return ("var", m, name)
        if name in m.imports and _depth < 5:
            imp = m.imports[name]
            if imp[0] == "attr":
                _, src, attr = imp
                if src + "." + attr in self.modules:
                    return self.modules[src + "." + attr]
                if src in self.modules:
                    return self.lookup_module_attr(self.modules[src], attr, _depth + 1)
                return "ext:" + src + "." + attr
            if imp[1] in self.modules:
                return self.modules[imp[1]]
            return "ext:" + imp[1]
        return None

    def resolve_name_expr(self, module, expr):
        """resolve Name / dotted Attribute at module scope"""
        if isinstance(expr, ast.Name):
            r = self.lookup_module_attr(module, expr.id)
            return r
        if isinstance(expr, ast.Attribute):
            base = self.resolve_name_expr(module, expr.value)
            if isinstance(base, Module):
                return self.lookup_module_attr(base, expr.attr)
            if isinstance(base, str) and base.startswith("ext:"):
                return base + "." + expr.attr
            if isinstance(base, ClassInfo):
                f = base.find_method(expr.attr)
                if f:
                    return f
        return None

    # convenience ------------------------------------------------------
    def func(self, key):
        f = self.funcs.get(key)
        if f is None:
            raise AnalysisError("index", "function not found: " + key)
        return f

    def cls(self, key):
        c = self.classes.get(key)
        if c is None:
            raise AnalysisError("index", "class not found: " + key)
        return c

    def module(self, name):
        m = self.modules.get(name)
        if m is None:
            raise AnalysisError("index", "module not found: " + name)
        return m

    def module_const(self, modname_, name):
        m = self.module(modname_)
        vals = m.assigns.get(name)
        if not vals:
            raise AnalysisError("index", "constant %s.%s not found" % (modname_, name))
        return vals[-1]


def _is_generator(fn):
    for n in iter_own_nodes(fn):
        if isinstance(n, (ast.Yield, ast.YieldFrom)):
            return True
    return False


def iter_own_nodes(fn):
    """all AST nodes of a function body, not descending into nested defs, classes
    and lambdas (the lambda node itself is yielded)"""
    body = fn.body if isinstance(fn.body, list) else [fn.body]
    work = list(reversed(body))
    while work:
        n = work.pop()
        yield n
        if isinstance(n, (ast.FunctionDef, ast.AsyncFunctionDef, ast.ClassDef, ast.Lambda)):
            continue
        work.extend(reversed(list(ast.iter_child_nodes(n))))


def iter_own_stmts(body):
    """statements, recursively, not descending into nested defs/classes"""
    for s in body:
        yield s
        if isinstance(s, (ast.FunctionDef, ast.AsyncFunctionDef, ast.ClassDef)):
            continue
        for fld in ("body", "orelse", "finalbody"):
            sub = getattr(s, fld, None)
            if isinstance(sub, list):
                yield from iter_own_stmts(sub)
        for h in getattr(s, "handlers", []) or []:
            yield from iter_own_stmts(h.body)
        if isinstance(s, ast.Match):
            for c in s.cases:
                yield from iter_own_stmts(c.body)


def norm(node):
    """normalised source text of a node (stable across formatting)"""
    return ast.unparse(node)

"""Syntactic context helpers: parent maps, enclosing tests, preceding early exits."""
import ast


def parent_map(root):
    pm = getattr(root, "_sa_parents", None)
    if pm is None:
        pm = {}
        for n in ast.walk(root):
            for c in ast.iter_child_nodes(n):
                pm[id(c)] = n
        root._sa_parents = pm
    return pm


def fresh_copy(node):
    """deep copy of a syntax tree without the analysis caches hung on it (a copied parent map would describe the original)"""
    import copy
    new = copy.deepcopy(node)
    for n in ast.walk(new):
        for attr in ("_sa_parents", "_sa_cfg"):
            if hasattr(n, attr):
                delattr(n, attr)
    return new


def ancestors(root, node):
    pm = parent_map(root)
    out = []
    cur = node
    while id(cur) in pm:
        cur = pm[id(cur)]
        out.append(cur)
    return out


def _field_of(parent, child):
    for fld, val in ast.iter_fields(parent):
        if val is child:
            return fld, None
        if isinstance(val, list):
            for i, v in enumerate(val):
                if v is child:
                    return fld, i
    return None, None


def terminates(stmts):
    """the block always leaves the enclosing block (return/raise/continue/break)"""
    if not stmts:
        return False
    last = stmts[-1]
    if isinstance(last, (ast.Return, ast.Raise, ast.Continue, ast.Break)):
        return True
    if isinstance(last, ast.If):
        return terminates(last.body) and terminates(last.orelse)
    return False


def enclosing_tests(root, node):
    """[(test expr, polarity)] for every condition known to hold when `node` runs:
    enclosing if/elif/while/ternary/and/or plus preceding early exits in the same blocks."""
    out = []
    chain = [node] + ancestors(root, node)
    for child, parent in zip(chain, chain[1:]):
        fld, i = _field_of(parent, child)
        if isinstance(parent, (ast.If, ast.While)):
            if fld == "body":
                out.append((parent.test, True))
            elif fld == "orelse" and isinstance(parent, ast.If):
                out.append((parent.test, False))
        elif isinstance(parent, ast.IfExp):
            if fld == "body":
                out.append((parent.test, True))
            elif fld == "orelse":
                out.append((parent.test, False))
        elif isinstance(parent, ast.BoolOp) and fld == "values" and i:
            for prev in parent.values[:i]:
                out.append((prev, isinstance(parent.op, ast.And)))
        elif isinstance(parent, ast.comprehension) and fld == "ifs":
            pass
        elif isinstance(parent, (ast.ListComp, ast.SetComp, ast.GeneratorExp, ast.DictComp)):
            if fld in ("elt", "key", "value"):
                for g in parent.generators:
                    for t in g.ifs:
                        out.append((t, True))
        # preceding early exits in a statement list
        if i is not None and fld in ("body", "orelse", "finalbody") and isinstance(child, ast.stmt):
            block = getattr(parent, fld)
            for prev in block[:i]:
                if isinstance(prev, ast.If) and terminates(prev.body) and not prev.orelse:
                    out.append((prev.test, False))
                elif isinstance(prev, ast.If) and prev.orelse and terminates(prev.orelse) and not terminates(prev.body):
                    out.append((prev.test, True))
        if isinstance(parent, (ast.FunctionDef, ast.AsyncFunctionDef, ast.Lambda)) and parent is not root:
            break
    return [(_resolve_flag(root, t), pol) for t, pol in out]


def _resolve_flag(root, test, _depth=0):
    """a local bound exactly once to a boolean expression or to a plain attribute read (`is_feb_29 = not self._token_year and ...`;
    `aware = settings.RETURN_AS_TIMEZONE_AWARE`; `if not is_feb_29: raise`) stands for that expression wherever it is tested - also as an
    operand of and/or/not/comparisons inside the test"""
    if not isinstance(root, (ast.FunctionDef, ast.AsyncFunctionDef)) or _depth > 2:
        return test
    names = {x.id for x in ast.walk(test) if isinstance(x, ast.Name) and isinstance(x.ctx, ast.Load)}
    if not names:
        return test
    params = {a.arg for a in root.args.posonlyargs + root.args.args + root.args.kwonlyargs}
    cache = getattr(root, "_sa_flagdefs", None)
    if cache is None:
        cache = {}
        counts = {}
        for n in ast.walk(root):
            tgs = []
            if isinstance(n, ast.Assign):
                tgs = [(x, n) for t in n.targets for x in ast.walk(t) if isinstance(x, ast.Name)]
            elif isinstance(n, (ast.AugAssign, ast.AnnAssign, ast.For, ast.NamedExpr)):
                tgs = [(x, None) for x in ast.walk(n.target) if isinstance(x, ast.Name)]
            elif isinstance(n, (ast.With,)):
                tgs = [(x, None) for it in n.items if it.optional_vars is not None for x in ast.walk(it.optional_vars) if isinstance(x, ast.Name)]
            elif isinstance(n, ast.ExceptHandler) and n.name:
                counts[n.name] = counts.get(n.name, 0) + 2
            for x, st in tgs:
                counts[x.id] = counts.get(x.id, 0) + 1
                cache[x.id] = st
        for k in list(cache):
            st = cache[k]
            ok = counts.get(k) == 1 and st is not None and len(st.targets) == 1 and isinstance(st.targets[0], ast.Name)
            if ok:
                v = st.value
                pure_attr = isinstance(v, ast.Attribute)
                w = v
                while isinstance(w, ast.Attribute):
                    w = w.value
                pure_attr = pure_attr and isinstance(w, ast.Name)
                ok = isinstance(v, (ast.BoolOp, ast.Compare)) or (isinstance(v, ast.UnaryOp) and isinstance(v.op, ast.Not)) or pure_attr
            if not ok:
                del cache[k]
            else:
                cache[k] = st.value
        try:
            root._sa_flagdefs = cache
        except Exception:
            pass
    subst = {n_: cache[n_] for n_ in names if n_ in cache and n_ not in params}
    if not subst:
        return test
    import copy

    class _Sub(ast.NodeTransformer):
        def visit_Name(self, node):
            if isinstance(node.ctx, ast.Load) and node.id in subst:
                return _resolve_flag(root, copy.deepcopy(subst[node.id]), _depth + 1)
            return node
    return ast.fix_missing_locations(_Sub().visit(copy.deepcopy(test)))

def conjuncts(test, polarity):
    """split a test into atomic (expr, polarity) facts that must all hold"""
    if isinstance(test, ast.UnaryOp) and isinstance(test.op, ast.Not):
        return conjuncts(test.operand, not polarity)
    if isinstance(test, ast.BoolOp):
        if isinstance(test.op, ast.And) and polarity:
            return [c for v in test.values for c in conjuncts(v, True)]
        if isinstance(test.op, ast.Or) and not polarity:
            return [c for v in test.values for c in conjuncts(v, False)]
        return [(test, polarity)]
    return [(test, polarity)]


def names_in(e):
    return {n.id for n in ast.walk(e) if isinstance(n, ast.Name)}


def enclosing_try_handlers(root, node):
    """try statements whose *body* contains node: [(Try, [handler type text])]"""
    out = []
    chain = [node] + ancestors(root, node)
    for child, parent in zip(chain, chain[1:]):
        if isinstance(parent, ast.Try):
            fld, _ = _field_of(parent, child)
            if fld == "body":
                out.append(parent)
    return out


def if_arms(n):
    """(test, then-arm, else-arm) of an If with leading `not`s removed by swapping the arms, so that
    `if not c: B else: A` and `if c: A else: B` look alike to a rule"""
    t, a, b = n.test, n.body, n.orelse
    while isinstance(t, ast.UnaryOp) and isinstance(t.op, ast.Not):
        t, a, b = t.operand, b, a
    return t, a, b


def signed_atoms(test, pol=True):
    """(atom, sign) for every non-boolean sub-expression of a test, through and/or/not: sign tells whether the atom being
    TRUE pushes the test towards `pol` (used to recognise `A or B or "local" in x` as a test about 'local')"""
    out = []

    def walk(e, s):
        if isinstance(e, ast.BoolOp):
            for v in e.values:
                walk(v, s)
        elif isinstance(e, ast.UnaryOp) and isinstance(e.op, ast.Not):
            walk(e.operand, not s)
        else:
            out.append((e, s))
    walk(test, pol)
    return out


def loop_fallthrough(root, loop):
    """the statements that run when `loop` ends without leaving it: its else-arm, or - when there is none - the statements that follow the
    loop in its block (`for ..: if ..: return x` + `else: return y` and the same with `return y` after the loop are one shape)"""
    if loop.orelse:
        return loop.orelse
    for parent in ast.walk(root):
        for field in ("body", "orelse", "finalbody"):
            blk = getattr(parent, field, None)
            if isinstance(blk, list) and loop in blk:
                return blk[blk.index(loop) + 1:]
    return []


def inline_simple_helpers(ix, f, depth=2, root=None):
    """a copy of f's body in which calls `self.h(a, ..)` / `cls.h(a, ..)` of a method h of the same class that consists of one `return <expr>`
    are replaced by that expression with the parameters substituted (what "extract a predicate / an accessor" turns an inline test into)"""
    import copy
    if f.cls is None or depth <= 0:
        return root if root is not None else f.node

    class _Inl(ast.NodeTransformer):
        def visit_Call(self, node):
            self.generic_visit(node)
            fn = node.func
            if not (isinstance(fn, ast.Attribute) and isinstance(fn.value, ast.Name) and fn.value.id in ("self", "cls") and not node.keywords):
                return node
            h = f.cls.find_method(fn.attr)
            if h is None or h is f or isinstance(h.node, ast.Lambda):
                return node
            body = [s for s in h.node.body if not (isinstance(s, ast.Expr) and isinstance(s.value, ast.Constant))]
            # one `return <expr>`, possibly after single-assignment lets (`key = self._settings.registry_key`)
            lets = body[:-1]
            if not body or not isinstance(body[-1], ast.Return) or body[-1].value is None or len(lets) > 3 or not all(
                    isinstance(l_, ast.Assign) and len(l_.targets) == 1 and isinstance(l_.targets[0], ast.Name) for l_ in lets):
                return node
            ps = [p for p in h.params() if p not in ("self", "cls")]
            if len(ps) != len(node.args) or h.node.args.vararg or h.node.args.kwarg:
                return node
            m = dict(zip(ps, node.args))
            body = [body[-1]]

            class _Sub(ast.NodeTransformer):
                def visit_Name(self, n):
                    if isinstance(n.ctx, ast.Load) and n.id in m:
                        return copy.deepcopy(m[n.id])
                    return n
            for l_ in lets:
                if l_.targets[0].id in m:
                    return node
                m[l_.targets[0].id] = _Sub().visit(copy.deepcopy(l_.value))
            return ast.copy_location(_Sub().visit(copy.deepcopy(body[0].value)), node)
    new = _Inl().visit(fresh_copy(root if root is not None else f.node))
    ast.fix_missing_locations(new)
    return new

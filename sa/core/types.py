"""Light, flow-insensitive type inference (sets of abstract types per expression).

Abstract types (hashable):
  "C:<classkey>"   instance of a project class        "K:<classkey>"  the class object
  "F:<funckey>"    a project function / unbound method "B:<funckey>"   bound method
  "M:<modname>"    a project module
  "X:<kind>"       external value kind: datetime timedelta relativedelta time str int
                   float bool none list dict set pattern match tz bytes
  "E:<dotted>"     an external module / function / class object (by dotted name)
  ("T", (t0, t1, ...)) tuple whose items have the given frozensets of types
"""
import ast

from .index import ClassInfo, Func, Module, iter_own_nodes

DT = "X:datetime"
TD = "X:timedelta"
RD = "X:relativedelta"
TZ = "X:tz"
STR = "X:str"
NONE = "X:none"

EXT_CALL_RESULT = {
    "datetime.datetime": {DT},
    "datetime.datetime.now": {DT},
    "datetime.datetime.today": {DT},
    "datetime.datetime.utcnow": {DT},
    "datetime.datetime.fromtimestamp": {DT},
    "datetime.datetime.strptime": {DT},
    "datetime.datetime.combine": {DT},
    "datetime.timedelta": {TD},
    "datetime.time": {"X:time"},
    "datetime.timezone": {TZ},
    "dateutil.relativedelta.relativedelta": {RD},
    "tzlocal.get_localzone": {TZ},
    "pytz.timezone": {TZ},
    "regex.compile": {"X:pattern"},
    "re.compile": {"X:pattern"},
    "regex.search": {"X:match", NONE},
    "regex.match": {"X:match", NONE},
    "re.search": {"X:match", NONE},
    "re.match": {"X:match", NONE},
    "regex.sub": {STR},
    "re.sub": {STR},
    "regex.split": {"X:list"},
    "re.split": {"X:list"},
    "regex.escape": {STR},
    "collections.OrderedDict": {"X:dict"},
    "copy.deepcopy": None,  # identity on type: handled specially
}
EXT_VALUES = {
    "pytz.UTC": {TZ},
    "pytz.utc": {TZ},
    "datetime.timezone.utc": {TZ},
    "datetime.datetime.max": {DT},
    "datetime.datetime.min": {DT},
}
BUILTIN_RESULT = {
    "str": {STR}, "int": {"X:int"}, "float": {"X:float"}, "bool": {"X:bool"},
    "list": {"X:list"}, "dict": {"X:dict"}, "set": {"X:set"}, "tuple": {"X:list"},
    "sorted": {"X:list"}, "len": {"X:int"}, "repr": {STR}, "frozenset": {"X:set"},
    "any": {"X:bool"}, "all": {"X:bool"}, "isinstance": {"X:bool"},
    "hasattr": {"X:bool"}, "filter": {"X:list"}, "map": {"X:list"},
    "zip": {"X:list"}, "enumerate": {"X:list"}, "range": {"X:list"},
    "round": {"X:int"}, "abs": {"X:int"}, "min": set(), "max": set(),
}
DT_METHODS = {
    "replace": {DT}, "astimezone": {DT}, "date": {"X:date"}, "time": {"X:time"},
    "utcoffset": {TD, NONE}, "strftime": {STR}, "isoformat": {STR},
    "weekday": {"X:int"}, "timetuple": {"X:list"}, "timestamp": {"X:float"},
}
STR_METHODS = {
    "lower": {STR}, "upper": {STR}, "strip": {STR}, "lstrip": {STR}, "rstrip": {STR},
    "replace": {STR}, "format": {STR}, "join": {STR}, "title": {STR}, "zfill": {STR},
    "split": {"X:list"}, "encode": {"X:bytes"}, "startswith": {"X:bool"},
    "endswith": {"X:bool"}, "isdigit": {"X:bool"}, "isdecimal": {"X:bool"},
    "isalpha": {"X:bool"}, "count": {"X:int"}, "index": {"X:int"}, "find": {"X:int"},
    "capitalize": {STR}, "casefold": {STR},
}
TZ_METHODS = {"localize": {DT}, "normalize": {DT}, "utcoffset": {TD}, "dst": {TD}}
PATTERN_METHODS = {
    "search": {"X:match", NONE}, "match": {"X:match", NONE}, "fullmatch": {"X:match", NONE},
    "sub": {STR}, "split": {"X:list"}, "findall": {"X:list"},
}
MATCH_METHODS = {"group": {STR, NONE}, "groups": {"X:list"}, "groupdict": {"X:dict"},
                 "span": {"X:list"}, "start": {"X:int"}, "end": {"X:int"}}

# Settings fields: typed from the defaults literal in dateparser_data/settings.py plus
# the declared types in check_settings (both extracted in TypeInfer._settings_fields)
SETTINGS_CLASS = "dateparser.conf:Settings"


class TypeInfer:
    def __init__(self, index):
        self.ix = index
        self.var = {}     # (funckey, name) -> set
        self.ret = {}     # funckey -> set
        self.field = {}   # (classkey, attr) -> set
        self.param = {}   # (funckey, param) -> set
        self.elem = {}    # (funckey, name) -> element types of a list-valued variable
        self.changed = False
        self.settings_fields = self._settings_fields()
        self._seed()
        for _ in range(12):
            self.changed = False
            self._pass()
            if not self.changed:
                break

    # ------------------------------------------------------------------
    def _settings_fields(self):
        out = {}
        m = self.ix.modules.get("dateparser_data.settings")
        if m and "settings" in m.assigns:
            lit = m.assigns["settings"][-1]
            if isinstance(lit, ast.Dict):
                for k, v in zip(lit.keys, lit.values):
                    if isinstance(k, ast.Constant):
                        out[k.value] = set(self._literal_type(v))
        # declared types from check_settings
        conf = self.ix.modules.get("dateparser.conf")
        if conf and "check_settings" in conf.functions:
            for n in ast.walk(conf.functions["check_settings"].node):
                if isinstance(n, ast.Dict):
                    for k, v in zip(n.keys, n.values):
                        if isinstance(k, ast.Constant) and isinstance(v, ast.Dict):
                            for kk, vv in zip(v.keys, v.values):
                                if isinstance(kk, ast.Constant) and kk.value == "type" and isinstance(vv, ast.Name):
                                    t = {"str": STR, "datetime": DT, "bool": "X:bool", "list": "X:list",
                                         "int": "X:int", "float": "X:float"}.get(vv.id)
                                    if t:
                                        out.setdefault(k.value, set()).add(t)
        out.setdefault("_mod_settings", set()).add("X:dict")
        out.setdefault("_default", set()).add("X:bool")
        out.setdefault("registry_key", set()).add(STR)
        return out

    def _literal_type(self, v):
        if isinstance(v, ast.Constant):
            if isinstance(v.value, bool):
                return {"X:bool"}
            if isinstance(v.value, str):
                return {STR}
            if isinstance(v.value, int):
                return {"X:int"}
            if isinstance(v.value, float):
                return {"X:float"}
            if v.value is None:
                return {NONE}
        if isinstance(v, (ast.List, ast.Tuple, ast.ListComp)):
            return {"X:list"}
        if isinstance(v, (ast.Dict, ast.DictComp)):
            return {"X:dict"}
        if isinstance(v, (ast.Set, ast.SetComp)):
            return {"X:set"}
        if isinstance(v, ast.Name):
            return {"X:list"}  # default_parsers
        return set()

    def _add(self, table, key, types):
        if not types:
            return
        cur = table.setdefault(key, set())
        n = len(cur)
        cur |= types
        if len(cur) != n:
            self.changed = True

    def _seed(self):
        for f in self.ix.funcs.values():
            for p in f.params():
                if p == "settings":
                    self._add(self.param, (f.key, p), {"C:" + SETTINGS_CLASS})
            if f.is_method() and f.kind() == "instance" and f.params():
                pass

    # ------------------------------------------------------------------
    def _pass(self):
        for f in self.ix.funcs.values():
            self._scan_function(f)

    def _scan_function(self, f):
        node = f.node
        if isinstance(node, ast.Lambda):
            self._add(self.ret, f.key, self.type_of(node.body, f))
            return
        # defaults
        args = node.args
        pos = args.posonlyargs + args.args
        for a, d in zip(pos[len(pos) - len(args.defaults):], args.defaults):
            t = self._literal_type(d) - {NONE}
            self._add(self.param, (f.key, a.arg), t)
        for n in iter_own_nodes(node):
            if isinstance(n, ast.Assign):
                vt = self.type_of(n.value, f)
                for t in n.targets:
                    self._bind(t, vt, f, n.value)
                    if isinstance(t, ast.Subscript) and not isinstance(t.slice, ast.Slice):
                        self._bind_elem(t.value, vt, f)
            elif isinstance(n, ast.AnnAssign) and n.value is not None:
                self._bind(n.target, self.type_of(n.value, f), f, n.value)
            elif isinstance(n, ast.AugAssign):
                vt = self.type_of(ast.BinOp(left=n.target, op=n.op, right=n.value), f)
                self._bind(n.target, vt, f, None)
            elif isinstance(n, ast.NamedExpr):
                self._bind(n.target, self.type_of(n.value, f), f, n.value)
            elif isinstance(n, (ast.For, ast.comprehension)):
                it = n.iter
                et = self.elem_type_of(it, f)
                self._bind(n.target, et, f, None)
            elif isinstance(n, ast.With):
                for item in n.items:
                    if item.optional_vars is not None:
                        self._bind(item.optional_vars, self.type_of(item.context_expr, f), f, None)
            elif isinstance(n, ast.Return) and n.value is not None:
                self._add(self.ret, f.key, self.type_of(n.value, f))
            elif isinstance(n, (ast.Yield,)) and n.value is not None:
                self._add(self.elem, (f.key, "<yield>"), self.type_of(n.value, f))
            elif isinstance(n, ast.Call):
                self._bind_call_args(n, f)
            elif isinstance(n, ast.ExceptHandler) and n.name:
                self._add(self.var, (f.key, n.name), {"X:exception"})

    def _bind(self, target, types, f, value):
        if isinstance(target, ast.Name):
            self._add(self.var, (f.key, target.id), types)
            if value is not None:
                et = self._container_elem(value, f)
                if et:
                    self._add(self.elem, (f.key, target.id), et)
        elif isinstance(target, ast.Attribute):
            et = self._container_elem(value, f) if value is not None else set()
            for rt in self.type_of(target.value, f):
                if isinstance(rt, str) and rt[:2] in ("C:", "K:"):
                    self._add(self.field, (rt[2:], target.attr), types)
                    if et:
                        self._add(self.elem, ("field", rt[2:], target.attr), et)
        elif isinstance(target, (ast.Tuple, ast.List)):
            tuples = [t for t in types if isinstance(t, tuple) and t[0] == "T"]
            for i, e in enumerate(target.elts):
                ts = set()
                for tt in tuples:
                    if i < len(tt[1]):
                        ts |= set(tt[1][i])
                self._bind(e, ts, f, None)
        elif isinstance(target, ast.Starred):
            self._bind(target.value, {"X:list"}, f, None)

    def _bind_elem(self, container, types, f):
        if not types:
            return
        if isinstance(container, ast.Name):
            self._add(self.elem, (self._owner_key(container.id, f), container.id), types)
        elif isinstance(container, ast.Attribute):
            for rt in self.type_of(container.value, f):
                if isinstance(rt, str) and rt[:2] in ("C:", "K:"):
                    self._add(self.elem, ("field", rt[2:], container.attr), types)

    def _container_elem(self, value, f):
        if isinstance(value, (ast.List, ast.Tuple, ast.Set)):
            ts = set()
            for e in value.elts:
                ts |= self.type_of(e, f)
            return ts
        if isinstance(value, ast.ListComp):
            return self.type_of(value.elt, f)
        if isinstance(value, ast.Dict):
            ts = set()
            for e in value.values:
                ts |= self.type_of(e, f)
            return ts
        return set()

    def elem_type_of(self, it, f):
        """types of the elements produced by iterating over expression `it`"""
        if isinstance(it, ast.Name):
            return set(self.elem.get((f.key, it.id), set()))
        if isinstance(it, ast.Call):
            cal = self.callees(it, f)
            ts = set()
            for c in cal:
                if isinstance(c, Func) and c.is_generator:
                    ts |= self.elem.get((c.key, "<yield>"), set())
            fn = it.func
            if isinstance(fn, ast.Name) and fn.id in ("enumerate",) and it.args:
                inner = self.elem_type_of(it.args[0], f)
                return {("T", (frozenset({"X:int"}), frozenset(inner)))}
            if isinstance(fn, ast.Name) and fn.id in ("list", "sorted", "reversed", "iter", "tuple", "set") and it.args:
                return self.elem_type_of(it.args[0], f)
            if isinstance(fn, ast.Attribute) and fn.attr in ("values", "keys", "items"):
                return set()
            return ts
        if isinstance(it, (ast.List, ast.Tuple, ast.Set, ast.ListComp)):
            return self._container_elem(it, f)
        if isinstance(it, ast.Attribute):
            ts = set()
            for rt in self.type_of(it.value, f):
                if isinstance(rt, str) and rt[:2] in ("C:", "K:"):
                    ts |= self.field_elem(rt[2:], it.attr)
            return ts
        return set()

    def field_elem(self, classkey, attr):
        return set(self.elem.get(("field", classkey, attr), set()))

    def _bind_call_args(self, call, f):
        for c in self.callees(call, f):
            if not isinstance(c, Func):
                continue
            target = c
            params = target.params()
            offset = 0
            if target.is_method() and target.kind() in ("instance", "class"):
                bound = True
                fn = call.func
                # Class.method(obj, ...) unbound call: no offset
                if isinstance(fn, ast.Attribute):
                    rts = self.type_of(fn.value, f)
                    if target.kind() == "instance" and rts and all(
                        isinstance(t, str) and t.startswith("K:") for t in rts
                    ) and target.name != "__init__":
                        bound = False
                if bound:
                    offset = 1
            args = target.node.args
            names = [a.arg for a in args.posonlyargs + args.args]
            for i, a in enumerate(call.args):
                if isinstance(a, ast.Starred):
                    break
                j = i + offset
                if j < len(names):
                    self._add(self.param, (target.key, names[j]), self.type_of(a, f))
            allnames = set(names) | {a.arg for a in args.kwonlyargs}
            for kw in call.keywords:
                if kw.arg and kw.arg in allnames:
                    self._add(self.param, (target.key, kw.arg), self.type_of(kw.value, f))

    # ------------------------------------------------------------------
    def lookup_name(self, name, f):
        """types of a bare name read inside function f"""
        # scopes: f, enclosing functions, module, builtins
        g = f
        while g is not None:
            if g.qual != "<module>":
                if name in g.params():
                    ts = set(self.param.get((g.key, name), set()))
                    ts |= self.var.get((g.key, name), set())
                    if g.is_method() and g.params() and name == g.params()[0] and g.cls is not None:
                        if g.kind() == "instance":
                            ts.add("C:" + g.cls.key)
                        elif g.kind() == "class":
                            ts.add("K:" + g.cls.key)
                    return ts
                if (g.key, name) in self.var:
                    return set(self.var[(g.key, name)])
                if name in g.children:
                    return {"F:" + g.children[name].key}
            g = g.parent
        m = f.module
        ent = self.ix.lookup_module_attr(m, name)
        return self._entity_types(ent)

    def _entity_types(self, ent):
        if ent is None:
            return set()
        if isinstance(ent, ClassInfo):
            return {"K:" + ent.key}
        if isinstance(ent, Func):
            return {"F:" + ent.key}
        if isinstance(ent, Module):
            return {"M:" + ent.name}
        if isinstance(ent, tuple) and ent[0] == "var":
            _, m, name = ent
            ts = set(self.var.get((m.toplevel.key, name), set()))
            return ts
        if isinstance(ent, str) and ent.startswith("ext:"):
            dotted = ent[4:]
            if dotted in EXT_VALUES:
                return set(EXT_VALUES[dotted])
            return {"E:" + dotted}
        return set()

    def type_of(self, e, f):
        try:
            return self._type_of(e, f)
        except RecursionError:
            return set()

    def _type_of(self, e, f):
        if isinstance(e, ast.Constant):
            return self._literal_type(e)
        if isinstance(e, ast.JoinedStr):
            return {STR}
        if isinstance(e, (ast.List, ast.ListComp, ast.Tuple)) and not isinstance(e, ast.Tuple):
            return {"X:list"}
        if isinstance(e, ast.Tuple):
            return {("T", tuple(frozenset(self._flat(self._type_of(x, f))) for x in e.elts))}
        if isinstance(e, (ast.Dict, ast.DictComp)):
            return {"X:dict"}
        if isinstance(e, (ast.Set, ast.SetComp)):
            return {"X:set"}
        if isinstance(e, ast.GeneratorExp):
            return {"X:list"}
        if isinstance(e, ast.Name):
            if e.id in ("True", "False"):
                return {"X:bool"}
            return self.lookup_name(e.id, f)
        if isinstance(e, ast.Lambda):
            lf = getattr(e, "_sa_func", None)
            return {"F:" + lf.key} if lf else set()
        if isinstance(e, ast.IfExp):
            return self._type_of(e.body, f) | self._type_of(e.orelse, f)
        if isinstance(e, ast.BoolOp):
            ts = set()
            for v in e.values:
                ts |= self._type_of(v, f)
            return ts
        if isinstance(e, ast.UnaryOp):
            if isinstance(e.op, ast.Not):
                return {"X:bool"}
            return self._type_of(e.operand, f)
        if isinstance(e, ast.Compare):
            return {"X:bool"}
        if isinstance(e, ast.NamedExpr):
            return self._type_of(e.value, f)
        if isinstance(e, ast.Await):
            return set()
        if isinstance(e, ast.BinOp):
            lt, rt = self._type_of(e.left, f), self._type_of(e.right, f)
            if isinstance(e.op, (ast.Add, ast.Sub)):
                out = set()
                if DT in lt and (TD in rt or RD in rt):
                    out.add(DT)
                if DT in rt and (TD in lt or RD in lt) and isinstance(e.op, ast.Add):
                    out.add(DT)
                if DT in lt and DT in rt and isinstance(e.op, ast.Sub):
                    out.add(TD)
                if (TD in lt and TD in rt):
                    out.add(TD)
                if out:
                    return out
            if isinstance(e.op, ast.Mod) and STR in lt:
                return {STR}
            if isinstance(e.op, ast.Mult) and (TD in lt or TD in rt):
                return {TD}
            keep = {t for t in lt | rt if isinstance(t, str) and t in (STR, "X:int", "X:float", "X:list", "X:set")}
            return keep
        if isinstance(e, ast.Attribute):
            return self._attr_type(e, f)
        if isinstance(e, ast.Subscript):
            vt = self._type_of(e.value, f)
            out = set()
            for t in vt:
                if isinstance(t, tuple) and t[0] == "T" and isinstance(e.slice, ast.Constant) and isinstance(e.slice.value, int):
                    i = e.slice.value
                    if -len(t[1]) <= i < len(t[1]):
                        out |= set(t[1][i])
            if isinstance(e.slice, ast.Slice):
                out |= {t for t in vt if t in (STR, "X:list")}
            if isinstance(e.value, ast.Name) and not isinstance(e.slice, ast.Slice):
                out |= self.elem.get((self._owner_key(e.value.id, f), e.value.id), set())
            if isinstance(e.value, ast.Attribute) and not isinstance(e.slice, ast.Slice):
                for rt in self._type_of(e.value.value, f):
                    if isinstance(rt, str) and rt[:2] in ("C:", "K:"):
                        c = self.ix.classes.get(rt[2:])
                        for k in (c.mro() + c.all_subclasses()) if c else []:
                            out |= self.field_elem(k.key, e.value.attr)
            return out
        if isinstance(e, ast.Call):
            return self._call_type(e, f)
        if isinstance(e, ast.Starred):
            return set()
        return set()

    def _owner_key(self, name, f):
        g = f
        while g is not None:
            if (g.key, name) in self.elem:
                return g.key
            g = g.parent
        return f.key

    def _flat(self, ts):
        return {t for t in ts}

    def _attr_type(self, e, f):
        out = set()
        base = self._type_of(e.value, f)
        for t in base:
            if not isinstance(t, str):
                continue
            if t.startswith("M:"):
                out |= self._entity_types(self.ix.lookup_module_attr(self.ix.modules[t[2:]], e.attr))
            elif t.startswith("E:"):
                dotted = t[2:] + "." + e.attr
                if dotted in EXT_VALUES:
                    out |= EXT_VALUES[dotted]
                else:
                    out.add("E:" + dotted)
            elif t[:2] in ("C:", "K:"):
                ck = t[2:]
                c = self.ix.classes.get(ck)
                if c is None:
                    continue
                if e.attr == "__class__":
                    out.add("K:" + ck)
                    continue
                if ck == SETTINGS_CLASS and e.attr in self.settings_fields:
                    out |= self.settings_fields[e.attr]
                cands = []
                for k in c.mro():
                    if e.attr in k.methods:
                        cands.append(k.methods[e.attr])
                        break
                # a class named explicitly (`_parser.parse(...)`) is exact; self/cls/instances dispatch virtually
                exact = t.startswith("K:") and isinstance(e.value, ast.Name) and e.value.id not in ("cls", "self")
                for k in c.all_subclasses() if not exact else ():
                    if e.attr in k.methods:
                        cands.append(k.methods[e.attr])
                for m in cands:
                    if t.startswith("K:") and m.kind() == "instance":
                        out.add("F:" + m.key)
                    else:
                        out.add("B:" + m.key)
                for k in c.mro() + c.all_subclasses():
                    ft = self.field.get((k.key, e.attr))
                    if ft:
                        out |= ft
                    if e.attr in k.attrs and k.attrs[e.attr] is not None:
                        # class-level attribute: type of its value at module scope
                        out |= self._type_of(k.attrs[e.attr], k.module.toplevel)
            elif t == DT:
                if e.attr == "tzinfo":
                    out |= {TZ, NONE}
                elif e.attr in ("year", "month", "day", "hour", "minute", "second", "microsecond"):
                    out.add("X:int")
                elif e.attr in ("max", "min"):
                    out.add(DT)
            elif t == "X:time":
                out.add("X:int")
        return out

    def _call_type(self, e, f):
        fn = e.func
        out = set()
        if isinstance(fn, ast.Name) and fn.id in BUILTIN_RESULT and not self.lookup_name(fn.id, f):
            if fn.id == "getattr":
                return set()
            if fn.id in ("min", "max") and e.args:
                return self._type_of(e.args[0], f) if len(e.args) > 1 else set()
            return set(BUILTIN_RESULT[fn.id])
        if isinstance(fn, ast.Name) and fn.id == "getattr" and len(e.args) >= 2 and isinstance(e.args[1], ast.Constant):
            t = self._attr_type(ast.Attribute(value=e.args[0], attr=e.args[1].value, ctx=ast.Load()), f)
            if len(e.args) == 3:
                t = t | self._type_of(e.args[2], f)
            return t
        if isinstance(fn, ast.Name) and fn.id == "super":
            if f.cls is not None:
                return {"S:" + f.cls.key}
            return set()
        ft = self._type_of(fn, f) if not isinstance(fn, ast.Attribute) else None
        if isinstance(fn, ast.Attribute):
            recv = self._type_of(fn.value, f)
            # super().m(...)
            for t in recv:
                if isinstance(t, str) and t.startswith("S:"):
                    c = self.ix.classes[t[2:]]
                    for b in c.mro()[1:]:
                        if fn.attr in b.methods:
                            out |= self._ret_of(b.methods[fn.attr], e, f)
                            break
            # external receivers
            for t in recv:
                if t == DT and fn.attr in DT_METHODS:
                    out |= DT_METHODS[fn.attr]
                elif t == STR and fn.attr in STR_METHODS:
                    out |= STR_METHODS[fn.attr]
                elif t == TZ and fn.attr in TZ_METHODS:
                    out |= TZ_METHODS[fn.attr]
                elif t == "X:pattern" and fn.attr in PATTERN_METHODS:
                    out |= PATTERN_METHODS[fn.attr]
                elif t == "X:match" and fn.attr in MATCH_METHODS:
                    out |= MATCH_METHODS[fn.attr]
                elif t == "X:dict" and fn.attr in ("get", "pop", "setdefault") and len(e.args) > 1:
                    out |= self._type_of(e.args[1], f)
                if fn.attr == "get" and e.args and isinstance(e.args[0], ast.Constant):
                    out |= self._dict_literal_values(e.args[0].value, f)
                elif t == "X:dict" and fn.attr == "copy":
                    out.add("X:dict")
                elif t == "X:dict" and fn.attr in ("keys", "values", "items"):
                    out.add("X:list")
            ft = self._attr_type(fn, f)
        for t in ft or ():
            if not isinstance(t, str):
                continue
            if t.startswith("K:"):
                out.add("C:" + t[2:])
            elif t[:2] in ("F:", "B:"):
                fu = self.ix.funcs.get(t[2:])
                if fu is not None:
                    out |= self._ret_of(fu, e, f)
            elif t.startswith("E:"):
                dotted = t[2:]
                if dotted in EXT_CALL_RESULT:
                    r = EXT_CALL_RESULT[dotted]
                    if r is None and e.args:
                        out |= self._type_of(e.args[0], f)
                    elif r:
                        out |= r
        return out

    def _dict_literal_values(self, key, f):
        """types of the values stored under constant `key` in any dict literal of f"""
        out = set()
        for n in iter_own_nodes(f.node):
            if isinstance(n, ast.Dict):
                for k, v in zip(n.keys, n.values):
                    if isinstance(k, ast.Constant) and k.value == key:
                        out |= {t for t in self._type_of(v, f) if isinstance(t, str) and t[:2] in ("F:", "B:")}
        return out

    def _ret_of(self, fu, call, f):
        if fu.name == "__init__":
            return set()
        r = set(self.ret.get(fu.key, set()))
        if fu.is_generator:
            return {"X:list"}
        # decorator wrappers that return the decorated function's result
        return r

    # ------------------------------------------------------------------
    COMMON_METHOD_NAMES = frozenset(
        "replace split join get pop update items keys values append extend remove "
        "insert index count copy strip lower upper format search match sub group "
        "groups time date weekday localize utcoffset dst tzname parse read write "
        "__repr__ __str__ __init__ __getitem__ __setitem__ __contains__ __iter__ "
        "__call__ __new__ sort add clear setdefault".split()
    )

    def by_method_name(self):
        """name-based fallback (receiver of unknown type): project methods whose name
        is not also a common builtin-type method name"""
        if not hasattr(self, "_by_name"):
            from .index import OUT_OF_SCOPE
            d = {}
            for fu in self.ix.funcs.values():
                if fu.is_method() and fu.name not in self.COMMON_METHOD_NAMES and fu.file not in OUT_OF_SCOPE:
                    d.setdefault(fu.name, []).append(fu)
            self._by_name = d
        return self._by_name

    def callees(self, call, f):
        """resolved project callees (Func) of a call expression; see callgraph"""
        fn = call.func
        out = []
        if isinstance(fn, ast.Name) and fn.id == "super":
            return out
        if isinstance(fn, ast.Attribute):
            recv = self._type_of(fn.value, f)
            for t in recv:
                if isinstance(t, str) and t.startswith("S:"):
                    c = self.ix.classes[t[2:]]
                    for b in c.mro()[1:]:
                        if fn.attr in b.methods:
                            out.append(b.methods[fn.attr])
                            break
            ft = self._attr_type(fn, f)
        else:
            ft = self._type_of(fn, f)
        if isinstance(fn, ast.Attribute) and not out and not any(
            isinstance(t, str) and t[:2] in ("F:", "B:", "K:") for t in ft
        ) and not (recv - {NONE}):
            for fu in self.by_method_name().get(fn.attr, ()):
                out.append(fu)
        for t in ft:
            if not isinstance(t, str):
                continue
            if t.startswith("K:"):
                c = self.ix.classes.get(t[2:])
                if c:
                    init = c.find_method("__init__")
                    if init:
                        out.append(init)
                    new = c.find_method("__new__")
                    if new:
                        out.append(new)
            elif t[:2] in ("F:", "B:"):
                fu = self.ix.funcs.get(t[2:])
                if fu is not None and fu not in out:
                    out.append(fu)
            elif t.startswith("C:"):
                c = self.ix.classes.get(t[2:])
                m = c.find_method("__call__") if c else None
                if m is not None and m not in out:
                    out.append(m)
        return out

    def implicit_callees(self, node, f):
        """dunder methods run by `in`, subscripting and iteration on project objects"""
        out = []

        def dunder(expr, name):
            for t in self._type_of(expr, f):
                if isinstance(t, str) and t.startswith("C:"):
                    c = self.ix.classes.get(t[2:])
                    if not c:
                        continue
                    m = c.find_method(name)
                    if m is not None and m not in out:
                        out.append(m)
                    for k in c.all_subclasses():
                        if name in k.methods and k.methods[name] not in out:
                            out.append(k.methods[name])

        if isinstance(node, ast.Compare):
            for op, right in zip(node.ops, node.comparators):
                if isinstance(op, (ast.In, ast.NotIn)):
                    dunder(right, "__contains__")
        elif isinstance(node, ast.Subscript):
            if isinstance(node.ctx, ast.Load):
                dunder(node.value, "__getitem__")
            elif isinstance(node.ctx, ast.Store):
                dunder(node.value, "__setitem__")
        elif isinstance(node, (ast.For, ast.comprehension)):
            dunder(node.iter, "__iter__")
        return out

"""Obligation bookkeeping, known-findings matching, evidence and exit protocol."""
import json
import os
import time

VERIF = os.path.dirname(os.path.dirname(os.path.dirname(os.path.abspath(__file__))))
KNOWN_PATH = os.path.join(VERIF, "known_findings.json")


def load_known(path=KNOWN_PATH):
    try:
        with open(path, encoding="utf-8") as f:
            return json.load(f)["findings"]
    except FileNotFoundError:
        return []


def canon_key(key):
    return json.dumps(key, sort_keys=True, ensure_ascii=False)


class Finding:
    def __init__(self, rule, key, construct, why, path=None):
        self.rule = rule
        self.key = key            # dict, no line numbers
        self.construct = construct  # {file, function, line, text}
        self.why = why
        self.path = path or []

    def ident(self):
        return (self.rule, canon_key(self.key))

    def to_json(self, prop):
        return {
            "property": prop,
            "rule": self.rule,
            "key": self.key,
            "construct": self.construct,
            "path": self.path,
            "why": self.why,
        }


class Check:
    """collects what one property's rules examined and found"""

    def __init__(self, prop, tier="quick", repo=None, quiet=False):
        self.prop = prop
        self.tier = tier
        self.repo = repo
        self.quiet = quiet
        self.t0 = time.time()
        self.obligations = []   # (rule, construct text, ok, detail)
        self.findings = {}      # ident -> Finding
        self.errors = []        # (rule, reason)
        self.instances = {}     # rule -> count
        self.floors = {}        # rule -> (count, floor, what)
        self.notes = []
        self.assumptions = []
        self.samples = []
        self.extra = {}
        self.nontrivial = set()
        self.positive = set()   # idents of findings that are forbidden constructs present in the code

    # -- recording ------------------------------------------------------
    def ob(self, rule, construct, ok, detail="", key=None, file=None, function=None,
           line=None, text=None, path=None, nontrivial=True, positive=False):
        """one obligation: discharged (ok) or a finding.  positive=True marks a finding that consists of a forbidden construct being
        PRESENT at the reported place (not of an expected construct being absent or of a may-happen without a recognised excuse): such a
        finding stands wherever it is, also in a function no rule instance was confirmed against (core/unconfirmed.py)"""
        self.instances[rule] = self.instances.get(rule, 0) + 1
        self.obligations.append((rule, construct, bool(ok), detail))
        if nontrivial:
            self.nontrivial.add((rule, construct))
        if not ok:
            k = key if key is not None else {"construct": construct}
            self.finding(rule, k, file=file, function=function, line=line,
                         text=text or construct, why=detail, path=path)
            if positive:
                self.positive.add((rule, canon_key(k)))
        return ok

    def finding(self, rule, key, file=None, function=None, line=None, text=None, why="", path=None):
        f = Finding(rule, key, {"file": file, "function": function, "line": line, "text": text}, why, path)
        self.findings.setdefault(f.ident(), f)

    def error(self, rule, reason):
        self.errors.append((rule, reason))

    def floor(self, rule, count, minimum, what):
        self.floors[rule] = (count, minimum, what)
        if count < minimum:
            self.error(rule, "matched %d %s, expected at least %d (anchor vanished?)" % (count, what, minimum))

    def note(self, s):
        self.notes.append(s)

    def assume(self, s):
        if s not in self.assumptions:
            self.assumptions.append(s)

    def sample(self, s):
        if len(self.samples) < 12:
            self.samples.append(s)

    # -- result ---------------------------------------------------------
    def classify(self, known=None):
        known = load_known() if known is None else known
        kmap = {}
        fixed = set()
        for k in known:
            if k.get("property") != self.prop:
                continue
            ident = (k["rule"], canon_key(k["key"]))
            if k.get("status") == "known":
                kmap[ident] = k
            elif k.get("status") == "fixed":
                fixed.add(ident)
        listed, unlisted = [], []
        for ident, f in self.findings.items():
            if ident in kmap:
                listed.append((f, kmap[ident]))
            else:
                unlisted.append(f)
        stale = [k for ident, k in kmap.items() if ident not in self.findings]
        return listed, unlisted, stale

    def withdraw_findings_of_broken_rules(self):
        """a rule that reported ANALYSIS-ERROR (it could not find part of what it reasons about) does not also report VIOLATIONs: what it
        says about the rest of the construct is not reliable.  Positive findings (forbidden construct present) stand."""
        # only errors the rule raised about ITSELF count ("expected construct not found", floors); withdrawals of single findings
        # (core/unconfirmed.py: "cannot decide ...") say nothing about the rule's other instances
        broken = {r for r, why in self.errors if not str(why).startswith(("cannot decide", "not reported as a violation"))}
        kmap = {(k["rule"], canon_key(k["key"])) for k in load_known() if k.get("property") == self.prop and k.get("status") == "known"}
        n = 0
        for ident, f in list(self.findings.items()):
            if ident in self.positive or ident in kmap:
                continue
            if any(f.rule == b or f.rule.startswith(b + ".") or b.startswith(f.rule + ".") for b in broken):
                del self.findings[ident]
                n += 1
                self.errors.append((f.rule, "not reported as a violation because the rule could not be applied completely: %s" % str(f.key)[:100]))
        return n

    def finish(self, level="other", explanation="", seed=0, evidence_dir=None, extra_cov=None):
        self.withdraw_findings_of_broken_rules()
        listed, unlisted, stale = self.classify()
        out = []
        code = 0
        evidence_dir = evidence_dir or os.environ.get("VERIF_EVIDENCE_DIR") or os.path.join(VERIF, "evidence")
        os.makedirs(os.path.join(evidence_dir, "replay"), exist_ok=True)
        for rule, reason in self.errors:
            out.append("ANALYSIS-ERROR property=%s rule=%s reason=%s" % (self.prop, rule, reason))
        for f, k in sorted(listed, key=lambda x: x[0].ident()):
            out.append("KNOWN-FINDING: property=%s rule=%s %s -- %s" % (
                self.prop, f.rule, canon_key(f.key), k.get("witness", "")))
        n = 0
        for f in sorted(unlisted, key=lambda x: x.ident()):
            n += 1
            rp = os.path.join(evidence_dir, "replay", "%s-%d.json" % (self.prop, n))
            with open(rp, "w", encoding="utf-8") as fh:
                json.dump(f.to_json(self.prop), fh, indent=1, ensure_ascii=False)
            c = f.construct
            out.append("VIOLATION property=%s replay=%s" % (self.prop, rp))
            out.append("  rule=%s at %s:%s:%s  %s" % (f.rule, c.get("file"), c.get("function"), c.get("line"), (c.get("text") or "")[:160]))
            out.append("  why: %s" % f.why)
            if f.path:
                out.append("  path: " + " > ".join(str(p) for p in f.path[:14]))
        for k in stale:
            out.append("NOTE: listed known finding no longer reported (repaired?): rule=%s %s" % (k["rule"], canon_key(k["key"])))
        if unlisted:
            code = 1            # a violation that was positively identified stands, whatever else could not be analysed
        elif self.errors:
            code = 2
        wall = time.time() - self.t0
        total = len(self.obligations)
        ok = sum(1 for o in self.obligations if o[2])
        cov = {
            "explanation": explanation,
            "evaluations": max(total, 1),
            "distinct_nontrivial": max(len(self.nontrivial), 2) if len(self.nontrivial) >= 2 else len(self.nontrivial),
            "rule": "one evaluation = one rule instance (site, table entry, path or guard assignment) "
                    "examined on the current source; distinct_nontrivial counts distinct "
                    "(rule, construct) pairs whose obligation is not vacuous",
            "obligations": total,
            "discharged": ok,
            "instances_per_rule": dict(sorted(self.instances.items())),
            "floors": {r: {"matched": c, "floor": m, "what": w} for r, (c, m, w) in sorted(self.floors.items())},
            "samples": self.samples or [{"rule": o[0], "construct": o[1][:200], "verdict": "ok" if o[2] else "FINDING", "detail": o[3][:200]} for o in self.obligations[:8]] or ["(no obligations)"],
            "known_findings_reported": len(listed),
            "new_findings": len(unlisted),
            "analysis_errors": len(self.errors),
            "notes": self.notes[:40],
        }
        if extra_cov:
            cov.update(extra_cov)
        cov.update(self.extra)
        ev = {
            "property_id": self.prop,
            "tier": self.tier,
            "seed": int(seed),
            "level": level,
            "coverage": cov,
            "assumptions": self.assumptions,
            "wall_s": round(wall, 3),
            "violations": len(unlisted),
        }
        with open(os.path.join(evidence_dir, self.prop + ".json"), "w", encoding="utf-8") as fh:
            json.dump(ev, fh, indent=1, ensure_ascii=False)
        summary = "%s tier=%s: %d obligations, %d discharged, %d known findings, %d new, %d analysis errors, %.1fs" % (
            self.prop, self.tier, total, ok, len(listed), len(unlisted), len(self.errors), wall)
        if not self.quiet:
            for line in out:
                print(line)
            for r, (c, m, w) in sorted(self.floors.items()):
                print("  %-10s matched %d %s (floor %d)" % (r, c, w, m))
            print(summary)
        return code

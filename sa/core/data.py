"""Readers for the shipped tables: language modules, languages_info, timezones.
Nothing is imported: Python literals are read with ast.literal_eval."""
import ast
import os

from .repo import AnalysisError

LANG_DIR = "dateparser/data/date_translation_data"
MONTHS = ["january", "february", "march", "april", "may", "june", "july", "august",
          "september", "october", "november", "december"]
WEEKDAYS = ["monday", "tuesday", "wednesday", "thursday", "friday", "saturday", "sunday"]


def combine_dicts(primary, supplementary):
    """model of dateparser.utils.combine_dicts (conformance-checked by C16.R1)"""
    out = {}
    for k, v in primary.items():
        if k in supplementary:
            if isinstance(v, list):
                out[k] = v + supplementary[k]
            elif isinstance(v, dict):
                out[k] = combine_dicts(v, supplementary[k])
            else:
                out[k] = supplementary[k]
        else:
            out[k] = primary[k]
    for k in supplementary:
        if k not in primary:
            out[k] = supplementary[k]
    return out


class LangData:
    def __init__(self, repo):
        self.repo = repo
        self._info = {}

    def languages(self):
        return sorted(f[:-3] for f in self.repo.listdir(LANG_DIR) if f.endswith(".py") and f != "__init__.py")

    def info(self, lang):
        if lang not in self._info:
            rel = "%s/%s.py" % (LANG_DIR, lang)
            tree = self.repo.ast(rel)
            node = None
            for n in tree.body:
                if isinstance(n, ast.Assign) and len(n.targets) == 1 and getattr(n.targets[0], "id", None) == "info":
                    node = n.value
            if node is None:
                raise AnalysisError("data", "no `info = {...}` in " + rel)
            try:
                self._info[lang] = ast.literal_eval(node)
            except Exception as e:
                raise AnalysisError("data", "info literal of %s is not a plain literal: %s" % (rel, e))
        return self._info[lang]

    def locales(self, lang):
        return list(self.info(lang).get("locale_specific", {}).keys())

    def locale_info(self, lang, locale=None):
        """info as Locale.__init__ builds it"""
        li = self.info(lang)
        spec = li.get("locale_specific", {}).get(locale, {}) if locale and locale != lang else {}
        info = combine_dicts(li, spec)
        info.pop("locale_specific", None)
        return info

    def all_locales(self):
        for lang in self.languages():
            yield lang, lang
            for loc in self.locales(lang):
                yield lang, loc


def eval_literal(node, env):
    """ast.literal_eval that also resolves bare names through env (module-level literals)"""
    if isinstance(node, ast.Name):
        if node.id in env:
            return eval_literal(env[node.id], env)
        raise ValueError("name %s is not a module-level literal" % node.id)
    if isinstance(node, ast.Dict):
        return {eval_literal(k, env): eval_literal(v, env) for k, v in zip(node.keys, node.values)}
    if isinstance(node, ast.List):
        return [eval_literal(e, env) for e in node.elts]
    if isinstance(node, ast.Tuple):
        return tuple(eval_literal(e, env) for e in node.elts)
    if isinstance(node, ast.Set):
        return {eval_literal(e, env) for e in node.elts}
    if isinstance(node, ast.BinOp) and isinstance(node.op, ast.Add):
        # a table split over several named literals and put together again: A + B (lists, tuples, strings)
        a, b = eval_literal(node.left, env), eval_literal(node.right, env)
        if type(a) is type(b) and isinstance(a, (list, tuple, str)):
            return a + b
        raise ValueError("+ of %s and %s" % (type(a).__name__, type(b).__name__))
    if isinstance(node, ast.Call) and isinstance(node.func, ast.Name) and node.func.id in ("list", "tuple", "set", "frozenset") and len(node.args) == 1 \
            and not node.keywords:
        v = eval_literal(node.args[0], env)
        return {"list": list, "tuple": tuple, "set": set, "frozenset": frozenset}[node.func.id](v)
    return ast.literal_eval(node)


def module_literal(repo, rel, name):
    tree = repo.ast(rel)
    env = {}
    for n in tree.body:
        if isinstance(n, ast.Assign):
            for t in n.targets:
                if isinstance(t, ast.Name):
                    env[t.id] = n.value
    if name not in env:
        raise AnalysisError("data", "%s has no top-level %s" % (rel, name))
    try:
        return eval_literal(env[name], env)
    except Exception as e:
        raise AnalysisError("data", "%s.%s is not a plain literal: %s" % (rel, name, e))

"""Source map of the repository under analysis.

Everything the checks know about /repo comes through this class: it reads files
(text or bytes) from $VERIF_REPO on every run and never imports anything from it.
Self-tests pass an in-memory overlay {relative path -> text | None (deleted)}.
"""
import ast
import os


class AnalysisError(Exception):
    """The analysis cannot decide (anchor vanished, unknown idiom, parse error)."""

    def __init__(self, rule, reason):
        super().__init__("%s: %s" % (rule, reason))
        self.rule = rule
        self.reason = reason


class Repo:
    def __init__(self, root=None, overlay=None):
        self.root = os.path.abspath(root or os.environ.get("VERIF_REPO", "/repo"))
        self.overlay = dict(overlay or {})
        self._text = {}
        self._ast = {}

    def with_overlay(self, overlay):
        ov = dict(self.overlay)
        ov.update(overlay)
        return Repo(self.root, ov)

    def path(self, rel):
        return os.path.join(self.root, rel)

    def exists(self, rel):
        if rel in self.overlay:
            return self.overlay[rel] is not None
        return os.path.isfile(self.path(rel))

    def text(self, rel):
        if rel in self.overlay:
            v = self.overlay[rel]
            if v is None:
                raise AnalysisError("repo", "file deleted in overlay: " + rel)
            return v
        if rel not in self._text:
            try:
                with open(self.path(rel), encoding="utf-8") as f:
                    self._text[rel] = f.read()
            except OSError as e:
                raise AnalysisError("repo", "cannot read %s: %s" % (rel, e))
        return self._text[rel]

    def bytes(self, rel):
        if rel in self.overlay:
            v = self.overlay[rel]
            if v is None:
                raise AnalysisError("repo", "file deleted in overlay: " + rel)
            return v if isinstance(v, bytes) else v.encode("utf-8")
        try:
            with open(self.path(rel), "rb") as f:
                return f.read()
        except OSError as e:
            raise AnalysisError("repo", "cannot read %s: %s" % (rel, e))

    def ast(self, rel):
        if rel not in self._ast:
            try:
                tree = ast.parse(self.text(rel), rel)
                if rel.startswith(("dateparser/", "dateparser_scripts/")) and not rel.startswith("dateparser/data/"):
                    from .normalize import normalize
                    tree = normalize(tree)
                self._ast[rel] = tree
            except SyntaxError as e:
                raise AnalysisError("repo", "syntax error in %s: %s" % (rel, e))
        return self._ast[rel]

    def listdir(self, rel):
        names = set()
        d = self.path(rel)
        if os.path.isdir(d):
            names.update(os.listdir(d))
        prefix = rel.rstrip("/") + "/"
        for k, v in self.overlay.items():
            if k.startswith(prefix) and "/" not in k[len(prefix):]:
                if v is None:
                    names.discard(k[len(prefix):])
                else:
                    names.add(k[len(prefix):])
        return sorted(names)

    def walk_py(self, rel):
        """all .py files below rel (relative paths), overlay included"""
        out = set()
        base = self.path(rel)
        for dp, dn, fn in os.walk(base):
            dn[:] = [d for d in dn if d != "__pycache__"]
            for f in fn:
                if f.endswith(".py"):
                    out.add(os.path.relpath(os.path.join(dp, f), self.root))
        for k, v in self.overlay.items():
            if k.startswith(rel.rstrip("/") + "/") and k.endswith(".py"):
                if v is None:
                    out.discard(k)
                else:
                    out.add(k)
        return sorted(out)

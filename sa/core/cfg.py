"""Statement-level control-flow graph with exception edges, dominators, path queries.

Nodes are simple statements, the tests of if/while, the headers of for/with, handler
entries and three synthetic nodes ENTRY, EXIT (normal return), RAISE (exception leaves
the function).  `finally` bodies are duplicated per way of leaving the try statement.

may_raise(stmt_or_test_node) -> None (cannot raise) | "any" | set of exception class names
decides the exception edges; exc_sub(a, b) tells whether class a is caught by handler b.
"""
import ast

ANY = "any"


class Node:
    __slots__ = ("id", "stmt", "kind", "label")

    def __init__(self, id_, stmt, kind, label=""):
        self.id = id_
        self.stmt = stmt
        self.kind = kind  # 'entry' 'exit' 'raise' 'stmt' 'test' 'loop' 'with' 'handler' 'join'
        self.label = label

    def __repr__(self):
        line = getattr(self.stmt, "lineno", "-")
        return "<%d %s L%s %s>" % (self.id, self.kind, line, self.label)


class _Frame:
    def __init__(self, kind, **kw):
        self.kind = kind  # 'try' (handlers) | 'finally' | 'loop'
        self.__dict__.update(kw)


class CFG:
    def __init__(self, fn_node, may_raise=None, exc_sub=None, handler_names=None):
        self.fn = fn_node
        self.nodes = []
        self.succ = {}
        self.pred = {}
        self.may_raise = may_raise or default_may_raise
        self.exc_sub = exc_sub or (lambda a, b: a == b or b in ("Exception", "BaseException"))
        self.handler_names = handler_names or _handler_names
        self.entry = self._node(None, "entry")
        self.exit = self._node(None, "exit")
        self.raise_ = self._node(None, "raise")
        self.stmt_nodes = {}  # id(ast stmt) -> [node ids] (finally bodies are duplicated)
        body = fn_node.body if isinstance(fn_node.body, list) else [ast.Expr(value=fn_node.body)]
        out = self._block(body, [(self.entry.id, "n")], [])
        self._connect(out, self.exit.id)

    # -- construction -----------------------------------------------------
    def _node(self, stmt, kind, label=""):
        n = Node(len(self.nodes), stmt, kind, label)
        self.nodes.append(n)
        self.succ[n.id] = set()
        self.pred[n.id] = set()
        if stmt is not None:
            self.stmt_nodes.setdefault(id(stmt), []).append(n.id)
        return n

    def _edge(self, a, b, label="n"):
        self.succ[a].add((b, label))
        self.pred[b].add((a, label))

    def _connect(self, frontier, target):
        for a, label in frontier:
            self._edge(a, target, label)

    def _block(self, stmts, frontier, frames):
        for s in stmts:
            if not frontier:
                break  # unreachable code
            frontier = self._stmt(s, frontier, frames)
        return frontier

    def _stmt(self, s, frontier, frames):
        if isinstance(s, (ast.FunctionDef, ast.AsyncFunctionDef, ast.ClassDef)):
            n = self._node(s, "stmt", "def")
            self._connect(frontier, n.id)
            return [(n.id, "n")]
        if isinstance(s, ast.If):
            t = self._node(s, "test", "if")
            self._connect(frontier, t.id)
            self._exc(t, s.test, frames)
            a = self._block(s.body, [(t.id, "t")], frames)
            b = self._block(s.orelse, [(t.id, "f")], frames) if s.orelse else [(t.id, "f")]
            return a + b
        if isinstance(s, (ast.While, ast.For, ast.AsyncFor)):
            h = self._node(s, "loop", "while" if isinstance(s, ast.While) else "for")
            self._connect(frontier, h.id)
            self._exc(h, s.test if isinstance(s, ast.While) else s.iter, frames)
            fr = _Frame("loop", header=h.id, breaks=[])
            body_out = self._block(s.body, [(h.id, "t")], frames + [fr])
            self._connect(body_out, h.id)
            exits = [(h.id, "f")]
            if s.orelse:
                exits = self._block(s.orelse, exits, frames)
            infinite = isinstance(s, ast.While) and isinstance(s.test, ast.Constant) and bool(s.test.value)
            if infinite:
                exits = []
            return exits + fr.breaks
        if isinstance(s, (ast.With, ast.AsyncWith)):
            w = self._node(s, "with", "with")
            self._connect(frontier, w.id)
            self._exc(w, s, frames, exprs=[i.context_expr for i in s.items])
            return self._block(s.body, [(w.id, "n")], frames)
        if isinstance(s, ast.Try):
            return self._try(s, frontier, frames)
        if isinstance(s, ast.Return):
            n = self._node(s, "stmt", "return")
            self._connect(frontier, n.id)
            if s.value is not None:
                self._exc(n, s.value, frames)
            self._jump([(n.id, "n")], frames, "return")
            return []
        if isinstance(s, ast.Raise):
            n = self._node(s, "stmt", "raise")
            self._connect(frontier, n.id)
            self._exc(n, s, frames, force=True)
            return []
        if isinstance(s, ast.Break):
            n = self._node(s, "stmt", "break")
            self._connect(frontier, n.id)
            self._jump([(n.id, "n")], frames, "break")
            return []
        if isinstance(s, ast.Continue):
            n = self._node(s, "stmt", "continue")
            self._connect(frontier, n.id)
            self._jump([(n.id, "n")], frames, "continue")
            return []
        n = self._node(s, "stmt", type(s).__name__)
        self._connect(frontier, n.id)
        self._exc(n, s, frames)
        return [(n.id, "n")]

    def _try(self, s, frontier, frames):
        fin = _Frame("finally", body=s.finalbody) if s.finalbody else None
        outer = frames + ([fin] if fin else [])
        handlers = []
        for h in s.handlers:
            hn = self._node(h, "handler", "except " + (ast.unparse(h.type) if h.type else ""))
            handlers.append((self.handler_names(h), hn, h))
        tf = _Frame("try", handlers=handlers)
        body_out = self._block(s.body, frontier, outer + [tf])
        if s.orelse:
            body_out = self._block(s.orelse, body_out, outer)
        outs = list(body_out)
        for names, hn, h in handlers:
            outs += self._block(h.body, [(hn.id, "n")], outer)
        if fin:
            outs = self._block(s.finalbody, outs, frames) if outs else []
        return outs

    def _jump(self, frontier, frames, kind):
        """return / break / continue: run enclosing finally bodies, then reach the target"""
        i = len(frames)
        while i > 0:
            i -= 1
            fr = frames[i]
            if fr.kind == "finally":
                frontier = self._block(fr.body, frontier, frames[:i])
                if not frontier:
                    return
            elif fr.kind == "loop" and kind in ("break", "continue"):
                if kind == "break":
                    fr.breaks.extend(frontier)
                else:
                    self._connect(frontier, fr.header)
                return
        if kind == "return":
            self._connect(frontier, self.exit.id)

    def _exc(self, node, target, frames, exprs=None, force=False):
        """exception edges out of `node`; target = the AST evaluated at this node"""
        targets = exprs if exprs is not None else [target]
        classes = None
        for t in targets:
            c = self.may_raise(t)
            if c == ANY:
                classes = ANY
                break
            if c:
                classes = (classes or set()) | set(c)
        if force and not classes:
            classes = ANY
        if not classes:
            return
        todo = [ANY] if classes == ANY else sorted(classes)
        for exc in todo:
            self._route(node.id, exc, frames)

    def _route(self, src, exc, frames):
        frontier = [(src, "exc:" + exc)]
        i = len(frames)
        while i > 0:
            i -= 1
            fr = frames[i]
            if fr.kind == "finally":
                frontier = self._block(fr.body, frontier, frames[:i])
                if not frontier:
                    return
                # after the finally body the exception continues outward
                frontier = [(a, "exc:" + exc) for a, _ in frontier]
            elif fr.kind == "try":
                caught = False
                for names, hn, h in fr.handlers:
                    for nm in names:
                        if exc == ANY:
                            self._connect(frontier, hn.id)
                            if nm is None or nm in ("Exception", "BaseException"):
                                caught = True
                            break
                        if nm is None or self.exc_sub(exc, nm):
                            self._connect(frontier, hn.id)
                            caught = True
                            break
                    if caught:
                        break
                if caught:
                    return
        self._connect(frontier, self.raise_.id)

    # -- queries ------------------------------------------------------------
    def nodes_of(self, stmt):
        return list(self.stmt_nodes.get(id(stmt), []))

    def reachable_from(self, start_ids, avoid=frozenset(), labels=None):
        seen = set()
        work = list(start_ids)
        while work:
            n = work.pop()
            if n in seen or n in avoid:
                continue
            seen.add(n)
            for m, label in self.succ[n]:
                if labels is not None and not labels(n, m, label):
                    continue
                if m not in seen:
                    work.append(m)
        return seen

    def dominators(self):
        if hasattr(self, "_dom"):
            return self._dom
        ids = [n.id for n in self.nodes]
        reach = self.reachable_from([self.entry.id])
        dom = {i: set(reach) for i in reach}
        dom[self.entry.id] = {self.entry.id}
        changed = True
        order = sorted(reach)
        while changed:
            changed = False
            for n in order:
                if n == self.entry.id:
                    continue
                preds = [p for p, _ in self.pred[n] if p in reach]
                new = set(reach)
                for p in preds:
                    new &= dom[p]
                new = new | {n}
                if new != dom[n]:
                    dom[n] = new
                    changed = True
        self._dom = dom
        return dom

    def dominates(self, a_stmt, b_stmt):
        """every path from entry to (any copy of) b passes through (some copy of) a"""
        dom = self.dominators()
        a_ids = set(self.nodes_of(a_stmt))
        b_ids = [b for b in self.nodes_of(b_stmt) if b in dom]
        if not a_ids or not b_ids:
            return False
        return all(dom[b] & a_ids for b in b_ids)

    def path_avoiding(self, start_ids, target_ids, avoid_ids):
        """a path from start to target that touches no node of avoid (node id list) or None"""
        from collections import deque

        prev = {}
        dq = deque()
        for s in start_ids:
            if s in avoid_ids:
                continue
            prev[s] = None
            dq.append(s)
        while dq:
            n = dq.popleft()
            if n in target_ids:
                out = []
                while n is not None:
                    out.append(n)
                    n = prev[n]
                return list(reversed(out))
            for m, _ in self.succ[n]:
                if m not in prev and m not in avoid_ids:
                    prev[m] = n
                    dq.append(m)
        return None

    def reaching_defs(self, var):
        """{node id: set of node ids whose statement assigns `var` and may reach the node's entry};
        the entry node stands for "parameter / not assigned yet"."""
        key = "_rd_" + var
        if hasattr(self, key):
            return getattr(self, key)
        defs = {}
        for n in self.nodes:
            s = n.stmt
            if n.kind == "stmt" and isinstance(s, (ast.Assign, ast.AugAssign, ast.AnnAssign)):
                tg = s.targets if isinstance(s, ast.Assign) else [s.target]
                if any(isinstance(x, ast.Name) and x.id == var for t in tg for x in ast.walk(t)):
                    defs[n.id] = True
            elif n.kind == "loop" and isinstance(s, ast.For):
                if any(isinstance(x, ast.Name) and x.id == var for x in ast.walk(s.target)):
                    defs[n.id] = True
            elif n.kind == "with":
                for it in s.items:
                    if it.optional_vars is not None and any(isinstance(x, ast.Name) and x.id == var for x in ast.walk(it.optional_vars)):
                        defs[n.id] = True
        IN = {n.id: set() for n in self.nodes}
        OUT = {n.id: set() for n in self.nodes}
        OUT[self.entry.id] = {self.entry.id}
        changed = True
        while changed:
            changed = False
            for n in self.nodes:
                if n.id == self.entry.id:
                    continue
                new_in = set()
                for p, label in self.pred[n.id]:
                    # an exception edge out of an assignment leaves before the assignment happened
                    if label.startswith("exc") and p in defs:
                        new_in |= IN[p]
                    else:
                        new_in |= OUT[p]
                new_out = {n.id} if n.id in defs else new_in
                if new_in != IN[n.id] or new_out != OUT[n.id]:
                    IN[n.id], OUT[n.id] = new_in, new_out
                    changed = True
        setattr(self, key, IN)
        return IN

    def node_of_expr(self, fn_node, expr):
        """id of the CFG node whose statement/test contains the expression node"""
        for n in self.nodes:
            s = n.stmt
            if s is None:
                continue
            roots = [s]
            if n.kind == "test":
                roots = [s.test]
            elif n.kind == "loop":
                roots = [s.test] if isinstance(s, ast.While) else [s.iter, s.target]
            elif n.kind == "with":
                roots = [i.context_expr for i in s.items]
            elif n.kind == "handler":
                roots = [s.type] if s.type is not None else []
            for r in roots:
                for x in ast.walk(r):
                    if x is expr:
                        return n.id
        return None

    def describe(self, ids):
        return [repr(self.nodes[i]) for i in ids]


def _handler_names(h):
    if h.type is None:
        return [None]
    ts = h.type.elts if isinstance(h.type, ast.Tuple) else [h.type]
    return [ast.unparse(t).split(".")[-1] for t in ts]


def default_may_raise(node):
    """conservative default: anything that evaluates a call, subscript, attribute or
    arithmetic may raise"""
    if node is None:
        return None
    if isinstance(node, ast.Raise):
        return ANY
    if isinstance(node, (ast.Pass, ast.Break, ast.Continue, ast.Global, ast.Nonlocal)):
        return None
    for n in ast.walk(node):
        if isinstance(n, (ast.Call, ast.Subscript, ast.BinOp, ast.Attribute, ast.Assert, ast.Raise, ast.Await)):
            if isinstance(n, ast.Attribute) and isinstance(n.ctx, ast.Store):
                continue
            return ANY
    return None

"""May-raise / exception-escape analysis.

escape(f) = U over sites s of f: raised(s) - handled(s), least fixpoint over the call
graph.  raised(s) comes from the primitive table below (external operations), from
`raise` / `assert` statements and from the escape sets of resolved callees.
Every escaping (function, class) keeps a witness chain of (function, line, text).
"""
import ast
import os
import builtins

from .index import Func, iter_own_nodes, iter_own_stmts
from .types import DT, NONE, RD, STR, TD, TZ

# ---------------------------------------------------------------------------
# exception class hierarchy


class ExcHierarchy:
    EXTERNAL = {
        # name: bases
        "UnknownTimeZoneError": ("KeyError",),
        "InvalidTimeError": ("Exception",),
        "NonExistentTimeError": ("InvalidTimeError",),
        "AmbiguousTimeError": ("InvalidTimeError",),
        "PickleError": ("Exception",),
        "UnpicklingError": ("PickleError",),
        "regex.error": ("Exception",),
        "IllegalMonthError": ("ValueError",),
    }

    def __init__(self, index):
        self.bases = {}
        for n in dir(builtins):
            o = getattr(builtins, n)
            if isinstance(o, type) and issubclass(o, BaseException):
                self.bases[o.__name__] = tuple(b.__name__ for b in o.__bases__ if b is not object)
        self.bases.update(self.EXTERNAL)
        for c in index.classes.values():
            bs = []
            for b in c.node.bases:
                bs.append(ast.unparse(b).split(".")[-1])
            if bs:
                self.bases.setdefault(c.name, tuple(bs))
        # keep only exception-like project classes
        self.bases = {k: v for k, v in self.bases.items() if self._is_exc(k, v)}

    def _is_exc(self, k, v, depth=0):
        if k == "BaseException":
            return True
        if depth > 10:
            return False
        return any(b in self.bases and self._is_exc(b, self.bases.get(b, ()), depth + 1) for b in v)

    def known(self, name):
        return name in self.bases

    def issub(self, a, b):
        if a == b:
            return True
        for p in self.bases.get(a, ()):
            if self.issub(p, b):
                return True
        return False

    def ancestors(self, a):
        out = [a]
        for p in self.bases.get(a, ()):
            out += self.ancestors(p)
        return out


# ---------------------------------------------------------------------------


class Site:
    __slots__ = ("fn", "node", "stmt", "kind", "excs", "callees", "stack", "text", "why", "reraise_of")

    def __init__(self, fn, node, stmt, kind, stack, excs=None, callees=None, why=""):
        self.fn = fn
        self.node = node
        self.stmt = stmt
        self.kind = kind  # 'prim' | 'call' | 'raise' | 'reraise' | 'assert'
        self.excs = excs or {}
        self.callees = callees or []
        self.stack = stack
        self.why = why
        self.reraise_of = None
        try:
            self.text = ast.unparse(node)
        except Exception:
            self.text = "?"

    @property
    def line(self):
        return getattr(self.node, "lineno", getattr(self.stmt, "lineno", 0))

    def ident(self):
        """stable identity: function + normalised text of the construct"""
        return (self.fn.key, " ".join(self.text.split()))


class Frame:
    """one `try` statement on the handler stack"""

    def __init__(self, node, handlers):
        self.node = node
        self.handlers = handlers  # [(names or None for bare, handler node)]


DATE_KW = {"year", "month", "day", "hour", "minute", "second", "microsecond"}
PICKLE_LOAD_FAILURES = (
    "EOFError", "UnpicklingError", "AttributeError", "ImportError", "IndexError",
    "KeyError", "ValueError", "TypeError", "UnicodeDecodeError", "OverflowError",
)


class Effects:
    def __init__(self, cg, suppress=None, entries_hint=None):
        self.cg = cg
        self.ix = cg.ix
        self.ti = cg.ti
        self.h = ExcHierarchy(self.ix)
        self._suppress_fn = suppress or (lambda site, exc, origin=None: None)
        self.suppressed = []  # (site, exc, reason)
        self.untyped_arith = []  # binops whose operands could not be typed (fail-open)
        self.parallel_index_log = {}  # (function, subscript, walked sequence) -> verdict of the parallel-index rule
        self.sites = {}
        self.incoming = {}  # id(handler node) -> {exc: witness}
        self.esc = {k: {} for k in self.ix.funcs}
        self.handler_nodes = {}
        # functions the rule instances were never confirmed against (sa/known_functions.json): their primitive may-raise sites are not
        # propagated (no exemption table entry can exist for them yet); the check reports that as ANALYSIS-ERROR (core/unconfirmed.py)
        unconfirmed = set()
        if os.environ.get("SA_DROP_UNCONFIRMED"):
            # second pass of core/unconfirmed.py: which findings disappear when nothing is born in the new functions?
            from .unconfirmed import new_function_keys
            unconfirmed = new_function_keys(self.ix)
        dropped = getattr(cg, "_effects_dropped", None)
        if dropped is None:
            dropped = cg._effects_dropped = set()
        for f in self.ix.funcs.values():
            sites = self._collect(f)
            g = f
            own_new = False
            while g is not None:
                if g.key in unconfirmed:
                    own_new = True
                    break
                g = g.parent
            if own_new:
                for st in sites:
                    if st.kind == "prim" and st.excs:
                        dropped.add((f.key, tuple(sorted(st.excs))))
                        st.excs = {}
            self.sites[f.key] = sites
        self._fixpoint()

    def suppress(self, site, exc, origin=None):
        try:
            return self._suppress_fn(site, exc, origin)
        except TypeError:
            return self._suppress_fn(site, exc)

    # ------------------------------------------------------------------
    def handler_names(self, h, f):
        if h.type is None:
            return [None]
        ts = h.type.elts if isinstance(h.type, ast.Tuple) else [h.type]
        out = []
        for t in ts:
            name = ast.unparse(t).split(".")[-1]
            if ast.unparse(t) in ("re.error", "regex.error"):
                name = "regex.error"
            out.append(name)
        return out

    def _collect(self, f):
        sites = []
        node = f.node
        if isinstance(node, ast.Lambda):
            self._expr_sites(node.body, node.body, f, [], sites, None)
            return sites
        self._walk(node.body, f, [], sites, None)
        return sites

    def _walk(self, stmts, f, stack, sites, in_handler):
        for s in stmts:
            if isinstance(s, (ast.FunctionDef, ast.AsyncFunctionDef, ast.ClassDef)):
                continue
            if isinstance(s, ast.Try):
                frame = Frame(s, [(self.handler_names(h, f), h) for h in s.handlers])
                self._walk(s.body, f, stack + [frame], sites, in_handler)
                for h in s.handlers:
                    self.handler_nodes[id(h)] = (f, h)
                    self._walk(h.body, f, stack, sites, h)
                self._walk(s.orelse, f, stack, sites, in_handler)
                self._walk(s.finalbody, f, stack, sites, in_handler)
                continue
            if isinstance(s, ast.Raise):
                self._raise_site(s, f, stack, sites, in_handler)
                if s.exc is not None:
                    self._expr_sites(s.exc, s, f, stack, sites, in_handler, skip_top_call=True)
                continue
            if isinstance(s, ast.Assert):
                sites.append(Site(f, s, s, "assert", stack, excs={"AssertionError": "assert"}))
                self._expr_sites(s.test, s, f, stack, sites, in_handler)
                continue
            # expressions belonging to this statement (not to nested statement bodies)
            for fld, val in ast.iter_fields(s):
                if fld in ("body", "orelse", "finalbody", "handlers", "cases"):
                    continue
                vals = val if isinstance(val, list) else [val]
                for v in vals:
                    if isinstance(v, ast.AST):
                        self._expr_sites(v, s, f, stack, sites, in_handler)
            if isinstance(s, ast.AugAssign):
                self._arith(ast.BinOp(left=s.target, op=s.op, right=s.value), s, s, f, stack, sites)
            for fld in ("body", "orelse", "finalbody"):
                sub = getattr(s, fld, None)
                if isinstance(sub, list):
                    self._walk(sub, f, stack, sites, in_handler)

    def _raise_site(self, s, f, stack, sites, in_handler):
        e = s.exc
        if e is None:
            st = Site(f, s, s, "reraise", stack)
            st.reraise_of = in_handler
            sites.append(st)
            return
        if isinstance(e, ast.Name) and in_handler is not None and in_handler.name == e.id:
            st = Site(f, s, s, "reraise", stack)
            st.reraise_of = in_handler
            sites.append(st)
            return
        target = e.func if isinstance(e, ast.Call) else e
        name = ast.unparse(target).split(".")[-1]
        if not self.h.known(name):
            # raising a variable bound elsewhere: approximate with Exception
            name = "Exception"
        sites.append(Site(f, s, s, "raise", stack, excs={name: "raise " + name}))

    def _expr_sites(self, expr, stmt, f, stack, sites, in_handler, skip_top_call=False):
        work = [expr]
        first = True
        while work:
            n = work.pop()
            if isinstance(n, ast.Lambda):
                continue
            if isinstance(n, ast.Call):
                if not (skip_top_call and first):
                    self._call(n, stmt, f, stack, sites)
            elif isinstance(n, ast.BinOp):
                self._arith(n, n, stmt, f, stack, sites)
            elif isinstance(n, ast.Subscript):
                self._subscript(n, stmt, f, stack, sites)
            elif isinstance(n, (ast.Compare, ast.comprehension)):
                if isinstance(n, ast.Compare):
                    self._dt_compare(n, stmt, f, stack, sites)
                imp = self.ti.implicit_callees(n, f)
                if imp:
                    sites.append(Site(f, n, stmt, "call", stack, callees=imp))
            if isinstance(n, ast.Subscript):
                imp = self.ti.implicit_callees(n, f)
                if imp:
                    sites.append(Site(f, n, stmt, "call", stack, callees=imp))
            first = False
            work.extend(ast.iter_child_nodes(n))
        if isinstance(stmt, ast.For) and expr is stmt.iter:
            imp = self.ti.implicit_callees(stmt, f)
            if imp:
                sites.append(Site(f, stmt.iter, stmt, "call", stack, callees=imp))

    # ------------------------------------------------------------------ primitives
    def _call(self, n, stmt, f, stack, sites):
        cs = None
        for s in self.cg.sites.get(f.key, ()):
            if s.node is n:
                cs = s
                break
        callees = list(cs.callees) if cs else []
        if callees:
            sites.append(Site(f, n, stmt, "call", stack, callees=callees))
        excs = {}
        fn = n.func
        ext = cs.ext if cs else None
        kws = {k.arg for k in n.keywords if k.arg}
        recv = cs.recv if cs else set()

        def add(name, why):
            excs.setdefault(name, why)

        if isinstance(fn, ast.Attribute):
            a = fn.attr
            maybe_dt = (not recv) or (DT in recv)
            maybe_tz = (not recv) or (TZ in recv)
            only_str = bool(recv) and all(t in (STR, NONE) for t in recv)
            if a == "astimezone":
                add("OverflowError", "datetime.astimezone near datetime.min/max")
            elif a in ("localize", "normalize") and maybe_tz:
                add("OverflowError", "pytz %s does +-1 day arithmetic" % a)
                for k in n.keywords:
                    if k.arg == "is_dst" and isinstance(k.value, ast.Constant) and k.value.value is None:
                        add("NonExistentTimeError", "localize(is_dst=None)")
                        add("AmbiguousTimeError", "localize(is_dst=None)")
            elif a in ("utcoffset", "dst") and maybe_tz and n.args:
                add("NonExistentTimeError", "pytz tz.%s(naive) localises with is_dst=None" % a)
                add("AmbiguousTimeError", "pytz tz.%s(naive) localises with is_dst=None" % a)
            elif a == "replace" and (kws & DATE_KW) and not only_str:
                add("ValueError", "datetime.replace with out-of-range field")
            elif a == "replace" and any(k.arg is None for k in n.keywords) and not only_str and maybe_dt:
                add("ValueError", "datetime.replace(**kw)")
            elif a in ("index", "remove") and n.args:
                add("ValueError", "list/str.%s of a missing element" % a)
            elif a in ("group", "groupdict", "groups", "span", "start", "end"):
                v = fn.value
                if (NONE in recv or (isinstance(v, ast.Call) and isinstance(v.func, ast.Attribute)
                                     and v.func.attr in ("search", "match", "fullmatch"))) \
                        and not none_guarded(f, n, v):
                    add("AttributeError", "match object may be None")
            elif a == "fromtimestamp":
                add("OverflowError", "fromtimestamp out of range")
                add("OSError", "fromtimestamp out of range")
                add("ValueError", "fromtimestamp out of range")
            elif a == "strptime":
                add("ValueError", "strptime mismatch")
            elif a == "load" and ext and ext.startswith("pickle"):
                for x in PICKLE_LOAD_FAILURES:
                    add(x, "pickle.load on damaged data")
            elif a == "time" and ext == ".time" and False:
                pass
        if ext:
            e = ext
            if e in ("datetime.datetime",):
                add("ValueError", "datetime() field out of range")
            elif e in ("datetime.datetime.fromtimestamp",):
                add("OverflowError", "fromtimestamp out of range")
                add("OSError", "fromtimestamp out of range")
                add("ValueError", "fromtimestamp out of range")
            elif e in ("datetime.datetime.strptime",):
                add("ValueError", "strptime mismatch")
            elif e == "dateutil.relativedelta.relativedelta":
                add("ValueError", "relativedelta() non-integer years/months")
            elif e == "pytz.timezone":
                add("UnknownTimeZoneError", "pytz.timezone(unknown name)")
            elif e in ("builtins.int", "builtins.float"):
                if n.args and not isinstance(n.args[0], ast.Constant):
                    at = self.ti.type_of(n.args[0], f)
                    if (not at or not all(t in ("X:int", "X:float", "X:bool") for t in at)) \
                            and not numeric_string(n.args[0], f, self.ix, e.endswith("float")):
                        add("ValueError", "%s() of a non-numeric string" % e.split(".")[1])
            elif e == "builtins.next":
                if len(n.args) == 1 and not n.keywords:
                    add("StopIteration", "next() of an iterator that may be exhausted, without a default")
            elif e == "builtins.eval":
                add("Exception", "eval of arbitrary text")
            elif e == "importlib.import_module":
                add("ImportError", "import_module of a missing module")
            elif e in ("pickle.load", "pickle.loads"):
                for x in PICKLE_LOAD_FAILURES:
                    add(x, "pickle.load on damaged data")
            elif e == "builtins.open":
                add("OSError", "open()")
            elif e in ("regex.compile", "re.compile", "regex.sub", "re.sub", "regex.search", "re.search",
                       "regex.match", "re.match", "regex.split", "re.split", "regex.findall"):
                if n.args and fold_str(n.args[0], f, self.ix) is None:
                    pt = self.ti.type_of(n.args[0], f)
                    if "X:pattern" not in pt:
                        add("regex.error", "dynamic pattern")
        if isinstance(fn, ast.Name) and fn.id == "__strptime" or (isinstance(fn, ast.Name) and fn.id == "strptime" and not callees):
            add("ValueError", "strptime mismatch")
        if excs:
            sites.append(Site(f, n, stmt, "prim", stack, excs=excs))

    def _arith(self, b, node, stmt, f, stack, sites):
        if isinstance(b.op, (ast.Add, ast.Sub)):
            lt, rt = self.ti.type_of(b.left, f), self.ti.type_of(b.right, f)
            excs = {}
            dt_l, dt_r = DT in lt, DT in rt
            d_l, d_r = bool({TD, RD} & lt), bool({TD, RD} & rt)
            if (dt_l and d_r) or (dt_r and d_l and isinstance(b.op, ast.Add)):
                excs["OverflowError"] = "datetime +- delta beyond datetime.min/max"
                if RD in lt or RD in rt:
                    excs["ValueError"] = "datetime +- relativedelta: year out of range"
            elif (dt_l and not rt) or (d_r and not lt) or (dt_r and not lt and isinstance(b.op, ast.Add)):
                # one side is a datetime/delta, the other is untyped: assume it may be the dual
                excs["OverflowError"] = "datetime +- (untyped) delta"
                self.untyped_arith.append((f.key, getattr(node, "lineno", 0), ast.unparse(b)))
            if excs:
                sites.append(Site(f, node, stmt, "prim", stack, excs=excs))
        elif isinstance(b.op, (ast.Div, ast.FloorDiv)):
            if not isinstance(b.right, ast.Constant) and not zero_guarded(f, node):
                sites.append(Site(f, node, stmt, "prim", stack,
                                  excs={"ZeroDivisionError": "division by a computed value"}))

    def _dt_compare(self, n, stmt, f, stack, sites):
        """ordering comparison of two datetimes: TypeError when one is offset-naive and the other offset-aware"""
        if not any(isinstance(o, (ast.Lt, ast.LtE, ast.Gt, ast.GtE)) for o in n.ops):
            return
        ops = [n.left] + list(n.comparators)
        for a, b in zip(ops, ops[1:]):
            if DT in self.ti.type_of(a, f) and DT in self.ti.type_of(b, f) and not awareness_aligned(f, n, a, b):
                sites.append(Site(f, n, stmt, "prim", stack, excs={
                    "TypeError": "comparison of %s with %s before their offset-awareness has been aligned" % (ast.unparse(a), ast.unparse(b))},
                    why="naive-vs-aware"))

    def _leneq(self):
        le = getattr(self.cg, "_leneq", None)
        if le is None:
            from .leneq import LenEq
            le = self.cg._leneq = LenEq(self.ix, self.cg)
        return le

    def _parallel_index(self, n, stmt, f, stack, sites, idx, extra):
        """B[idx (+ extra)] where idx counts the elements of ANOTHER local sequence A (for idx, x in enumerate(A) /
        for idx in range(len(A))): IndexError unless len(B) >= len(A) is established (length-equality analysis) or a
        dominating test bounds idx by len(B)"""
        base = n.value
        root = base
        while isinstance(root, ast.Subscript):
            root = root.value
        if not isinstance(root, ast.Name):
            return False        # attribute-held lists are outside the analysis
        loops = [(lp, seq) for lp, seq in loop_index_map(f).get(idx, []) if any(x is n for x in ast.walk(lp))]
        if not loops:
            return False
        lp, seq = loops[-1]
        if seq is None:
            return False
        sroot = seq
        while isinstance(sroot, ast.Subscript):
            sroot = sroot.value
        if not isinstance(sroot, ast.Name):
            return False
        bt, st_ = " ".join(ast.unparse(base).split()), " ".join(ast.unparse(seq).split())
        if bt == st_:
            return False
        log = self.parallel_index_log
        ent = (f.key, " ".join(ast.unparse(n).split()), st_)
        if len_guarded(f, n, idx, bt):
            log[ent] = "guarded by %s < len(%s)" % (idx, bt)
            return False
        why = None
        grown = _length_changed_in(lp, {root.id, sroot.id})
        if grown:
            why = "%s changes length inside the loop" % grown
        else:
            ok, why = self._leneq().covers(f, n, seq, extra=0)
            if ok:
                log[ent] = "proved: " + why
                return False
        log[ent] = "UNPROVED: " + str(why)
        sites.append(Site(f, n, stmt, "prim", stack, excs={
            "IndexError": "%s[%s] is indexed by the position in %s, but nothing establishes len(%s) >= len(%s) (%s)" % (
                bt, ast.unparse(n.slice), st_, bt, st_, why)}, why="parallel-index"))
        return True

    def _descending_scan(self, n, stmt, f, stack, sites):
        """X[i] in the test of a `while` whose body counts i down: i must start at len(X) - 1 with X known non-empty, and
        the body must leave the loop when i has passed the front (`i == -1` / `i < 0`) right after the decrement; any other
        stop value lets i run to -len(X) - 1 (negative indices wrap once, then IndexError)"""
        from .ctx import conjuncts, enclosing_tests
        sl = n.slice
        if not isinstance(sl, ast.Name):
            return
        loops = [w for w in iter_own_nodes(f.node) if isinstance(w, ast.While) and any(x is n for x in ast.walk(w.test))]
        if not loops:
            return
        w = loops[0]
        dec = [x for x in w.body if isinstance(x, ast.AugAssign) and isinstance(x.target, ast.Name) and x.target.id == sl.id
               and isinstance(x.op, ast.Sub) and isinstance(x.value, ast.Constant) and x.value.value == 1]
        if not dec:
            return
        seq = " ".join(ast.unparse(n.value).split())
        if isinstance(n.value, ast.Name):
            # a ring scan over a constant table (days[day_index] != day, the index wraps by design): out of this rule's scope
            lits = [x.value for x in iter_own_nodes(f.node) if isinstance(x, ast.Assign) and len(x.targets) == 1
                    and isinstance(x.targets[0], ast.Name) and x.targets[0].id == n.value.id]
            if lits and all(isinstance(v, (ast.List, ast.Tuple)) and all(isinstance(e, ast.Constant) for e in v.elts) for v in lits):
                return
        why = None
        # stop test right after the decrement
        idx = w.body.index(dec[0])
        nxt = w.body[idx + 1] if idx + 1 < len(w.body) else None
        stop_ok = False
        if isinstance(nxt, ast.If) and nxt.body and isinstance(nxt.body[-1], (ast.Return, ast.Break, ast.Raise)):
            t = " ".join(ast.unparse(nxt.test).split())
            stop_ok = t in ("%s == -1" % sl.id, "%s < 0" % sl.id, "%s <= -1" % sl.id, "-1 == %s" % sl.id)
            if not stop_ok:
                why = "the stop test `%s` does not catch the first index below 0" % t
        else:
            why = "no stop test follows the decrement"
        # start value and non-emptiness
        starts = [x for x in iter_own_nodes(f.node) if isinstance(x, ast.Assign) and len(x.targets) == 1 and isinstance(x.targets[0], ast.Name)
                  and x.targets[0].id == sl.id]
        start_ok = len(starts) == 1 and " ".join(ast.unparse(starts[0].value).split()) == "len(%s) - 1" % seq
        nonempty = False
        for t_, pol in enclosing_tests(f.node, w):
            for a, p in conjuncts(t_, pol):
                ta = " ".join(ast.unparse(a).split())
                if (ta in ("len(%s) == 0" % seq, "not %s" % seq) and not p) or (ta in (seq, "len(%s) > 0" % seq, "len(%s) != 0" % seq, "len(%s)" % seq) and p) \
                        or (ta == "len(%s) == 0" % seq and not p):
                    nonempty = True
        if stop_ok and start_ok and nonempty:
            return
        if why is None:
            why = "the counter does not start at len(%s) - 1" % seq if not start_ok else "%s may be empty" % seq
        sites.append(Site(f, n, stmt, "prim", stack, excs={
            "IndexError": "descending scan %s[%s]: %s" % (seq, sl.id, why)}, why="descending-scan"))

    def _subscript(self, n, stmt, f, stack, sites):
        """look-ahead rule: seq[i +- k] with i a loop index; parallel-index rule: B[i] with i the position in another list"""
        sl = n.slice
        if isinstance(sl, ast.Name) and isinstance(n.ctx, ast.Load) and sl.id not in loop_index_vars(f):
            self._descending_scan(n, stmt, f, stack, sites)
        if isinstance(sl, ast.Name) and isinstance(n.ctx, (ast.Load, ast.Store)) and sl.id in loop_index_vars(f):
            self._parallel_index(n, stmt, f, stack, sites, sl.id, 0)
        if not isinstance(n.ctx, ast.Load):
            return
        if isinstance(sl, ast.BinOp) and isinstance(sl.op, ast.Add) and isinstance(sl.right, ast.Constant) \
                and isinstance(sl.left, ast.Name):
            idx = sl.left.id
            if idx in loop_index_vars(f) and not bound_guarded(f, n, idx):
                sites.append(Site(f, n, stmt, "prim", stack,
                                  excs={"IndexError": "look-ahead %s[%s] without a bound on %s" % (
                                      ast.unparse(n.value), ast.unparse(sl), idx)}, why="lookahead"))
            elif idx in loop_index_vars(f):
                # the bound on idx refers to the sequence being walked: another sequence must be at least as long
                self._parallel_index(n, stmt, f, stack, sites, idx, 0)
            elif "X:list" in self.ti.type_of(n.value, f) and not bound_guarded(f, n, idx):
                # neighbour access through a computed position (tokens[original_index + 1])
                sites.append(Site(f, n, stmt, "prim", stack,
                                  excs={"IndexError": "neighbour access %s[%s] without a bound on %s" % (
                                      ast.unparse(n.value), ast.unparse(sl), idx)}, why="lookahead"))
        elif isinstance(sl, ast.BinOp) and isinstance(sl.op, (ast.Add, ast.Sub)) and isinstance(sl.right, ast.Constant) \
                and "X:list" in self.ti.type_of(n.value, f):
            nm = sl.left.id if isinstance(sl.left, ast.Name) else None
            if nm is None or (nm not in loop_index_vars(f) and not bound_guarded(f, n, nm)):
                sites.append(Site(f, n, stmt, "prim", stack,
                                  excs={"IndexError": "neighbour access %s[%s] at a computed position" % (
                                      ast.unparse(n.value), ast.unparse(sl))}, why="lookahead"))

    # ------------------------------------------------------------------ propagation
    def _catch(self, stack, exc):
        """innermost handler catching exc, or None"""
        for frame in reversed(stack):
            for names, h in frame.handlers:
                for nm in names:
                    if nm is None or self.h.issub(exc, nm):
                        return h
                    # a handler for a class we do not know catches nothing we track
        return None

    def _deliver(self, f, site, exc, origin, witness, changed):
        """origin = ident of the primitive site where exc is born"""
        if site.kind in ("prim", "raise", "assert", "call"):
            r = self.suppress(site, exc, origin)
            if r:
                key = (site.ident(), exc)
                if key not in self._suppressed_keys:
                    self._suppressed_keys.add(key)
                    self.suppressed.append((site, exc, r))
                return
        h = self._catch(site.stack, exc)
        if h is not None:
            inc = self.incoming.setdefault(id(h), {})
            if (exc, origin) not in inc:
                inc[(exc, origin)] = witness
                changed[0] = True
            return
        if (exc, origin) not in self.esc[f.key]:
            self.esc[f.key][(exc, origin)] = witness
            changed[0] = True

    def _fixpoint(self):
        self._suppressed_keys = set()
        changed = [True]
        rounds = 0
        while changed[0]:
            changed[0] = False
            rounds += 1
            if rounds > 80:
                break
            for k, sites in self.sites.items():
                f = self.ix.funcs[k]
                for s in sites:
                    if s.kind in ("prim", "raise", "assert"):
                        for exc, why in s.excs.items():
                            self._deliver(f, s, exc, s.ident(), [(k, s.line, s.text[:100], why)], changed)
                    elif s.kind == "reraise":
                        inc = self.incoming.get(id(s.reraise_of), {}) if s.reraise_of is not None else {}
                        for (exc, origin), w in list(inc.items()):
                            self._deliver(f, s, exc, origin, [(k, s.line, "re-raise", "")] + w, changed)
                    elif s.kind == "call":
                        for c in s.callees:
                            for (exc, origin), w in list(self.esc.get(c.key, {}).items()):
                                self._deliver(f, s, exc, origin,
                                              [(k, s.line, s.text[:100], "call " + c.key)] + w, changed)

    # ------------------------------------------------------------------ queries
    def escapes(self, key):
        """{(exc, origin ident): witness chain}"""
        return self.esc.get(key, {})

    def stmt_classes(self, f):
        """{id(stmt): {exc: why}} classes that may be raised while executing each statement /
        test of f, before f's own handlers are applied"""
        out = {}
        for s in self.sites.get(f.key, ()):
            d = out.setdefault(id(s.stmt), {})
            if s.kind in ("prim", "raise", "assert"):
                for exc, why in s.excs.items():
                    if not self.suppress(s, exc, s.ident()):
                        d.setdefault(exc, "%s (%s)" % (s.text[:50], why))
            elif s.kind == "call":
                for c in s.callees:
                    for (exc, origin), w in self.esc.get(c.key, {}).items():
                        if not self.suppress(s, exc, origin):
                            d.setdefault(exc, "%s <- %s" % (s.text[:40], origin[1][:40]))
            elif s.kind == "reraise":
                inc = self.incoming.get(id(s.reraise_of), {}) if s.reraise_of is not None else {}
                for (exc, origin) in inc:
                    d.setdefault(exc, "re-raise")
        return out

    def escaping_classes(self, key):
        return {e for e, _ in self.esc.get(key, {})}

    def may_raise_in(self, f, site_pred):
        """{exc: (site, why)} for the sites of f selected by site_pred, ignoring the
        handlers of f itself (used by restore-on-all-exits / handler-coverage rules)"""
        out = {}
        for s in self.sites.get(f.key, ()):
            if not site_pred(s):
                continue
            if s.kind in ("prim", "raise", "assert"):
                for exc, why in s.excs.items():
                    if not self.suppress(s, exc):
                        out.setdefault(exc, (s, why))
            elif s.kind == "call":
                for c in s.callees:
                    for (exc, origin), w in self.esc.get(c.key, {}).items():
                        out.setdefault(exc, (s, w))
        return out


def bound_guarded(f, node, idx):
    """a condition on the index variable is known to hold at `node` (Appendix A idioms)"""
    from .ctx import conjuncts, enclosing_tests, names_in

    for test, pol in enclosing_tests(f.node, node):
        for atom, p in conjuncts(test, pol):
            if isinstance(atom, ast.Compare) and idx in names_in(atom) and len(atom.ops) == 1:
                op = atom.ops[0]
                if p and isinstance(op, (ast.Lt, ast.LtE, ast.Gt, ast.GtE, ast.NotEq)):
                    return True
                if not p and isinstance(op, (ast.Eq, ast.Lt, ast.LtE, ast.Gt, ast.GtE)):
                    return True
    return False


def _root_text(e):
    """the value an expression's awareness derives from: x for x, x - delta, x + delta, x.replace(<no tzinfo>)"""
    while True:
        if isinstance(e, ast.BinOp) and isinstance(e.op, (ast.Add, ast.Sub)):
            e = e.left
        elif isinstance(e, ast.Call) and isinstance(e.func, ast.Attribute) and e.func.attr == "replace" \
                and not any(k.arg == "tzinfo" for k in e.keywords):
            e = e.func.value
        else:
            return ast.unparse(e)


def awareness_aligned(f, node, a, b):
    """the comparison `node` of datetimes a and b is dominated by the alignment idiom
         assert not (A.tzinfo is None and B.tzinfo is not None)      (or the symmetric if-branch)
         if A.tzinfo is not None and B.tzinfo is None: B = <zone>.localize(B) | B.replace(tzinfo=<zone>)
       and B is afterwards only rebound to values derived from itself (replace without tzinfo, +- delta)."""
    from .cfg import CFG
    from .ctx import conjuncts
    g = getattr(f, "_cfg_plain", None)
    if g is None:
        g = f._cfg_plain = CFG(f.node)
    here = g.node_of_expr(f.node, node)
    stmt_here = g.nodes[here].stmt if here is not None else None
    if stmt_here is None:
        return False
    for A, B in ((_root_text(a), _root_text(b)), (_root_text(b), _root_text(a))):
        if not B.isidentifier():
            continue
        aligns = []
        for s in iter_own_stmts(f.node.body):
            if not isinstance(s, ast.If) or s.orelse:
                continue
            atoms = {" ".join(ast.unparse(x).split()) for x, pol in conjuncts(s.test, True) if pol}
            if not {"%s.tzinfo is not None" % A, "%s.tzinfo is None" % B} <= atoms:
                continue
            if len(s.body) == 1 and isinstance(s.body[0], ast.Assign) and ast.unparse(s.body[0].targets[0]) == B:
                v = s.body[0].value
                if isinstance(v, ast.Call) and isinstance(v.func, ast.Attribute) and (
                        (v.func.attr == "localize" and v.args and ast.unparse(v.args[0]) == B)
                        or (v.func.attr == "replace" and ast.unparse(v.func.value) == B and any(k.arg == "tzinfo" for k in v.keywords))):
                    aligns.append(s)
        if not aligns:
            continue
        al = aligns[0]
        if not g.dominates(al, stmt_here):
            continue
        # the other mismatch (A naive, B aware) is excluded by a dominating assert
        asserted = False
        for s in iter_own_stmts(f.node.body):
            if isinstance(s, ast.Assert) and isinstance(s.test, ast.UnaryOp) and isinstance(s.test.op, ast.Not):
                atoms = {" ".join(ast.unparse(x).split()) for x, pol in conjuncts(s.test.operand, True) if pol}
                if {"%s.tzinfo is None" % A, "%s.tzinfo is not None" % B} <= atoms and g.dominates(s, al):
                    asserted = True
        if not asserted:
            continue
        # rebinding of B between the alignment and the comparison keeps its awareness; A is not rebound
        ok = True
        after = g.reachable_from(list(g.nodes_of(al)))
        before = {here}
        work = [here]
        while work:
            x = work.pop()
            for p_, _lbl in g.pred[x]:
                if p_ not in before:
                    before.add(p_)
                    work.append(p_)
        after = set(after) & before       # statements on a path from the alignment to the comparison
        for s in iter_own_stmts(f.node.body):
            if s is al.body[0] or not isinstance(s, (ast.Assign, ast.AugAssign)):
                continue
            tg = s.targets if isinstance(s, ast.Assign) else [s.target]
            names = {ast.unparse(t) for t in tg}
            if not ({A, B} & names) or not (set(g.nodes_of(s)) & after):
                continue
            if A in names:
                ok = False
            elif isinstance(s, ast.Assign) and _root_text(s.value) != B:
                ok = False
        if ok:
            return True
    return False


def zero_guarded(f, node):
    """`0 if n == 0 else a / b`: the division sits in the else-arm of a zero test"""
    from .ctx import conjuncts, enclosing_tests

    for test, pol in enclosing_tests(f.node, node):
        for atom, p in conjuncts(test, pol):
            if isinstance(atom, ast.Compare) and len(atom.ops) == 1:
                c = atom.comparators[0]
                zero = isinstance(c, ast.Constant) and c.value == 0
                if zero and ((not p and isinstance(atom.ops[0], ast.Eq)) or (p and isinstance(atom.ops[0], (ast.NotEq, ast.Gt)))):
                    return True
            elif p and isinstance(atom, ast.Name):
                return True
    return False


def _digit_group(ix, f, call):
    """call is <m>.group(k) / <m>.groupdict()[k] where <m> comes from a module regex constant whose group k
    consists of decimal digits only"""
    from . import rx as _rx
    key = None
    recv = None
    if isinstance(call, ast.Call) and isinstance(call.func, ast.Attribute) and call.func.attr == "group" and len(call.args) == 1 \
            and isinstance(call.args[0], ast.Constant):
        key, recv = call.args[0].value, call.func.value
    elif isinstance(call, ast.Subscript) and isinstance(call.slice, ast.Constant):
        v = call.value
        key = call.slice.value
        if isinstance(v, ast.Call) and isinstance(v.func, ast.Attribute) and v.func.attr == "groupdict":
            recv = v.func.value
        elif isinstance(v, ast.Name):
            defs = [n.value for n in iter_own_nodes(f.node) if isinstance(n, ast.Assign)
                    and any(isinstance(t, ast.Name) and t.id == v.id for t in n.targets)]
            recvs = [d.func.value for d in defs if isinstance(d, ast.Call) and isinstance(d.func, ast.Attribute) and d.func.attr == "groupdict"]
            if defs and len(recvs) == len(defs):
                return all(_digit_group_of(ix, f, r, key) for r in recvs)
            return False
    if recv is None:
        return False
    return _digit_group_of(ix, f, recv, key)


def _regexes_of_match(ix, f, recv, depth=0):
    """module regex constants a match object expression may come from, or None if unknown"""
    if depth > 4:
        return None
    if isinstance(recv, ast.Call) and isinstance(recv.func, ast.Attribute) and recv.func.attr in ("search", "match", "fullmatch") \
            and isinstance(recv.func.value, ast.Name):
        return [recv.func.value.id]
    if isinstance(recv, ast.BoolOp):
        out = []
        for v in recv.values:
            r = _regexes_of_match(ix, f, v, depth + 1)
            if r is None:
                return None
            out += r
        return out
    if isinstance(recv, ast.Name):
        defs = [n.value for n in iter_own_nodes(f.node) if isinstance(n, ast.Assign)
                and any(isinstance(t, ast.Name) and t.id == recv.id for t in n.targets)]
        if not defs:
            return None
        out = []
        for d in defs:
            r = _regexes_of_match(ix, f, d, depth + 1)
            if r is None:
                return None
            out += r
        return out
    return None


def _digit_group_of(ix, f, recv, key):
    from . import rx as _rx
    from .repo import AnalysisError as _AE
    names = _regexes_of_match(ix, f, recv)
    if not names:
        return False
    for nm in names:
        try:
            pat, _ = _rx.module_regex(ix, f.module.name, nm)
        except _AE:
            return False
        if not _rx.group_is_digits(pat, key):
            return False
    return True


def numeric_string(e, f, ix, for_float=False, depth=0):
    """the expression is a string of decimal digits (int) / a decimal literal (float) by construction:
    digit-only regex groups, `x or 0`, "0." + digits, names bound only to such values"""
    if depth > 5:
        return False
    if isinstance(e, ast.Constant):
        return isinstance(e.value, (int, float)) or (isinstance(e.value, str) and e.value.replace(".", "", 1).isdigit())
    if _digit_group(ix, f, e):
        return True
    if isinstance(e, ast.BoolOp) and isinstance(e.op, ast.Or):
        return all(numeric_string(v, f, ix, for_float, depth + 1) for v in e.values)
    if for_float and isinstance(e, ast.BinOp) and isinstance(e.op, ast.Add) and isinstance(e.left, ast.Constant) \
            and e.left.value in ("0.", ".", "0") and numeric_string(e.right, f, ix, False, depth + 1):
        return True
    if isinstance(e, ast.Name):
        if e.id in f.params():
            return False
        defs = [n.value for n in iter_own_nodes(f.node) if isinstance(n, ast.Assign)
                and any(isinstance(t, ast.Name) and t.id == e.id for t in n.targets)]
        return bool(defs) and all(numeric_string(d, f, ix, for_float, depth + 1) or _pad_of(d, e.id) for d in defs) \
            and any(numeric_string(d, f, ix, for_float, depth + 1) for d in defs)
    return False


def _pad_of(d, name):
    """x = x + (K - len(x)) * "0"  keeps a digit string a digit string"""
    return (isinstance(d, ast.BinOp) and isinstance(d.op, ast.Add) and isinstance(d.left, ast.Name) and d.left.id == name
            and isinstance(d.right, ast.BinOp) and isinstance(d.right.op, ast.Mult)
            and isinstance(d.right.right, ast.Constant) and d.right.right.value == "0")


def none_guarded(f, node, recv_expr):
    """the receiver is known to be truthy / not None where `node` runs"""
    from .ctx import conjuncts, enclosing_tests

    want = ast.unparse(recv_expr)
    for test, pol in enclosing_tests(f.node, node):
        for atom, p in conjuncts(test, pol):
            if p and ast.unparse(atom) == want:
                return True
            if isinstance(atom, ast.Compare) and len(atom.ops) == 1 and ast.unparse(atom.left) == want:
                c = atom.comparators[0]
                none = isinstance(c, ast.Constant) and c.value is None
                if none and ((p and isinstance(atom.ops[0], ast.IsNot)) or (not p and isinstance(atom.ops[0], ast.Is))):
                    return True
    return False


def fold_str(e, f, ix, depth=0):
    """constant-fold a string expression (literals, %-format, +, "sep".join([...]),
    names bound exactly once to a foldable value in the function or module); None if not constant"""
    if depth > 6:
        return None
    if isinstance(e, ast.Constant) and isinstance(e.value, str):
        return e.value
    if isinstance(e, ast.Name):
        vals = []
        g = f
        while g is not None and not vals:
            for n in iter_own_nodes(g.node):
                if isinstance(n, ast.Assign):
                    for t in n.targets:
                        if isinstance(t, ast.Name) and t.id == e.id:
                            vals.append(n.value)
                elif isinstance(n, (ast.AugAssign, ast.For, ast.comprehension)) and e.id in {
                        x.id for x in ast.walk(n.target) if isinstance(x, ast.Name)}:
                    return None
            if e.id in g.params():
                return None
            g = g.parent
        if not vals:
            mv = f.module.assigns.get(e.id)
            if mv and len(mv) == 1:
                return fold_str(mv[0], f.module.toplevel, ix, depth + 1)
            ent = ix.lookup_module_attr(f.module, e.id)
            if isinstance(ent, tuple) and ent[0] == "var" and len(ent[1].assigns.get(ent[2], [])) == 1:
                return fold_str(ent[1].assigns[ent[2]][0], ent[1].toplevel, ix, depth + 1)
            return None
        if len(vals) == 1:
            return fold_str(vals[0], f, ix, depth + 1)
        return None
    if isinstance(e, ast.JoinedStr):
        # f-string whose placeholders are foldable strings, without conversions or format specs
        out = []
        for v in e.values:
            if isinstance(v, ast.Constant) and isinstance(v.value, str):
                out.append(v.value)
            elif isinstance(v, ast.FormattedValue) and v.conversion in (-1, 115) and v.format_spec is None:
                x = fold_str(v.value, f, ix, depth + 1)
                if x is None:
                    return None
                out.append(x)
            else:
                return None
        return "".join(out)
    if isinstance(e, ast.Call) and isinstance(e.func, ast.Attribute) and e.func.attr == "format" and not e.keywords:
        a = fold_str(e.func.value, f, ix, depth + 1)
        vals = [fold_str(x, f, ix, depth + 1) for x in e.args]
        if a is not None and all(v is not None for v in vals):
            try:
                return a.format(*vals)
            except Exception:
                return None
    if isinstance(e, ast.BinOp) and isinstance(e.op, ast.Add):
        a, b = fold_str(e.left, f, ix, depth + 1), fold_str(e.right, f, ix, depth + 1)
        return a + b if a is not None and b is not None else None
    if isinstance(e, ast.BinOp) and isinstance(e.op, ast.Mod):
        a = fold_str(e.left, f, ix, depth + 1)
        if a is None:
            return None
        args = e.right.elts if isinstance(e.right, ast.Tuple) else [e.right]
        vals = [fold_str(x, f, ix, depth + 1) for x in args]
        if any(v is None for v in vals):
            return None
        try:
            return a % tuple(vals)
        except Exception:
            return None
    if isinstance(e, ast.Call) and isinstance(e.func, ast.Attribute) and e.func.attr == "join" and len(e.args) == 1:
        sep = fold_str(e.func.value, f, ix, depth + 1)
        seq = fold_list(e.args[0], f, ix, depth + 1)
        if sep is not None and seq is not None:
            return sep.join(seq)
        return None
    if isinstance(e, ast.Call) and isinstance(e.func, ast.Attribute) and e.func.attr == "format":
        base = fold_str(e.func.value, f, ix, depth + 1)
        vals = [fold_str(x, f, ix, depth + 1) for x in e.args]
        if base is not None and not e.keywords and all(v is not None for v in vals):
            try:
                return base.format(*vals)
            except Exception:
                return None
    return None


def fold_list(e, f, ix, depth=0):
    if isinstance(e, (ast.List, ast.Tuple)):
        vals = [fold_str(x, f, ix, depth + 1) for x in e.elts]
        return vals if all(v is not None for v in vals) else None
    if isinstance(e, ast.Name):
        vals = []
        for n in iter_own_nodes(f.node):
            if isinstance(n, ast.Assign):
                for t in n.targets:
                    if isinstance(t, ast.Name) and t.id == e.id:
                        vals.append(n.value)
        if len(vals) == 1:
            return fold_list(vals[0], f, ix, depth + 1)
        if not vals:
            mv = f.module.assigns.get(e.id)
            if mv and len(mv) == 1:
                return fold_list(mv[0], f.module.toplevel, ix, depth + 1)
    return None


def loop_index_map(f):
    """{index name: [(loop node, sequence whose positions it counts | None)]} for `for i, x in enumerate(A)`,
    `for i in range(len(A))`, `for i in range(k, len(A)[, step])`"""
    cached = getattr(f, "_loop_idx_map", None)
    if cached is not None:
        return cached
    out = {}
    for n in iter_own_nodes(f.node):
        if isinstance(n, ast.For):
            it = n.iter
            if isinstance(it, ast.Call) and isinstance(it.func, ast.Name):
                if it.func.id == "enumerate" and it.args and isinstance(n.target, ast.Tuple) and n.target.elts and isinstance(n.target.elts[0], ast.Name):
                    out.setdefault(n.target.elts[0].id, []).append((n, it.args[0]))
                elif it.func.id == "range" and isinstance(n.target, ast.Name) and it.args:
                    stop = it.args[0] if len(it.args) == 1 else it.args[1]
                    seq = None
                    if isinstance(stop, ast.Call) and isinstance(stop.func, ast.Name) and stop.func.id == "len" and len(stop.args) == 1:
                        seq = stop.args[0]
                    out.setdefault(n.target.id, []).append((n, seq))
    f._loop_idx_map = out
    return out


def _length_changed_in(loop, names):
    """a tracked name whose list changes length (or is rebound) inside the loop body"""
    for s in loop.body:
        for n in ast.walk(s):
            if isinstance(n, ast.Call) and isinstance(n.func, ast.Attribute) and isinstance(n.func.value, ast.Name) and n.func.value.id in names \
                    and n.func.attr in ("append", "insert", "pop", "remove", "extend", "clear"):
                return n.func.value.id
            if isinstance(n, (ast.Assign, ast.AugAssign)):
                tg = n.targets if isinstance(n, ast.Assign) else [n.target]
                for t in tg:
                    for x in ast.walk(t) if isinstance(t, (ast.Tuple, ast.List)) else [t]:
                        if isinstance(x, ast.Name) and x.id in names:
                            return x.id
            if isinstance(n, ast.Delete):
                for t in n.targets:
                    if isinstance(t, ast.Subscript) and isinstance(t.value, ast.Name) and t.value.id in names:
                        return t.value.id
    return None


def len_guarded(f, node, idx, seq_text):
    """a dominating test `idx < len(<seq>)` (or the negation of idx >= len(<seq>)) holds at node"""
    from .ctx import conjuncts, enclosing_tests
    want = {"%s < len(%s)" % (idx, seq_text), "len(%s) > %s" % (seq_text, idx)}
    neg = {"%s >= len(%s)" % (idx, seq_text), "len(%s) <= %s" % (seq_text, idx)}
    for test, pol in enclosing_tests(f.node, node):
        for atom, p in conjuncts(test, pol):
            t = " ".join(ast.unparse(atom).split())
            if (p and t in want) or (not p and t in neg):
                return True
    return False


def loop_index_vars(f):
    """names bound as the counter of `for i, x in enumerate(..)` / `for i in range(..)`"""
    cached = getattr(f, "_loop_idx", None)
    if cached is not None:
        return cached
    out = set()
    for n in iter_own_nodes(f.node):
        if isinstance(n, (ast.For, ast.comprehension)):
            it = n.iter
            if isinstance(it, ast.Call) and isinstance(it.func, ast.Name):
                if it.func.id == "enumerate":
                    t = n.target
                    if isinstance(t, ast.Tuple) and t.elts and isinstance(t.elts[0], ast.Name):
                        out.add(t.elts[0].id)
                elif it.func.id == "range" and isinstance(n.target, ast.Name):
                    out.add(n.target.id)
    # one-step derived indices: j = i + 1
    for n in iter_own_nodes(f.node):
        if isinstance(n, ast.Assign) and len(n.targets) == 1 and isinstance(n.targets[0], ast.Name):
            v = n.value
            if isinstance(v, ast.BinOp) and isinstance(v.left, ast.Name) and v.left.id in out and isinstance(v.right, ast.Constant):
                out.add(n.targets[0].id)
    f._loop_idx = out
    return out

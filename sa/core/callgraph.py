"""Resolved call graph on top of the index and the type inference."""
import ast

from .index import Func, iter_own_nodes
from .types import TypeInfer

TRANSPARENT_DECORATORS = {"classmethod", "staticmethod", "wraps", "property"}


class CallSite:
    __slots__ = ("fn", "node", "callees", "ext", "recv", "forward", "stmt")

    def __init__(self, fn, node):
        self.fn = fn
        self.node = node
        self.callees = []   # project Funcs that may run
        self.ext = None     # dotted external name, or ".attr" for method on untyped/ext receiver
        self.recv = set()   # receiver types for attribute calls
        self.forward = False  # decorator wrapper forwarding to the decorated function
        self.stmt = None


class CallGraph:
    def __init__(self, index, types=None):
        self.ix = index
        self.ti = types or TypeInfer(index)
        self.sites = {}       # funckey -> [CallSite]
        self.callers = {}     # funckey -> set(funckey)
        self.unresolved = []  # call sites that look internal but could not be resolved
        self.decorators = {}  # funckey -> [Func decorator]
        self._decorators()
        self._seed_class_decorators()
        # re-run inference after seeding
        for _ in range(6):
            self.ti.changed = False
            self.ti._pass()
            if not self.ti.changed:
                break
        for f in self.ix.funcs.values():
            self.sites[f.key] = self._scan(f)
        for k, ss in self.sites.items():
            for s in ss:
                for c in s.callees:
                    self.callers.setdefault(c.key, set()).add(k)

    # ------------------------------------------------------------------
    def _decorators(self):
        for f in self.ix.funcs.values():
            ds = []
            for d in getattr(f.node, "decorator_list", []):
                name = d.func if isinstance(d, ast.Call) else d
                txt = ast.unparse(name).split(".")[-1]
                if txt in TRANSPARENT_DECORATORS:
                    continue
                ent = self.ix.resolve_name_expr(f.module, name)
                if isinstance(ent, Func):
                    ds.append(ent)
            if ds:
                self.decorators[f.key] = ds

    def _seed_class_decorators(self):
        self.class_decorators = {}
        for c in self.ix.classes.values():
            for d in c.node.decorator_list:
                ent = self.ix.resolve_name_expr(c.module, d)
                if isinstance(ent, Func):
                    self.class_decorators.setdefault(c.key, []).append(ent)
                    for g in self._nested(ent):
                        if "cls" in g.params():
                            self.ti._add(self.ti.param, (g.key, "cls"), {"K:" + c.key})
                    if ent.params():
                        self.ti._add(self.ti.param, (ent.key, ent.params()[0]), {"K:" + c.key})

    def _nested(self, f):
        out = []
        work = list(f.children.values())
        while work:
            g = work.pop()
            out.append(g)
            work.extend(g.children.values())
        return out

    def wrapper_of(self, deco):
        """the inner function a decorator returns (by `return <name>`), if any"""
        for n in iter_own_nodes(deco.node):
            if isinstance(n, ast.Return) and isinstance(n.value, ast.Name) and n.value.id in deco.children:
                return deco.children[n.value.id]
        return None

    # ------------------------------------------------------------------
    def _scan(self, f):
        sites = []
        deco_params = set()
        if f.parent is not None:
            # inside a decorator: calls through the decorator's function parameter forward
            g = f.parent
            while g is not None:
                if any(g in ds for ds in self.decorators.values()) or any(
                    g in ds for ds in self.class_decorators.values()
                ):
                    deco_params |= set(g.params()[:1])
                if g.parent is not None and g.params():
                    # nested helper of a class decorator (choose(creator))
                    pass
                g = g.parent
        for n in iter_own_nodes(f.node):
            if isinstance(n, (ast.Compare, ast.Subscript, ast.For, ast.comprehension)):
                imp = self.ti.implicit_callees(n, f)
                if imp:
                    s = CallSite(f, n)
                    s.callees = imp
                    s.ext = "<implicit>"
                    sites.append(s)
                continue
            if not isinstance(n, ast.Call):
                continue
            s = CallSite(f, n)
            fn = n.func
            if isinstance(fn, ast.Name) and fn.id in deco_params:
                s.forward = True
                sites.append(s)
                continue
            cal = list(self.ti.callees(n, f))
            extra = []
            for c in cal:
                for d in self.decorators.get(c.key, []):
                    w = self.wrapper_of(d)
                    if w is not None and w not in extra:
                        extra.append(w)
                if c.name == "__init__" and c.cls is not None:
                    pass
            # class construction: class decorators (registry) run their closures
            if isinstance(fn, (ast.Name, ast.Attribute)):
                ft = self.ti.type_of(fn, f)
                for t in ft:
                    if isinstance(t, str) and t.startswith("K:"):
                        ck = t[2:]
                        c = self.ix.classes.get(ck)
                        for k in c.mro() if c else []:
                            for d in self.class_decorators.get(k.key, []):
                                for g in self._nested(d):
                                    if g not in extra and not isinstance(g.node, ast.Lambda):
                                        extra.append(g)
            # functions / lambdas passed to a callee we cannot see into are run by it
            if not cal:
                for a in list(n.args) + [k.value for k in n.keywords]:
                    for t in self.ti.type_of(a, f):
                        if isinstance(t, str) and t[:2] in ("F:", "B:"):
                            g = self.ix.funcs.get(t[2:])
                            if g is not None and g not in extra:
                                extra.append(g)
            s.callees = cal + [e for e in extra if e not in cal]
            if isinstance(fn, ast.Attribute):
                s.recv = self.ti.type_of(fn.value, f)
                ext = [t for t in self.ti._attr_type(fn, f) if isinstance(t, str) and t.startswith("E:")]
                if ext:
                    s.ext = ext[0][2:]
                else:
                    s.ext = "." + fn.attr
            elif isinstance(fn, ast.Name):
                ts = self.ti.lookup_name(fn.id, f)
                ext = [t for t in ts if isinstance(t, str) and t.startswith("E:")]
                if ext:
                    s.ext = ext[0][2:]
                elif not s.callees:
                    s.ext = "builtins." + fn.id
            if not s.callees and self._looks_internal(s):
                self.unresolved.append(s)
            sites.append(s)
        return sites

    def _looks_internal(self, s):
        fn = s.node.func
        if isinstance(fn, ast.Attribute):
            if isinstance(fn.value, ast.Name) and fn.value.id in ("self", "cls"):
                # self.x(...) where x is neither method nor typed field
                c = s.fn.cls
                if c is not None:
                    for k in c.mro() + c.all_subclasses():
                        if fn.attr in k.methods:
                            return True
                    return not any(isinstance(t, str) and t.startswith("X:") for t in s.recv) and False
            return False
        if isinstance(fn, ast.Name):
            ts = self.ti.lookup_name(fn.id, s.fn)
            if not ts and fn.id not in dir(__builtins__) and fn.id not in __import__("builtins").__dict__:
                return True
        return False

    # ------------------------------------------------------------------
    def reachable(self, entries):
        seen = set()
        work = [e.key if isinstance(e, Func) else e for e in entries]
        while work:
            k = work.pop()
            if k in seen:
                continue
            seen.add(k)
            for s in self.sites.get(k, []):
                for c in s.callees:
                    if c.key not in seen:
                        work.append(c.key)
            f = self.ix.funcs.get(k)
        return seen

    def paths_to(self, entries, target_key, limit=1):
        """shortest call chain(s) from any entry to target (list of funckeys)"""
        from collections import deque

        prev = {}
        dq = deque()
        for e in entries:
            k = e.key if isinstance(e, Func) else e
            prev[k] = None
            dq.append(k)
        while dq:
            k = dq.popleft()
            if k == target_key:
                out = []
                while k is not None:
                    out.append(k)
                    k = prev[k]
                return list(reversed(out))
            for s in self.sites.get(k, []):
                for c in s.callees:
                    if c.key not in prev:
                        prev[c.key] = k
                        dq.append(c.key)
        return None

"""Generic may-alias taint over variables, fields and return values (flow-insensitive,
field-based, context-insensitive); used for caller-owned containers (C03), process-wide
containers (C20) and the raw date string (C18)."""
import ast

from .index import Func, iter_own_nodes

COPY_BUILTINS = {"list", "dict", "set", "tuple", "sorted", "frozenset", "str", "int", "float", "bool", "len",
                 "deepcopy", "copy", "repr", "any", "all", "sum", "min", "max", "isinstance", "type", "hash",
                 "enumerate_copy"}
MUTATORS = {"append", "extend", "insert", "pop", "remove", "clear", "sort", "reverse", "update", "setdefault",
            "popitem", "add", "discard", "move_to_end", "appendleft", "popleft"}


class Taint:
    def __init__(self, ctx, is_source, copies=COPY_BUILTINS, through_subscript=True, through_iter=True,
                 sanitizers=(), string_mode=False):
        """is_source(expr, func) -> bool marks expressions that are tainted by themselves"""
        self.ctx = ctx
        self.ix = ctx.ix
        self.cg = ctx.cg
        self.ti = ctx.ti
        self.is_source = is_source
        self.copies = set(copies)
        self.sanitizers = set(sanitizers)
        self.through_subscript = through_subscript
        self.through_iter = through_iter
        self.string_mode = string_mode  # value semantics: results computed from a tainted string are tainted
        self.vars = set()    # (funckey, name)
        self.fields = set()  # (classkey, attr)
        self.rets = set()    # funckey
        self.why = {}
        self._site_index = {}
        for k, ss in self.cg.sites.items():
            for s in ss:
                self._site_index[id(s.node)] = s
        changed = True
        rounds = 0
        while changed and rounds < 30:
            rounds += 1
            changed = False
            for f in self.ix.funcs.values():
                if self._scan(f):
                    changed = True

    # ------------------------------------------------------------------
    def _owner(self, name, f):
        g = f
        while g is not None:
            if g.qual != "<module>" and (name in g.params() or self._assigned_in(g, name)):
                return g
            g = g.parent
        return None

    def _assigned_in(self, g, name):
        cache = getattr(g, "_sa_assigned", None)
        if cache is None:
            cache = set()
            for n in iter_own_nodes(g.node):
                if isinstance(n, ast.Name) and isinstance(n.ctx, ast.Store):
                    cache.add(n.id)
            g._sa_assigned = cache
        return name in cache

    def tainted(self, e, f):
        if e is None:
            return False
        if self.is_source(e, f):
            return True
        if isinstance(e, ast.Name):
            g = self._owner(e.id, f)
            if g is not None:
                if self.sanitizers and g is f:
                    cut = self._sanitized_from(f, e.id)
                    if cut is not None and getattr(e, "lineno", 0) > cut:
                        return False
                return (g.key, e.id) in self.vars
            return (f.module.toplevel.key, e.id) in self.vars or self._imported_var_tainted(e.id, f)
        if isinstance(e, ast.Attribute):
            for t in self.ti.type_of(e.value, f):
                if isinstance(t, str) and t[:2] in ("C:", "K:"):
                    c = self.ix.classes.get(t[2:])
                    for k in (c.mro() + c.all_subclasses()) if c else []:
                        if (k.key, e.attr) in self.fields:
                            return True
            return False
        if isinstance(e, ast.Subscript):
            if self.string_mode:
                return self.tainted(e.value, f)      # a character or a slice of a raw string is raw text
            if isinstance(e.slice, ast.Slice):
                return False  # a slice is a copy
            return self.through_subscript and self.tainted(e.value, f)
        if isinstance(e, ast.IfExp):
            return self.tainted(e.body, f) or self.tainted(e.orelse, f)
        if isinstance(e, ast.BoolOp):
            return any(self.tainted(v, f) for v in e.values)
        if isinstance(e, ast.NamedExpr):
            return self.tainted(e.value, f)
        if self.string_mode and isinstance(e, ast.BinOp):
            return self.tainted(e.left, f) or self.tainted(e.right, f)
        if self.string_mode and isinstance(e, ast.JoinedStr):
            return any(self.tainted(v.value, f) for v in e.values if isinstance(v, ast.FormattedValue))
        if isinstance(e, ast.Starred):
            return self.tainted(e.value, f)
        if isinstance(e, ast.Call):
            fn = e.func
            name = fn.id if isinstance(fn, ast.Name) else fn.attr if isinstance(fn, ast.Attribute) else None
            if name in self.sanitizers:
                return False
            if self.string_mode:
                s = self._site_index.get(id(e))
                if s is not None and s.callees and not all(c.name == "wrapper" for c in s.callees):
                    return any(c.key in self.rets for c in s.callees)
                if isinstance(fn, ast.Attribute) and self.tainted(fn.value, f) and fn.attr not in ("search", "match", "fullmatch", "startswith", "endswith", "isdigit", "isdecimal", "count", "find", "index"):
                    return True
                return any(self.tainted(a, f) for a in e.args) and name not in ("len", "isinstance", "bool", "int", "float", "type")
            if isinstance(fn, ast.Name) and fn.id in self.copies:
                return False
            if isinstance(fn, ast.Attribute) and fn.attr in ("copy", "keys", "lower", "upper", "strip", "split", "join",
                                                             "format", "replace", "encode", "items_copy"):
                return False
            if isinstance(fn, ast.Attribute) and fn.attr in ("get", "setdefault", "pop", "values", "items") \
                    and self.through_subscript and self.tainted(fn.value, f):
                return True
            s = self._site_index.get(id(e))
            if s is not None:
                for c in s.callees:
                    if c.key in self.rets:
                        return True
            return False
        return False

    def _sanitized_from(self, f, name):
        """line of a top-level statement `name = <sanitizer>(name)` of f: later reads of name are clean
        (one bit of flow sensitivity, enough for `s = self._translate_numerals(s)` at the head of a function)"""
        cache = getattr(f, "_sa_sanit", None)
        if cache is None:
            cache = {}
            body = f.node.body if isinstance(f.node.body, list) else []
            for s in body:
                if isinstance(s, ast.Assign) and len(s.targets) == 1 and isinstance(s.targets[0], ast.Name) \
                        and isinstance(s.value, ast.Call):
                    fn = s.value.func
                    nm = fn.id if isinstance(fn, ast.Name) else fn.attr if isinstance(fn, ast.Attribute) else None
                    if nm in self.sanitizers and any(isinstance(a, ast.Name) and a.id == s.targets[0].id for a in s.value.args):
                        cache.setdefault(s.targets[0].id, s.end_lineno or s.lineno)
            f._sa_sanit = cache
        return cache.get(name)

    def _imported_var_tainted(self, name, f):
        ent = self.ix.lookup_module_attr(f.module, name)
        if isinstance(ent, tuple) and ent[0] == "var":
            return (ent[1].toplevel.key, ent[2]) in self.vars
        return False

    def _mark_var(self, f, name, why):
        g = self._owner(name, f) or f
        k = (g.key, name)
        if k not in self.vars:
            self.vars.add(k)
            self.why[k] = why
            return True
        return False

    def _bind_target(self, t, f, why):
        ch = False
        if isinstance(t, ast.Name):
            ch |= self._mark_var(f, t.id, why)
        elif isinstance(t, ast.Attribute):
            for ty in self.ti.type_of(t.value, f):
                if isinstance(ty, str) and ty[:2] in ("C:", "K:"):
                    k = (ty[2:], t.attr)
                    if k not in self.fields:
                        self.fields.add(k)
                        self.why[k] = why
                        ch = True
        elif isinstance(t, (ast.Tuple, ast.List)):
            for e in t.elts:
                ch |= self._bind_target(e, f, why)
        elif isinstance(t, ast.Starred):
            ch |= self._bind_target(t.value, f, why)
        return ch

    def _scan(self, f):
        ch = False
        node = f.node
        if isinstance(node, ast.Lambda):
            if self.tainted(node.body, f) and f.key not in self.rets:
                self.rets.add(f.key)
                ch = True
            return ch
        for n in iter_own_nodes(node):
            if isinstance(n, ast.Assign):
                if self.tainted(n.value, f):
                    for t in n.targets:
                        ch |= self._bind_target(t, f, "%s:%d" % (f.key, n.lineno))
                elif isinstance(n.value, ast.Tuple) and len(n.targets) == 1 and isinstance(n.targets[0], ast.Tuple):
                    for t, v in zip(n.targets[0].elts, n.value.elts):
                        if self.tainted(v, f):
                            ch |= self._bind_target(t, f, "%s:%d" % (f.key, n.lineno))
            elif isinstance(n, ast.AnnAssign) and n.value is not None and self.tainted(n.value, f):
                ch |= self._bind_target(n.target, f, "%s:%d" % (f.key, n.lineno))
            elif isinstance(n, ast.NamedExpr) and self.tainted(n.value, f):
                ch |= self._bind_target(n.target, f, "%s:%d" % (f.key, n.lineno))
            elif isinstance(n, (ast.For, ast.comprehension)) and self.through_iter:
                it = n.iter
                src = it
                if isinstance(it, ast.Call) and isinstance(it.func, ast.Name) and it.func.id in ("enumerate", "zip", "reversed", "iter") and it.args:
                    src = it.args[0]
                if self.tainted(src, f):
                    ch |= self._bind_target(n.target, f, "%s:%d iteration" % (f.key, getattr(n, "lineno", 0)))
            elif isinstance(n, ast.Return) and n.value is not None:
                if self.tainted(n.value, f) and f.key not in self.rets:
                    self.rets.add(f.key)
                    ch = True
            elif isinstance(n, (ast.Yield, ast.YieldFrom)) and n.value is not None:
                if self.tainted(n.value, f) and f.key not in self.rets:
                    self.rets.add(f.key)
                    ch = True
            elif isinstance(n, ast.Call):
                s = self._site_index.get(id(n))
                if s is None or not s.callees:
                    continue
                for c in s.callees:
                    ch |= self._bind_args(n, c, f)
        return ch

    def _bind_args(self, call, c, f):
        ch = False
        if isinstance(c.node, ast.Lambda):
            return ch
        args = c.node.args
        names = [a.arg for a in args.posonlyargs + args.args]
        off = 0
        if c.is_method() and c.kind() in ("instance", "class"):
            off = 1
            fn = call.func
            if isinstance(fn, ast.Attribute):
                rts = self.ti.type_of(fn.value, f)
                if c.kind() == "instance" and rts and all(isinstance(t, str) and t.startswith("K:") for t in rts) and c.name != "__init__":
                    off = 0
        for i, a in enumerate(call.args):
            if isinstance(a, ast.Starred):
                break
            j = i + off
            if j < len(names) and self.tainted(a, f):
                k = (c.key, names[j])
                if k not in self.vars:
                    self.vars.add(k)
                    self.why[k] = "%s:%d arg" % (f.key, call.lineno)
                    ch = True
        allnames = set(names) | {a.arg for a in args.kwonlyargs}
        for kw in call.keywords:
            if kw.arg and kw.arg in allnames and self.tainted(kw.value, f):
                k = (c.key, kw.arg)
                if k not in self.vars:
                    self.vars.add(k)
                    self.why[k] = "%s:%d kwarg" % (f.key, call.lineno)
                    ch = True
        return ch

    # ------------------------------------------------------------------
    def mutation_sinks(self, funcs=None):
        """(func, node, description) for every in-place mutation of a tainted expression"""
        out = []
        for f in self.ix.funcs.values():
            if funcs is not None and f.key not in funcs:
                continue
            for n in iter_own_nodes(f.node):
                if isinstance(n, (ast.Assign, ast.AugAssign, ast.AnnAssign)):
                    tgs = n.targets if isinstance(n, ast.Assign) else [n.target]
                    for t in tgs:
                        for x in ([t] if not isinstance(t, (ast.Tuple, ast.List)) else t.elts):
                            if isinstance(x, ast.Subscript) and self.tainted(x.value, f):
                                out.append((f, n, "item store into %s" % ast.unparse(x.value)))
                            elif isinstance(n, ast.AugAssign) and isinstance(x, (ast.Name, ast.Attribute)) and self.tainted(x, f):
                                out.append((f, n, "augmented assignment on %s" % ast.unparse(x)))
                elif isinstance(n, ast.Delete):
                    for t in n.targets:
                        if isinstance(t, ast.Subscript) and self.tainted(t.value, f):
                            out.append((f, n, "del item of %s" % ast.unparse(t.value)))
                elif isinstance(n, ast.Call) and isinstance(n.func, ast.Attribute) and n.func.attr in MUTATORS:
                    if self.tainted(n.func.value, f):
                        out.append((f, n, "%s() on %s" % (n.func.attr, ast.unparse(n.func.value))))
        return out

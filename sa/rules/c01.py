"""C01 — standard formats round-trip; epoch numbers exact (structural clauses only).

R1 epoch regex <-> arithmetic scale agreement        R2 fractional-second padding width
R3 English identity: translator targets == patched strptime tables; English names map to themselves
R4 complete dates are not altered by PREFER_* (C08.R2 with a four-digit year)
"""
import ast

from ..core import guards as G
from ..core import rx
from ..core.data import LangData, module_literal
from ..core.index import iter_own_nodes
from ..core.repo import AnalysisError
from . import pipeline as P
from .c04 import _linear

LEVEL = "other"
EXPLANATION = (
    "Positional-notation agreement between the timestamp regexes and get_date_from_timestamp: group 1 is exactly 10 "
    "decimal digits (optional '-' only in the negative variant) and is the only input of fromtimestamp; groups 2 and 3 "
    "are optional 3-digit groups and the microsecond argument is the linear form 1000*g2 + 1*g3. The %f recovery pads "
    "to the width that the microsecond group's repeat allows (6). The month/weekday names the translator emits are "
    "exactly the names the patched strptime tables accept, and every English name/abbreviation maps to itself through "
    "the dictionary. No correction stage is enabled for a complete date with a four-digit year. Does not decide the "
    "calendar round trip for arbitrary datetimes."
)


def run(ctx, chk):
    r1(ctx, chk)
    r2(ctx, chk)
    r3(ctx, chk)
    r4(ctx, chk)
    r5(ctx, chk)


def r1(ctx, chk):
    rule = "C01.R1"
    ix = ctx.ix
    shapes = {}
    for name, neg in (("RE_SEARCH_TIMESTAMP", False), ("RE_SEARCH_NEGATIVE_TIMESTAMP", True)):
        sh = rx.timestamp_shape(ix, name)
        shapes[name] = sh
        ok = sh is not None and sh["g1_digits"] == 10 and sh["g2"] == 3 and sh["g3"] == 3 and sh["sign"] == neg
        chk.ob(rule, "%s = ^%s(10 digits)(3 digits)?(3 digits)?" % (name, "-" if neg else ""), ok, "shape %s" % sh,
               key={"construct": name}, file="dateparser/date.py", function="<module>", line=None)
    f = ix.func("dateparser.date:get_date_from_timestamp")
    # def-use: which names hold the matched TEXT of group k (raw) and which hold its integer value (intn), whatever they are called
    raw, intn, int_forms = {}, {}, {}
    for n in iter_own_nodes(f.node):
        if isinstance(n, ast.Assign) and len(n.targets) == 1:
            t, v = n.targets[0], n.value
            if isinstance(t, (ast.Tuple, ast.List)) and all(isinstance(e_, ast.Name) for e_ in t.elts) and isinstance(v, ast.Call) \
                    and isinstance(v.func, ast.Attribute) and v.func.attr == "groups" and not v.args:
                for i_, e_ in enumerate(t.elts):
                    raw[e_.id] = i_ + 1
            elif isinstance(t, ast.Name) and isinstance(v, ast.Call) and isinstance(v.func, ast.Attribute) and v.func.attr == "group" \
                    and len(v.args) == 1 and isinstance(v.args[0], ast.Constant):
                raw[t.id] = v.args[0].value

    def int_of_group(e):
        """k when e is int(<text of group k>) or int(<text of group k> or 0)"""
        if not (isinstance(e, ast.Call) and ast.unparse(e.func) == "int" and len(e.args) == 1 and not e.keywords):
            return None
        a_ = e.args[0]
        if isinstance(a_, ast.BoolOp) and isinstance(a_.op, ast.Or) and len(a_.values) == 2 and isinstance(a_.values[1], ast.Constant) and a_.values[1].value == 0:
            a_ = a_.values[0]
        if isinstance(a_, ast.Call) and isinstance(a_.func, ast.Attribute) and a_.func.attr == "group" and len(a_.args) == 1 and isinstance(a_.args[0], ast.Constant):
            return a_.args[0].value
        if isinstance(a_, ast.Name) and a_.id in raw:
            return raw[a_.id]
        return None
    for n in iter_own_nodes(f.node):
        k_ = int_of_group(n) if isinstance(n, ast.Call) else None
        if k_ is not None:
            int_forms.setdefault(k_, set()).add(" ".join(ast.unparse(n).split()))
        if isinstance(n, ast.Assign) and len(n.targets) == 1 and isinstance(n.targets[0], ast.Name) and int_of_group(n.value) is not None:
            intn[n.targets[0].id] = int_of_group(n.value)
    # a generator that converts every group at once: a, b, c = (int(x or 0) for x in match.groups())
    for n in iter_own_nodes(f.node):
        if isinstance(n, ast.Assign) and isinstance(n.targets[0], (ast.Tuple, ast.List)) and all(isinstance(e_, ast.Name) for e_ in n.targets[0].elts) \
                and isinstance(n.value, (ast.GeneratorExp, ast.ListComp)) and len(n.value.generators) == 1 \
                and isinstance(n.value.generators[0].iter, ast.Call) and isinstance(n.value.generators[0].iter.func, ast.Attribute) \
                and n.value.generators[0].iter.func.attr == "groups" and isinstance(n.value.generators[0].target, ast.Name):
            v_ = n.value.generators[0].target.id
            if " ".join(ast.unparse(n.value.elt).split()) in ("int(%s)" % v_, "int(%s or 0)" % v_):
                for i_, e_ in enumerate(n.targets[0].elts):
                    intn[e_.id] = i_ + 1
    for nm in list(intn):
        raw.pop(nm, None) if False else None
    covered = set(intn.values()) | set(int_forms)
    chk.floor(rule, len(covered & {1, 2, 3}), 3, "names bound to int(match.group(k))")
    if len(covered & {1, 2, 3}) < 3:
        return          # nothing to reason about: reported as ANALYSIS-ERROR by the floor
    ft = [n for n in iter_own_nodes(f.node) if isinstance(n, ast.Call) and ast.unparse(n.func).endswith("fromtimestamp")]
    a0 = ft[0].args[0] if len(ft) == 1 and ft[0].args else None
    rebound_raw = {nm for nm in raw if nm in intn}      # `seconds = int(seconds)`: after it the name holds the number
    ok = (isinstance(a0, ast.Name) and intn.get(a0.id) == 1) or (a0 is not None and int_of_group(a0) == 1)
    chk.ob(rule, "fromtimestamp receives group 1 (the 10-digit seconds) and nothing else", ok, "",
           key={"construct": "seconds argument"}, file=f.file, function=f.qual, line=f.node.lineno)
    ms = None
    for n in iter_own_nodes(f.node):
        if isinstance(n, ast.Call) and isinstance(n.func, ast.Attribute) and n.func.attr == "replace":
            for k in n.keywords:
                if k.arg == "microsecond":
                    ms = k.value
        elif isinstance(n, ast.Call) and ast.unparse(n.func) in ("timedelta", "datetime.timedelta"):
            # equally exact: result + timedelta(microseconds=<integer form>)
            for k in n.keywords:
                if k.arg == "microseconds":
                    ms = k.value
    syms = {}
    for name, g in intn.items():
        syms.setdefault("g%d" % g, set()).add(name)
    for g, forms in int_forms.items():
        syms.setdefault("g%d" % g, set()).update(forms)
    grp = intn
    for _ in range(3):          # a local that only names the sum
        if isinstance(ms, ast.Name):
            defs = [n for n in iter_own_nodes(f.node) if isinstance(n, ast.Assign) and len(n.targets) == 1 and isinstance(n.targets[0], ast.Name)
                    and n.targets[0].id == ms.id]
            if len(defs) == 1 and ms.id not in grp:
                ms = defs[0].value
    w3 = (shapes.get("RE_SEARCH_TIMESTAMP") or {}).get("g3", 3)
    if ms is None:
        chk.ob(rule, "the millisecond/microsecond digits reach the result as an integer microsecond count", False,
               "no replace(microsecond=...) / timedelta(microseconds=...) built from groups 2 and 3: the sub-second digits take "
               "another route (through a float, the value is off by a microsecond for large epoch numbers)",
               key={"construct": "microsecond scale"}, file=f.file, function=f.qual, line=f.node.lineno)
    else:
        lin = _linear(ms, syms)
        ok = lin is not None and lin.get("g2") == 10 ** w3 and lin.get("g3") == 1 and not lin.get(1) and not lin.get("g1")
        chk.ob(rule, "microsecond = %d*group2 + group3" % 10 ** w3, ok, "linear form %s" % lin,
               key={"construct": "microsecond scale"}, file=f.file, function=f.qual, line=f.node.lineno, text=ast.unparse(ms))
    # the match is taken on the string handed in, choosing the regex by `negative`
    ok = False
    for n in iter_own_nodes(f.node):
        if not isinstance(n, ast.If):
            continue
        from ..core.ctx import if_arms
        t_, then_, else_ = if_arms(n)
        if isinstance(t_, ast.Name) and t_.id == "negative" and then_ and else_:
            b = ast.unparse(then_[0].value) if isinstance(then_[0], ast.Assign) else ""
            o = ast.unparse(else_[0].value) if isinstance(else_[0], ast.Assign) else ""
            ok = b.startswith("RE_SEARCH_NEGATIVE_TIMESTAMP.search(") and o.startswith("RE_SEARCH_TIMESTAMP.search(") \
                and ast.unparse(then_[0].targets[0]) == ast.unparse(else_[0].targets[0])
    # the same choice written as a conditional expression: R = NEG if negative else POS; match = R.search(..)
    for n in iter_own_nodes(f.node):
        if isinstance(n, ast.IfExp):
            t_, a_, b_ = n.test, n.body, n.orelse
            while isinstance(t_, ast.UnaryOp) and isinstance(t_.op, ast.Not):
                t_, a_, b_ = t_.operand, b_, a_
            if isinstance(t_, ast.Name) and t_.id == "negative":
                a_t, b_t = ast.unparse(a_), ast.unparse(b_)
                if a_t.startswith("RE_SEARCH_NEGATIVE_TIMESTAMP") and b_t.startswith("RE_SEARCH_TIMESTAMP") and (a_t.endswith(")") == b_t.endswith(")")):
                    ok = True
    chk.ob(rule, "the negative regex is used only when negative=True", ok, "", key={"construct": "regex choice"}, file=f.file,
           function=f.qual, line=f.node.lineno)
    D = ix.cls("dateparser.date:_DateLocaleParser")
    ok = "negative=True" in ast.unparse(D.methods["_try_negative_timestamp"].node) and "negative" not in ast.unparse(D.methods["_try_timestamp"].node)
    chk.ob(rule, "only the negative-timestamp parser passes negative=True", ok, "", key={"construct": "negative plumbing"},
           file="dateparser/date.py", function="_DateLocaleParser", line=None)


def _usec_kind(e, f, ctx, env, depth=0):
    """abstract value of an expression inside the %f recovery:
    ('digits',) the captured fraction; ('padded', K); ('exact', K) = int of the fraction right-padded to K digits;
    ('float',) went through binary floating point; None = not recognised"""
    from ..core.effects import numeric_string
    if depth > 6:
        return None
    if isinstance(e, ast.Name) and e.id in env:
        return env[e.id]
    if numeric_string(e, f, ctx.ix) and not isinstance(e, ast.Constant):
        # a name bound to the digit group, possibly already padded in place
        if isinstance(e, ast.Name):
            # the closest preceding definition decides (the two %f branches define the name separately)
            defs = sorted(((n.lineno, n.value) for n in iter_own_nodes(f.node) if isinstance(n, ast.Assign)
                           and any(isinstance(t, ast.Name) and t.id == e.id for t in n.targets)
                           and n.lineno <= getattr(e, "lineno", 10 ** 9)), key=lambda x: x[0])
            if defs:
                k = _pad_width(defs[-1][1], e.id)
                if k is not None:
                    return ("padded", k)
        return ("digits",)
    if isinstance(e, ast.Name):
        # a local computed from the digit group: follow its closest preceding definition (not the statement the name itself sits in)
        defs = sorted(((n.lineno, n.value) for n in iter_own_nodes(f.node) if isinstance(n, ast.Assign)
                       and any(isinstance(t, ast.Name) and t.id == e.id for t in n.targets)
                       and n.lineno <= getattr(e, "lineno", 10 ** 9) and not any(x is e for x in ast.walk(n.value))), key=lambda x: x[0])
        if defs:
            if numeric_string(defs[-1][1], f, ctx.ix) and not isinstance(defs[-1][1], ast.Constant):
                return ("digits",)
            return _usec_kind(defs[-1][1], f, ctx, env, depth + 1)
        return None
    if isinstance(e, ast.BinOp) and isinstance(e.op, ast.Add):
        l = _usec_kind(e.left, f, ctx, env, depth + 1)
        if l == ("digits",):
            k = _pad_width(e, ast.unparse(e.left))
            if k is not None:
                return ("padded", k)
    if isinstance(e, ast.Call):
        fn = ast.unparse(e.func)
        if isinstance(e.func, ast.Attribute) and e.func.attr == "ljust" and len(e.args) == 2 and isinstance(e.args[0], ast.Constant) \
                and isinstance(e.args[1], ast.Constant) and e.args[1].value == "0":
            if _usec_kind(e.func.value, f, ctx, env, depth + 1) == ("digits",):
                return ("padded", e.args[0].value)
        if fn == "int" and len(e.args) == 1:
            a = _usec_kind(e.args[0], f, ctx, env, depth + 1)
            if a and a[0] == "padded":
                return ("exact", a[1])
            if a == ("float",):
                return ("float",)
            if a == ("digits",):
                return ("int-of-digits",)
        if fn in ("float", "round"):
            return ("float",)
        # project helper: evaluate its return with the parameter bound
        g = ctx.ix.lookup_module_attr(f.module, fn) if "." not in fn else None
        from ..core.index import Func
        if isinstance(g, Func) and len(e.args) == len(g.params()):
            env2 = {}
            for p, a in zip(g.params(), e.args):
                v = _usec_kind(a, f, ctx, env, depth + 1)
                if v is not None:
                    env2[p] = v
            rets = [n.value for n in iter_own_nodes(g.node) if isinstance(n, ast.Return) and n.value is not None]
            kinds = {_usec_kind(r, g, ctx, env2, depth + 1) for r in rets}
            if len(kinds) == 1:
                return kinds.pop()
    if isinstance(e, ast.BinOp) and isinstance(e.op, (ast.Mult, ast.Div, ast.FloorDiv)):
        l, r = _usec_kind(e.left, f, ctx, env, depth + 1), _usec_kind(e.right, f, ctx, env, depth + 1)
        if ("float",) in (l, r) or any(isinstance(x, ast.Call) and ast.unparse(x.func) == "float" for x in ast.walk(e)):
            return ("float",)
        # int(s) * 10 ** (K - len(s))
        if l == ("int-of-digits",) and isinstance(e.op, ast.Mult) and isinstance(e.right, ast.BinOp) and isinstance(e.right.op, ast.Pow) \
                and isinstance(e.right.left, ast.Constant) and e.right.left.value == 10 and isinstance(e.right.right, ast.BinOp) \
                and isinstance(e.right.right.op, ast.Sub) and isinstance(e.right.right.left, ast.Constant):
            return ("exact", e.right.right.left.value)
    return None


def _pad_width(d, name):
    """K of  <name> + (K - len(<name>)) * "0"  (either operand order of the product)"""
    if isinstance(d, ast.BinOp) and isinstance(d.op, ast.Add) and ast.unparse(d.left) == name and isinstance(d.right, ast.BinOp) \
            and isinstance(d.right.op, ast.Mult):
        a, b = d.right.left, d.right.right
        if isinstance(a, ast.Constant) and a.value == "0":
            a, b = b, a
        if isinstance(b, ast.Constant) and b.value == "0" and isinstance(a, ast.BinOp) and isinstance(a.op, ast.Sub) \
                and isinstance(a.left, ast.Constant) and ast.unparse(a.right) == "len(%s)" % name:
            return a.left.value
    return None


def r2(ctx, chk):
    rule = "C01.R2"
    ix = ctx.ix
    f = ix.func("dateparser.utils.strptime:strptime")
    widths = {}
    for name in ("TIME_MATCHER", "MS_SEARCHER"):
        pat, _ = rx.module_regex(ix, "dateparser.utils.strptime", name)
        widths[name] = rx.max_repeat_of_group(pat, "microsecond")
    for name, w in widths.items():
        chk.ob(rule, "%s: microsecond group is 1..6 digits" % name, w == (1, 6), "repeat %s" % (w,), key={"construct": name},
               file=f.file, function="<module>", line=None)
    sites = [k.value for n in iter_own_nodes(f.node) if isinstance(n, ast.Call) and isinstance(n.func, ast.Attribute) and n.func.attr == "replace"
             for k in n.keywords if k.arg == "microsecond"]
    chk.floor(rule, len(sites), 1, "microsecond= arguments in the %f recovery")
    wmax = max((w[1] for w in widths.values() if w), default=None)
    for e in sites:
        kind = _usec_kind(e, f, ctx, {})
        if kind is None:
            raise AnalysisError(rule, "strptime: microsecond=%s is not one of the recognised exact conversions" % ast.unparse(e)[:60])
        ok = kind[0] == "exact" and kind[1] == wmax == 6
        why = ""
        if kind == ("float",):
            why = "the fraction is converted through binary floating point: int(float('0.'+s)*1e6) truncates about 1% of six-digit fractions by one microsecond"
        elif kind[0] == "exact":
            why = "the fraction is scaled to %s digits but the group allows %s: a short fraction such as .5 is scaled by the wrong power of ten" % (kind[1], wmax)
        else:
            why = "conversion kind %s" % (kind,)
        chk.ob(rule, "strptime: microsecond=%s is the captured fraction right-padded to 6 digits, exactly" % ast.unparse(e)[:40], ok, why,
               key={"construct": "exact microseconds"}, file=f.file, function=f.qual, line=e.lineno, text=ast.unparse(e),
               positive=(kind == ("float",)))        # a float conversion that is present is a fact, wherever the code was moved
    tp = ix.cls("dateparser.parser:_time_parser")
    td = ast.literal_eval(tp.attrs["time_directives"])
    chk.ob(rule, "time directives include seconds with and without fraction, 24h and 12h", {"%H:%M:%S", "%H:%M:%S.%f", "%H:%M", "%I:%M %p"} <= set(td),
           "directives %s" % td, key={"construct": "time_directives"}, file="dateparser/parser.py", function="_time_parser", line=None)


def r3(ctx, chk):
    rule = "C01.R3"
    ix = ctx.ix
    ps = ix.func("dateparser.utils.strptime:patch_strptime")
    tables = {}
    for n in iter_own_nodes(ps.node):
        if isinstance(n, ast.Assign) and isinstance(n.targets[0], ast.Attribute) and n.targets[0].attr in ("month_name", "month_abbr", "day_name", "day_abbr"):
            try:
                tables[n.targets[0].attr] = ast.literal_eval(n.value)
            except Exception:
                raise AnalysisError(rule, "patched %s is not a literal" % n.targets[0].attr)
    if set(tables) != {"month_name", "month_abbr", "day_name", "day_abbr"}:
        raise AnalysisError(rule, "patch_strptime no longer sets the four calendar tables")
    from ..core.data import MONTHS, WEEKDAYS
    known = module_literal(ctx.repo, "dateparser/languages/dictionary.py", "KNOWN_WORD_TOKENS")
    chk.ob(rule, "patched month_name == the translator's month targets", tables["month_name"] == [""] + MONTHS and all(m in known for m in MONTHS),
           "month_name %s" % tables["month_name"], key={"construct": "month_name"}, file=ps.file, function=ps.qual, line=ps.node.lineno)
    chk.ob(rule, "patched day_name == the translator's weekday targets (Monday first)", tables["day_name"] == WEEKDAYS and all(d in known for d in WEEKDAYS),
           "day_name %s" % tables["day_name"], key={"construct": "day_name"}, file=ps.file, function=ps.qual, line=ps.node.lineno)
    chk.ob(rule, "patched month_abbr are the 3-letter prefixes of the names", tables["month_abbr"] == [""] + [m[:3] for m in MONTHS], "",
           key={"construct": "month_abbr"}, file=ps.file, function=ps.qual, line=ps.node.lineno)
    chk.ob(rule, "patched day_abbr are the 3-letter prefixes of the names", tables["day_abbr"] == [d[:3] for d in WEEKDAYS], "",
           key={"construct": "day_abbr"}, file=ps.file, function=ps.qual, line=ps.node.lineno)
    # English vocabulary: name and abbreviation listed under their own key, not overridden
    from .vocab import LocaleModel
    lm = LocaleModel(ctx, "en", "en")
    for normalize in (True, False):
        d = lm.dictionary(normalize)
        for k in MONTHS + WEEKDAYS:
            for w in (k, k[:3]):
                got = d.get(w)
                chk.ob(rule, "en (NORMALIZE=%s): %r translates to %r" % (normalize, w, k), got == k, "translates to %r" % (got,),
                       key={"construct": "en identity", "word": w, "normalize": normalize}, file="dateparser/data/date_translation_data/en.py",
                       function="info", line=None)
        for w in ("am", "pm"):
            chk.ob(rule, "en: %r stays %r" % (w, w), d.get(w) == w, "is %r" % (d.get(w),), key={"construct": "en identity", "word": w, "normalize": normalize},
                   file="dateparser/data/date_translation_data/en.py", function="info", line=None)


def r4(ctx, chk):
    rule = "C01.R4"
    order, effs = P.effects(ctx)
    complete = G.conj(("atom", "tok_year"), ("atom", "tok_month"), ("atom", "tok_day"), G.neg(("atom", "two")))
    for e in effs:
        for extra, label in ((("atom", "tok_time"), "with a time"), (G.neg(("atom", "tok_time")), "date only")):
            w = G.satisfiable(G.conj(e.guard, complete, extra), P.ATOMS, P.constraint)
            chk.ob(rule, "%s L%d `%s` cannot touch a complete date (%s) under any PREFER_* setting" % (e.stage, e.node.lineno, e.text[:30], label),
                   w is None, "enabled under %s" % ({k: v for k, v in (w or {}).items() if v and not isinstance(k, tuple)}),
                   key={"function": e.fn.key, "construct": "complete date %s: %s %s" % (label, e.kind, e.field), "text": " ".join(e.text.split())[:50]},
                   file=e.fn.file, function=e.fn.qual, line=e.node.lineno)
    chk.floor(rule, len(effs), 8, "result-changing statements examined")


def r5(ctx, chk):
    """lexer and directive tables the standard formats rely on"""
    rule = "C01.R5"
    import string
    ix = ctx.ix
    T = ix.cls("dateparser.parser:tokenizer")
    digits = ast.literal_eval(T.attrs["digits"]) if "digits" in T.attrs else None
    letters = ast.literal_eval(T.attrs["letters"]) if "letters" in T.attrs else None
    chk.ob(rule, "tokenizer.digits is 0-9 plus ':'", digits is not None and set(digits) == set(string.digits + ":"), "is %r" % digits,
           key={"construct": "tokenizer.digits"}, file="dateparser/parser.py", function="tokenizer", line=None)
    chk.ob(rule, "tokenizer.letters is the ASCII alphabet in both cases", letters is not None and set(letters) == set(string.ascii_letters), "is %r" % letters,
           key={"construct": "tokenizer.letters"}, file="dateparser/parser.py", function="tokenizer", line=None)
    pat, _ = rx.module_regex(ix, "dateparser.parser", "MICROSECOND")
    chk.ob(rule, "MICROSECOND accepts 1..6 digits (the width the fraction is padded to)", pat == r"\d{1,6}", "pattern %r" % pat,
           key={"construct": "MICROSECOND"}, file="dateparser/parser.py", function="<module>", line=None)
    P_ = ix.cls("dateparser.parser:_parser")
    ad = P_.attrs.get("alpha_directives")
    t = " ".join(ast.unparse(ad).split()) if ad is not None else ""
    ok = "('weekday', ['%A', '%a'])" in t and "('month', ['%B', '%b'])" in t
    chk.ob(rule, "alphabetic tokens are tried as weekday (%A, %a) then month (%B, %b)", ok, t[:80],
           key={"construct": "alpha_directives"}, file="dateparser/parser.py", function="_parser", line=None)
    dset = module_literal(ctx.repo, "dateparser_data/settings.py", "settings")
    chk.ob(rule, "the ISO 'T' separator is a default skip token", "t" in dset.get("SKIP_TOKENS", []), "SKIP_TOKENS default %s" % dset.get("SKIP_TOKENS"),
           key={"construct": "SKIP_TOKENS t"}, file="dateparser_data/settings.py", function="settings", line=None)
    init = ix.func("dateparser.parser:_parser.__init__")
    ok = False
    for n in iter_own_nodes(init.node):
        if isinstance(n, ast.Assign) and isinstance(n.targets[0], ast.Name) and isinstance(n.value, (ast.List, ast.Tuple, ast.Set)):
            try:
                vals = list(ast.literal_eval(n.value))
            except Exception:
                continue
            nm = n.targets[0].id
            if "t" in vals and any(isinstance(c, ast.Compare) and isinstance(c.ops[0], ast.In) and ast.unparse(c.comparators[0]) == nm
                                   for c in iter_own_nodes(init.node)):
                ok = True
    chk.ob(rule, "the absolute parser ignores a bare 't' token", ok, "", key={"construct": "parser skip t"}, file=init.file, function=init.qual, line=init.node.lineno)
    # default parsers try timestamp first, then relative, custom formats, absolute
    dp = module_literal(ctx.repo, "dateparser_data/settings.py", "default_parsers")
    chk.ob(rule, "default parser order: timestamp, relative-time, custom-formats, absolute-time", dp == ["timestamp", "relative-time", "custom-formats", "absolute-time"],
           "is %s" % dp, key={"construct": "default_parsers"}, file="dateparser_data/settings.py", function="default_parsers", line=None)

"""C11 — a timezone written in the string yields exactly that offset.

R1 first-match-wins shadowing over the ordered table    R2 prefilter regex is the case-insensitive one
R3 name/offset pairing, span removal, first match returns   R4 StaticTzInfo semantics and pickling protocol
R5 attach, don't convert                                 R6 no-zone strings stay naive by default
"""
import ast
import re as stdre

import regex

from ..core.index import iter_own_nodes, iter_own_stmts
from ..core.repo import AnalysisError
from .c16 import tz_model

LEVEL = "other"
EXPLANATION = (
    "Dead-rule / shadowing analysis of the ordered timezone table (as rebuilt from timezones.py by the "
    "conformance-checked model of build_tz_offsets; C16 proves the pickle equal to it): for every abbreviation "
    "listed with one offset, in upper and lower case, and every supported UTC offset in eight spellings, the FIRST "
    "entry whose regex matches carries exactly the listed offset and the prefilter regex lets it through. "
    "Structural rules on pop_tz_offset_from_string (case-insensitive prefilter, name/offset from the same entry, "
    "first match returns, the captured leading character is kept), StaticTzInfo (constant offset, zero dst, "
    "localize attaches, __getinitargs__ mirrors __init__) and DateParser.parse (the zone is attached to the naive "
    "result before any conversion; stripped by default only when the string named no zone)."
)
TP = "dateparser.timezone_parser"


def run(ctx, chk):
    r1(ctx, chk)
    r2(ctx, chk)
    r3(ctx, chk)
    r4(ctx, chk)
    r5(ctx, chk)
    first_match_rule(ctx, chk, "C11.R8")
    # R7: which locale reads the string (and its zone word) must not depend on earlier calls
    from .c13 import previous_locales_flag_rule
    previous_locales_flag_rule(ctx, chk, "C11.R7")
    dropped_words_rule(ctx, chk, "C11.R9")


def _spellings(name):
    """UTC\\+05:30 -> the accepted spellings of that offset"""
    m = stdre.match(r"^UTC\\([+-])(\d\d):(\d\d)$", name)
    if not m:
        return None
    s, hh, mm = m.groups()
    h = str(int(hh))
    out = [s + hh + mm, s + hh + ":" + mm,
           "UTC" + s + hh + ":" + mm, "GMT" + s + hh + ":" + mm,
           "UTC" + s + h + ":" + mm, "GMT" + s + h + ":" + mm,
           "UTC" + s + hh + mm, "GMT" + s + hh + mm]
    if mm == "00":
        out += ["UTC" + s + h, "GMT" + s + h]
    return out


def r1(ctx, chk):
    rule = "C11.R1"
    tl, entries, parts = tz_model(ctx, rule)
    compiled = []
    for name, pat, secs in entries:
        try:
            compiled.append((name, regex.compile(pat, regex.IGNORECASE), secs))
        except regex.error as e:
            chk.ob(rule, "table pattern %r compiles" % pat, False, str(e), key={"entry": name, "construct": "compiles"},
                   file="dateparser/timezones.py", function="timezone_info_list", line=None)
            return
    pre = regex.compile("|".join(parts), regex.IGNORECASE)
    pre_cs = regex.compile("|".join(parts))

    def first(s):
        for name, rx, secs in compiled:
            if rx.search(s):
                return name, secs
        return None

    # offsets
    n_off = n_abbr = 0
    body = "12 March 2015 10:30"
    for info in tl:
        for name, secs in info["timezones"]:
            sp = _spellings(name)
            if sp is None:
                continue
            n_off += 1
            for s in sp:
                probe = body + " " + s
                got = first(probe)
                ok = got is not None and got[1] == secs and bool(pre.search(probe))
                chk.ob(rule, "offset %s spelled %r resolves to %ds" % (name.replace("\\", ""), s, secs), ok,
                       "first matching entry is %r (prefilter %s)" % (got, bool(pre.search(probe))),
                       key={"entry": name, "spelling": s}, file="dateparser/timezones.py",
                       function="timezone_info_list", line=None)
    # abbreviations listed with a single offset
    counts = {}
    for info in tl:
        for name, secs in info["timezones"]:
            if _spellings(name) is None:
                counts.setdefault(name, set()).add(secs)
    for name, offs in sorted(counts.items()):
        if len(offs) != 1:
            chk.note("abbreviation %s is listed with %d offsets: ambiguous by the table itself, excluded" % (name, len(offs)))
            continue
        if not stdre.match(r"^[A-Za-z]+$", name):
            continue
        n_abbr += 1
        secs = next(iter(offs))
        for variant in (name, name.lower()):
            for probe in (body + " " + variant,):
                got = first(probe)
                ok = got is not None and got[1] == secs and bool(pre.search(probe))
                chk.ob(rule, "abbreviation %r resolves to %ds" % (variant, secs), ok,
                       "first matching entry is %r (prefilter %s)" % (got, bool(pre.search(probe))),
                       key={"entry": name, "spelling": variant}, file="dateparser/timezones.py",
                       function="timezone_info_list", line=None)
        # word_is_tz uses the case-sensitive regex on the bare word
        chk.ob(rule, "word_is_tz regex accepts %r" % name, bool(pre_cs.match(name)), "",
               key={"entry": name, "spelling": "word_is_tz"}, file="dateparser/timezones.py",
               function="timezone_info_list", line=None, nontrivial=False)
    chk.floor(rule + ".offsets", n_off, 30, "UTC offsets in the table")
    chk.floor(rule + ".abbreviations", n_abbr, 300, "single-offset abbreviations in the table")
    # offsets are whole seconds within a day
    bad = [(n, s) for info in tl for n, s in info["timezones"] if not isinstance(s, int) or abs(s) >= 86400]
    chk.ob(rule, "every listed offset is an int number of seconds within +-24h", not bad, str(bad[:3]),
           key={"entry": "*", "spelling": "range"}, file="dateparser/timezones.py", function="timezone_info_list", line=None)
    # a string without any zone token is not touched
    for probe in ("12 March 2015 10:30", "2015-03-12", "March 12"):
        chk.ob(rule, "no table entry matches the zone-less string %r" % probe, first(probe) is None,
               "matched %r" % (first(probe),), key={"entry": "<none>", "spelling": probe},
               file="dateparser/timezones.py", function="timezone_info_list", line=None)


def r2(ctx, chk):
    rule = "C11.R2"
    ix = ctx.ix
    f = ix.func(TP + ":pop_tz_offset_from_string")
    lo = ix.func(TP + ":_load_offsets")
    # which global is compiled with IGNORECASE in _load_offsets
    ic = set()
    for n in iter_own_nodes(lo.node):
        if isinstance(n, ast.Assign) and isinstance(n.value, ast.Call) and ast.unparse(n.value.func).endswith("compile"):
            if any("IGNORECASE" in ast.unparse(a) or ast.unparse(a).endswith(".I") for a in n.value.args[1:] + [k.value for k in n.value.keywords]):
                ic.add(ast.unparse(n.targets[0]))
    if not ic:
        chk.ob(rule, "_load_offsets compiles an IGNORECASE search regex for the prefilter", False,
               "none of the regexes compiled on the rebuild path ignores case: after a cache rebuild lower-case abbreviations ('10:00 est') are not "
               "recognised as zones any more", key={"function": lo.key, "construct": "ignorecase prefilter compiled"},
               file=lo.file, function=lo.qual, line=lo.node.lineno)
        return
    guards = [s for s in iter_own_stmts(f.node.body) if isinstance(s, ast.If) and ".search(" in ast.unparse(s.test)]
    if not guards:
        raise AnalysisError(rule, "pop_tz_offset_from_string has no prefilter guard")
    g = guards[0]
    gt = g.test
    while isinstance(gt, ast.UnaryOp) and isinstance(gt.op, ast.Not):      # guard clause form: `if not R.search(s): return s, None`
        gt = gt.operand
    used = ast.unparse(gt.func.value) if isinstance(gt, ast.Call) and isinstance(gt.func, ast.Attribute) else None
    chk.ob(rule, "prefilter of pop_tz_offset_from_string is the IGNORECASE search regex (%s)" % sorted(ic), used in ic,
           "prefilter uses %s: lower-case abbreviations never reach the table" % used,
           key={"function": f.key, "construct": "prefilter regex"}, file=f.file, function=f.qual, line=g.lineno)
    chk.ob(rule, "prefilter searches (not matches) the whole date string",
           isinstance(gt, ast.Call) and isinstance(gt.func, ast.Attribute) and gt.func.attr == "search" and ast.unparse(gt.args[0]) == f.params()[0], "",
           key={"function": f.key, "construct": "prefilter search"}, file=f.file, function=f.qual, line=g.lineno)
    # unpack order of the cache tuple == order it is dumped (C19 checks the same names)
    w = ix.func(TP + ":word_is_tz")
    t = ast.unparse(w.node)
    chk.ob(rule, "word_is_tz uses the case-sensitive search regex", "_search_regex.match(" in t, "",
           key={"function": w.key, "construct": "word_is_tz regex"}, file=w.file, function=w.qual, line=w.node.lineno)


def r3(ctx, chk):
    rule = "C11.R3"
    f = ctx.ix.func(TP + ":pop_tz_offset_from_string")
    loops = [n for n in iter_own_nodes(f.node) if isinstance(n, ast.For)]
    if len(loops) != 1:
        raise AnalysisError(rule, "expected one loop over the table in pop_tz_offset_from_string")
    lp = loops[0]
    chk.ob(rule, "the loop walks _tz_offsets in table order", ast.unparse(lp.iter) == "_tz_offsets",
           "iterates %s" % ast.unparse(lp.iter), key={"function": f.key, "construct": "loop over _tz_offsets"},
           file=f.file, function=f.qual, line=lp.lineno)
    if not (isinstance(lp.target, ast.Tuple) and len(lp.target.elts) == 2):
        raise AnalysisError(rule, "loop target is not (name, info)")
    nm, info = [e.id for e in lp.target.elts]
    # regex used for matching is info["regex"]; offset handed out is info["offset"]; name is nm
    ctor = [n for n in ast.walk(lp) if isinstance(n, ast.Call) and ast.unparse(n.func) == "StaticTzInfo"]
    ok = bool(ctor) and all([ast.unparse(a) for a in c.args] == [nm, "%s['offset']" % info] for c in ctor)
    chk.ob(rule, "StaticTzInfo(name, info['offset']) takes both from the matching entry", ok,
           "constructed as %s" % [ast.unparse(c) for c in ctor],
           key={"function": f.key, "construct": "StaticTzInfo(name, info['offset'])"}, file=f.file, function=f.qual,
           line=lp.lineno)
    searches = [n for n in ast.walk(lp) if isinstance(n, ast.Call) and isinstance(n.func, ast.Attribute) and n.func.attr == "search"]
    rx_src = set()
    for s in searches:
        v = s.func.value
        if isinstance(v, ast.Name):
            for a in ast.walk(lp):
                if isinstance(a, ast.Assign) and ast.unparse(a.targets[0]) == v.id:
                    rx_src.add(ast.unparse(a.value))
        else:
            rx_src.add(ast.unparse(v))
    chk.ob(rule, "the entry is selected by its own regex info['regex']", rx_src == {"%s['regex']" % info},
           "regex source %s" % sorted(rx_src), key={"function": f.key, "construct": "info['regex'].search"},
           file=f.file, function=f.qual, line=lp.lineno)
    # first match returns (return inside `if match:` inside the loop)
    # after a match every path returns (one return, or one per kind of result); no path goes on to the next entry
    def always_returns(stmts):
        if not stmts:
            return False
        last = stmts[-1]
        if isinstance(last, ast.Return):
            return True
        return isinstance(last, ast.If) and always_returns(last.body) and always_returns(last.orelse)
    match_vars = {ast.unparse(a.targets[0]) for a in ast.walk(lp) if isinstance(a, ast.Assign) and any(c is a.value for c in searches)}
    verdict = None
    for i_, st_ in enumerate(lp.body):
        if not isinstance(st_, ast.If):
            continue
        t_, neg_ = st_.test, False
        while isinstance(t_, ast.UnaryOp) and isinstance(t_.op, ast.Not):
            t_, neg_ = t_.operand, not neg_
        if (isinstance(t_, ast.Name) and t_.id in match_vars) or any(t_ is c for c in searches):
            if not neg_:
                verdict = always_returns(st_.body)
            else:
                verdict = bool(st_.body) and isinstance(st_.body[-1], ast.Continue) and not st_.orelse and always_returns(lp.body[i_ + 1:])
    if verdict is None:
        chk.error(rule, "pop_tz_offset_from_string: the test on the entry's match was not found in the loop")
    else:
        chk.ob(rule, "the first matching entry returns", verdict, "after a match some path goes on to later entries of the table",
               key={"function": f.key, "construct": "return in loop"}, file=f.file, function=f.qual, line=lp.lineno)
    # span removal keeps the captured leading character
    ok = False
    for n in ast.walk(lp):
        if isinstance(n, ast.Assign) and isinstance(n.value, ast.BinOp) and isinstance(n.value.op, ast.Add):
            l, r = n.value.left, n.value.right
            if isinstance(l, ast.Subscript) and isinstance(r, ast.Subscript) and isinstance(l.slice, ast.Slice) and isinstance(r.slice, ast.Slice):
                up = ast.unparse(l.slice.upper) if l.slice.upper else ""
                lo_ = ast.unparse(r.slice.lower) if r.slice.lower else ""
                for spn in [x for x in ast.walk(lp) if isinstance(x, ast.Assign) and ast.unparse(x.value).endswith(".span()")
                            and isinstance(x.targets[0], ast.Tuple) and len(x.targets[0].elts) == 2]:
                    a_, b_ = [ast.unparse(e) for e in spn.targets[0].elts]
                    if up.replace(" ", "") == a_ + "+1" and lo_ == b_ and l.slice.lower is None and r.slice.upper is None:
                        ok = True
    sp = [n for n in ast.walk(lp) if isinstance(n, ast.Assign) and ast.unparse(n.value).endswith(".span()")]
    chk.ob(rule, "the zone is cut out as s[:start+1] + s[stop:] (the captured leading character stays)", ok and bool(sp),
           "a digit of the time before the zone would be lost (or the zone kept)",
           key={"function": f.key, "construct": "span removal"}, file=f.file, function=f.qual, line=lp.lineno)
    # final fallthrough returns (date_string, None)
    last = f.node.body[-1]
    ok = isinstance(last, ast.Return) and isinstance(last.value, ast.Tuple) and ast.unparse(last.value.elts[1]) == "None" \
        and ast.unparse(last.value.elts[0]) == f.params()[0]
    chk.ob(rule, "no match returns the string unchanged and None", ok, "",
           key={"function": f.key, "construct": "fallthrough"}, file=f.file, function=f.qual, line=last.lineno)


def r4(ctx, chk):
    rule = "C11.R4"
    c = ctx.ix.cls(TP + ":StaticTzInfo")
    init = c.methods.get("__init__")
    gi = c.methods.get("__getinitargs__")
    if not init or not gi:
        chk.ob(rule, "StaticTzInfo defines __init__ and __getinitargs__", False,
               "without __getinitargs__ a pickled/copied StaticTzInfo loses its name and offset",
               key={"construct": "__getinitargs__ exists"}, file=c.module.rel, function=c.name, line=c.node.lineno)
        return
    params = init.params()[1:]
    stored = {}
    for n in iter_own_nodes(init.node):
        if isinstance(n, ast.Assign) and isinstance(n.targets[0], ast.Attribute) and isinstance(n.value, ast.Name):
            stored[n.value.id] = n.targets[0].attr
    rets = [n for n in iter_own_nodes(gi.node) if isinstance(n, ast.Return)]
    ok = len(rets) == 1 and isinstance(rets[0].value, ast.Tuple) and \
        [e.attr if isinstance(e, ast.Attribute) else None for e in rets[0].value.elts] == [stored.get(p) for p in params]
    chk.ob(rule, "__getinitargs__ returns the attributes stored from %s, in __init__'s parameter order" % params, ok,
           "pickling/copying would rebuild the zone with swapped or wrong arguments",
           key={"construct": "__getinitargs__ order"}, file=gi.file, function=gi.qual, line=gi.node.lineno)

    def ret_expr(name):
        m = c.methods.get(name)
        if not m:
            return None
        r = [n for n in iter_own_nodes(m.node) if isinstance(n, ast.Return)]
        return ast.unparse(r[-1].value) if r else None
    off_attr = stored.get(params[1]) if len(params) > 1 else None
    name_attr = stored.get(params[0]) if params else None
    chk.ob(rule, "utcoffset() returns the stored offset for every datetime", ret_expr("utcoffset") == "self.%s" % off_attr,
           "returns %s" % ret_expr("utcoffset"), key={"construct": "utcoffset"}, file=c.module.rel, function=c.name + ".utcoffset", line=None)
    chk.ob(rule, "tzname() returns the stored name", ret_expr("tzname") == "self.%s" % name_attr, "",
           key={"construct": "tzname"}, file=c.module.rel, function=c.name + ".tzname", line=None)
    chk.ob(rule, "dst() is zero", ret_expr("dst") in ("timedelta(0)", "timedelta()"), "returns %s" % ret_expr("dst"),
           key={"construct": "dst"}, file=c.module.rel, function=c.name + ".dst", line=None)
    chk.ob(rule, "localize() attaches the zone without changing the wall clock (dt.replace(tzinfo=self))",
           ret_expr("localize") == "dt.replace(tzinfo=self)", "returns %s" % ret_expr("localize"),
           key={"construct": "localize"}, file=c.module.rel, function=c.name + ".localize", line=None)
    chk.ob(rule, "StaticTzInfo subclasses datetime.tzinfo", "tzinfo" in c.base_exprs, "",
           key={"construct": "base class"}, file=c.module.rel, function=c.name, line=None)


def r5(ctx, chk):
    rule = "C11.R5"
    from ..core.ctx import conjuncts, enclosing_tests

    f = ctx.ix.func("dateparser.date_parser:DateParser.parse")
    # ptz comes from pop_tz_offset_from_string on the (brace-stripped) string, and the parser sees the remainder
    pops = [n for n in iter_own_nodes(f.node) if isinstance(n, ast.Assign) and isinstance(n.value, ast.Call)
            and ast.unparse(n.value.func) == "pop_tz_offset_from_string"]
    if len(pops) != 1 or not isinstance(pops[0].targets[0], ast.Tuple):
        raise AnalysisError(rule, "DateParser.parse: `date_string, ptz = pop_tz_offset_from_string(...)` not found")
    ds, ptz = [e.id for e in pops[0].targets[0].elts]
    ifs = [s for s in iter_own_stmts(f.node.body) if isinstance(s, ast.If) and ast.unparse(s.test) == ptz]
    if not ifs:
        raise AnalysisError(rule, "DateParser.parse: `if ptz:` not found")
    blk = ifs[0].body
    first = blk[0]
    res = [n.targets[0].elts[0].id for n in iter_own_nodes(f.node) if isinstance(n, ast.Assign) and isinstance(n.targets[0], ast.Tuple)
           and isinstance(n.value, ast.Call) and ast.unparse(n.value.func) == "parse_method" and isinstance(n.targets[0].elts[0], ast.Name)]
    dob = res[0] if res else "date_obj"
    holders = {dob}          # the parsed value and the locals it is copied to (`value = date_obj` before the block)
    for _ in range(3):
        for n in iter_own_nodes(f.node):
            if isinstance(n, ast.Assign) and len(n.targets) == 1 and isinstance(n.targets[0], ast.Name) and isinstance(n.value, ast.Name) \
                    and n.value.id in holders:
                holders.add(n.targets[0].id)
    attach = {t % (a_, b_) for h_ in holders for t, a_, b_ in (("%s.localize(%s)", ptz, h_), ("%s.replace(tzinfo=%s)", h_, ptz))}
    vals = set()
    if isinstance(first, ast.If):
        for b in (first.body, first.orelse):
            for s in b:
                if isinstance(s, ast.Assign):
                    vals.add(ast.unparse(s.value))
    elif isinstance(first, ast.Assign):
        vals.add(ast.unparse(first.value))
    chk.ob(rule, "under `if ptz:` the first operation attaches the zone to the parsed (naive) value", bool(vals) and vals <= attach,
           "first operation: %s" % sorted(vals), key={"function": f.key, "construct": "attach first"}, file=f.file,
           function=f.qual, line=first.lineno)
    # conversion to TIMEZONE only when it is not local
    # every conversion of the value to settings.TIMEZONE, wherever in the function it is written
    conv = [n for n in iter_own_nodes(f.node) if isinstance(n, ast.Call) and ast.unparse(n.func) == "apply_timezone" and len(n.args) == 2
            and ast.unparse(n.args[1]).endswith(".TIMEZONE")]
    if not conv:
        chk.error(rule, "DateParser.parse: no apply_timezone(<value>, settings.TIMEZONE) found (whether TIMEZONE is applied at all is C12.R3's obligation)")
    ok = True
    for cnode in conv:
        guarded = False
        for test, pol in enclosing_tests(f.node, cnode):
            for a, p in conjuncts(test, pol):
                if isinstance(a, ast.Compare) and isinstance(a.left, ast.Constant) and a.left.value == "local" and (
                        (p and isinstance(a.ops[0], ast.NotIn)) or (not p and isinstance(a.ops[0], ast.In))):
                    guarded = True
        ok = ok and guarded
    chk.ob(rule, "a string-supplied zone is converted to TIMEZONE only when TIMEZONE is not 'local'", ok, "",
           key={"function": f.key, "construct": "conversion guarded by not-local"}, file=f.file, function=f.qual,
           line=ifs[0].lineno)
    # R6: awareness
    from .c12 import awareness_table
    awareness_table(ctx, chk, rule, only=["dateparser.date_parser:DateParser.parse"])


def thorough(ctx, chk):
    """more bodies and positions for the same first-match rule (end of string, after strip_braces of a parenthesised
    abbreviation, ISO body, time-only body)"""
    rule = "C11.R1t"
    tl, entries, parts = tz_model(ctx, rule)
    compiled = [(name, regex.compile(pat, regex.IGNORECASE), secs) for name, pat, secs in entries]
    pre = regex.compile("|".join(parts), regex.IGNORECASE)
    strip = regex.compile(r"[{}()<>\[\]]+")

    def first(s):
        for name, rx_, secs in compiled:
            if rx_.search(s):
                return name, secs
        return None
    bodies = ["2015-03-12T10:30:00", "10:30", "Thu, 12 Mar 2015 10:30:00", "12.03.2015 10:30:15.123456"]
    n = bad = 0
    counts = {}
    for info in tl:
        for name, secs in info["timezones"]:
            counts.setdefault(name, set()).add(secs)
    for info in tl:
        for name, secs in info["timezones"]:
            sp = _spellings(name)
            if sp is None:
                if len(counts[name]) != 1 or not stdre.match(r"^[A-Za-z]+$", name):
                    continue
                forms = [name, name.lower(), "(%s)" % name]
            else:
                forms = sp
            for b in bodies:
                for f in forms:
                    probe = strip.sub("", b + " " + f)
                    got = first(probe)
                    n += 1
                    ok = got is not None and got[1] == secs and bool(pre.search(probe))
                    if not ok:
                        bad += 1
                        chk.ob(rule, "%r resolves to %ds" % (probe, secs), False, "first matching entry %r" % (got,),
                               key={"entry": name, "spelling": f, "body": b}, file="dateparser/timezones.py",
                               function="timezone_info_list", line=None)
    chk.instances[rule] = n
    chk.obligations.append((rule, "%d body x spelling probes, %d mismatches" % (n, bad), bad == 0, ""))
    chk.nontrivial.add((rule, "probes"))
    chk.extra["thorough_probes"] = n


def first_match_rule(ctx, chk, rule):
    """the timezone table is ordered (numeric-offset spellings before the abbreviations that are their prefixes: 'UTC+05:45'
    also matches the entry 'UTC'): every scan of `_tz_offsets` must stop at the FIRST matching entry - the body of the
    `if <entry regex>.search(..)` inside the loop leaves the loop (return / break) on every path"""
    from ..core.cfg import CFG
    n = 0
    for f in ctx.ix.funcs.values():
        if not f.module.rel.startswith("dateparser/") or f.module.rel.startswith("dateparser/data/"):
            continue
        # the table is shared by the whole process and its order is part of its meaning: nobody reorders or edits it after it is loaded
        for c in iter_own_nodes(f.node):
            tgt = None
            if isinstance(c, ast.Call) and isinstance(c.func, ast.Attribute) and ast.unparse(c.func.value).split(".")[-1] == "_tz_offsets" \
                    and c.func.attr in ("insert", "pop", "append", "extend", "remove", "sort", "reverse", "clear", "__setitem__", "__delitem__"):
                tgt = c
            elif isinstance(c, (ast.Subscript,)) and isinstance(c.ctx, (ast.Store, ast.Del)) and ast.unparse(c.value).split(".")[-1] == "_tz_offsets":
                tgt = c
            elif isinstance(c, ast.Call) and ast.unparse(c.func) in ("random.shuffle", "shuffle") and c.args and ast.unparse(c.args[0]).split(".")[-1] == "_tz_offsets":
                tgt = c
            if tgt is not None:
                chk.ob(rule, "%s line %d: the timezone table is not modified after loading" % (f.qual, tgt.lineno), False,
                       "`%s` changes the process-wide ordered table in place: which entry a later string matches first (numeric offsets "
                       "before abbreviations) then depends on the calls made before" % " ".join(ast.unparse(tgt).split())[:70],
                       key={"function": f.key, "construct": "table mutated " + " ".join(ast.unparse(tgt).split())[:40]},
                       file=f.file, function=f.qual, line=tgt.lineno, text=" ".join(ast.unparse(tgt).split())[:100], positive=True)
        for lp in [x for x in iter_own_nodes(f.node) if isinstance(x, ast.For) and any(
                isinstance(y, (ast.Name, ast.Attribute)) and ast.unparse(y).split(".")[-1] == "_tz_offsets" for y in ast.walk(x.iter))]:
            it = lp.iter
            while isinstance(it, ast.Call) and ast.unparse(it.func) in ("enumerate", "iter", "list", "tuple") and it.args:
                it = it.args[0]
            if ast.unparse(it).split(".")[-1] != "_tz_offsets":
                chk.ob(rule, "%s line %d: the timezone table is scanned in its own order" % (f.qual, lp.lineno), False,
                       "the loop runs over `%s`, not over the table as ordered by its builder" % ast.unparse(lp.iter)[:60],
                       key={"function": f.key, "construct": "scan order"}, file=f.file, function=f.qual, line=lp.lineno)
                n += 1
                continue
            tests = [x for x in ast.walk(lp) if isinstance(x, ast.If) and ".search(" in ast.unparse(x.test) or
                     (isinstance(x, ast.If) and isinstance(x.test, ast.Name) and any(
                         isinstance(a, ast.Assign) and ast.unparse(a.targets[0]) == x.test.id and ".search(" in ast.unparse(a.value) for a in ast.walk(lp)))]
            for t in tests:
                n += 1
                # every path through the body ends in return / break / raise: the last statement of each arm
                def leaves(stmts):
                    if not stmts:
                        return False
                    last = stmts[-1]
                    if isinstance(last, (ast.Return, ast.Break, ast.Raise)):
                        return True
                    if isinstance(last, ast.If):
                        return leaves(last.body) and leaves(last.orelse)
                    return False
                ok = leaves(t.body)
                chk.ob(rule, "%s: the scan of the timezone table stops at the first matching entry" % f.qual, ok,
                       "the loop goes on after a match: a later entry (an abbreviation that is a prefix of the spelling, e.g. 'UTC' for "
                       "'UTC+05:45') replaces the earlier, more specific one",
                       key={"function": f.key, "construct": "first match leaves the loop"}, file=f.file, function=f.qual, line=t.lineno,
                       text=" ".join(ast.unparse(t.test).split())[:80])
    chk.floor(rule, n, 2, "scans of the ordered timezone table")



def dropped_words_rule(ctx, chk, rule):
    """a locale's `skip` and `pertain` words (and the default SKIP_TOKENS) are translated to nothing - and translation runs BEFORE the timezone
    is looked for in the absolute and relative parsers.  A dropped word that spells a timezone abbreviation of the table, or that the
    NORMALIZE folding turns into the sign of a numeric offset, therefore deletes the zone the string named: the result comes back naive (or
    None) although the table knows the zone.  Decided for every language and every regional addition against all table names."""
    import unicodedata
    from ..core.data import LangData, module_literal
    tl, entries, parts = tz_model(ctx, rule)
    names = {}
    for name, pat, secs in entries:
        if name.isalpha():
            names.setdefault(name.lower(), set()).add(secs)

    def fold(s):
        return "".join(c for c in unicodedata.normalize("NFKD", s) if unicodedata.category(c) != "Mn")
    ld = ctx.memo("langdata", lambda: LangData(ctx.repo))
    dflt = module_literal(ctx.repo, "dateparser_data/settings.py", "settings").get("SKIP_TOKENS", [])
    n = 0

    def examine(where, file_lang, words, src):
        nonlocal n
        for w in words:
            if not isinstance(w, str):
                continue
            n += 1
            forms = {w.lower(), fold(w.lower())}
            hit = sorted(f for f in forms if f in names)
            sign = sorted(f for f in forms if f in ("+", "-", "−"))
            if hit or (sign and w not in ("+", "-")):
                what = ("spells the timezone abbreviation %s (%+.2f h)" % (hit[0].upper(), sorted(names[hit[0]])[0] / 3600.0)) if hit else \
                    "is folded to the offset sign %r by NORMALIZE" % sign[0]
                chk.ob(rule, "%s: dropped word %r (%s) is not a timezone spelling" % (where, w, src), False,
                       "%r is dropped by translation and %s: '<date> <time> %s' loses its zone when this locale reads the string" % (w, what, (hit or sign)[0].upper()),
                       key={"locale": where, "word": w, "construct": "dropped word is a zone"},
                       file=("dateparser/data/date_translation_data/%s.py" % file_lang) if file_lang else "dateparser_data/settings.py",
                       function="info[%r]" % src, line=None)
    examine("default settings", None, dflt, "SKIP_TOKENS")
    for lang in sorted(ld.languages()):
        base = ld.locale_info(lang, lang)
        for k in ("skip", "pertain"):
            examine(lang, lang, base.get(k, []), k)
        for loc in ld.locales(lang):
            if loc == lang:
                continue
            info = ld.locale_info(lang, loc)
            for k in ("skip", "pertain"):
                extra = [w for w in info.get(k, []) if w not in base.get(k, [])]
                examine(loc, lang, extra, k)
    chk.ob(rule, "%d dropped words of all languages and locales examined against %d alphabetic timezone names" % (n, len(names)), True)
    chk.floor(rule, n, 1500, "skip / pertain words examined")

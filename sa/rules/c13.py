"""C13 — language selection is honoured; autodetection reproducible (structural clauses).

R1 order of candidate locales: previous (opt-in) -> requested/all -> DEFAULT_LANGUAGES; argument plumbing to the loader
R2 the reported locale is the loop locale; the first valid result returns
R3 loader: priority order unless use_given_order; unknown languages/locales rejected before anything is yielded;
   region/locale construction
"""
import ast

from ..core.cfg import CFG
from ..core.ctx import conjuncts, enclosing_tests
from ..core.index import iter_own_nodes, iter_own_stmts
from ..core.repo import AnalysisError

LEVEL = "other"
EXPLANATION = (
    "Ordering and plumbing rules on DateDataParser._get_applicable_locales / get_date_data and "
    "LocaleDataLoader._load_data: the generator yields previous locales only under try_previous_locales, then the "
    "locales loaded for exactly the constructor's languages/locales/region/use_given_order, then (only if set) the "
    "DEFAULT_LANGUAGES - established by reachability on the CFG (no yield of a later group can precede one of an "
    "earlier group); the constructor stores its arguments in the attributes the generator reads and parse() forwards "
    "them by keyword; the result's locale is the shortname of the locale being tried and the first valid result "
    "returns; the loader sorts by language_order.index only when use_given_order is false, raises for unknown "
    "languages/locales before its first yield and builds region locales as language-region filtered by the index. "
    "Does not decide applicability of a locale to a string or equality with single-language runs."
)
DDP = "dateparser.date:DateDataParser"


def run(ctx, chk):
    r1(ctx, chk)
    r2(ctx, chk)
    r3(ctx, chk)
    r4(ctx, chk)
    previous_locales_flag_rule(ctx, chk, "C13.R5")
    locale_language_pairing_rule(ctx, chk, "C13.R6")
    locale_split_rule(ctx, chk, "C13.R7")


def previous_locales_flag_rule(ctx, chk, rule):
    """remembering the locales of earlier strings (try_previous_locales) makes results depend on what was parsed before; it is
    the caller's explicit choice: every DateDataParser the library builds itself leaves it off or forwards the caller's flag"""
    n = 0
    for f in list(ctx.ix.funcs.values()):
        if f.module.rel.startswith("dateparser/data/") or not f.module.rel.startswith("dateparser/"):
            continue
        for c in iter_own_nodes(f.node):
            if not (isinstance(c, ast.Call) and ast.unparse(c.func).split(".")[-1] == "DateDataParser"):
                continue
            n += 1
            kw = {k.arg: k.value for k in c.keywords if k.arg}
            pos = c.args[3] if len(c.args) > 3 else None     # DateDataParser(languages, locales, region, try_previous_locales, ...)
            v = kw.get("try_previous_locales", pos)
            ok = v is None or (isinstance(v, ast.Constant) and not v.value) or (
                isinstance(v, ast.Name) and v.id == "try_previous_locales" and v.id in f.params())
            chk.ob(rule, "%s: the parser built at line %d does not remember earlier locales on its own" % (f.qual, c.lineno), ok,
                   "try_previous_locales=%s on a parser the library creates (the module-level default parser serves every plain "
                   "parse() call of the process): a later string is tried first in the locale of an earlier one" % (ast.unparse(v) if v is not None else None),
                   key={"function": f.key, "construct": "DateDataParser(try_previous_locales)"}, file=f.file, function=f.qual, line=c.lineno,
                   text=" ".join(ast.unparse(c).split())[:100])
    chk.floor(rule + ".parsers", n, 3, "DateDataParser constructions inside the library")
    # the parameter's default is off
    init = ctx.ix.func(DDP + ".__init__")
    a = init.node.args
    names = [x.arg for x in a.args]
    dflt = None
    if "try_previous_locales" in names:
        i = names.index("try_previous_locales") - (len(names) - len(a.defaults))
        if 0 <= i < len(a.defaults):
            dflt = a.defaults[i]
    if "use_given_order" in names:
        j = names.index("use_given_order") - (len(names) - len(a.defaults))
        d2 = a.defaults[j] if 0 <= j < len(a.defaults) else None
        chk.ob(rule, "DateDataParser(use_given_order=...) defaults to off (languages are tried in the library's priority order unless asked)",
               isinstance(d2, ast.Constant) and not d2.value, "default is %s" % (ast.unparse(d2) if d2 is not None else None),
               key={"function": init.key, "construct": "use_given_order default"}, file=init.file, function=init.qual, line=init.node.lineno)
    chk.ob(rule, "DateDataParser(try_previous_locales=...) defaults to off", isinstance(dflt, ast.Constant) and not dflt.value,
           "default is %s" % (ast.unparse(dflt) if dflt is not None else None),
           key={"function": init.key, "construct": "try_previous_locales default"}, file=init.file, function=init.qual, line=init.node.lineno)


def r4(ctx, chk):
    """a custom detection function may replace the language selection only when the caller selected nothing:
    the guard of every store to self.languages in _get_applicable_locales is equivalent to
    detect_languages_function and not languages and not locales (8-row truth table)"""
    from ..core import guards
    rule = "C13.R4"
    f = ctx.ix.func(DDP + "._get_applicable_locales")
    atoms = {"self.detect_languages_function": "detect", "self.languages": "languages", "self.locales": "locales"}

    def atom_fn(e):
        return atoms.get(" ".join(ast.unparse(e).split()))
    want = ("and", ("atom", "detect"), ("not", ("atom", "languages")), ("not", ("atom", "locales")))
    stores = [n for n in iter_own_nodes(f.node) if isinstance(n, ast.Assign) and any(
        isinstance(t, ast.Attribute) and isinstance(t.value, ast.Name) and t.value.id == "self" and t.attr in ("languages", "locales") for t in n.targets)]
    for st in stores:
        g = guards.guard_of(f.node, st, atom_fn)
        diff = guards.equivalent(g, want, ["detect", "languages", "locales"])
        frees = sorted(guards.atoms_of(g, ("free",)))
        chk.ob(rule, "the selection is replaced by detected languages only when a detector is given and neither languages nor locales are",
               diff is None and not frees,
               "guard %s differs from `detector and not languages and not locales` for %s: the caller's languages are overwritten by the detector's"
               % (guards.show(g), {k: v for k, v in (diff or {}).items() if not isinstance(k, tuple)}),
               key={"function": f.key, "construct": "detector guard"}, file=f.file, function=f.qual, line=st.lineno,
               text=" ".join(ast.unparse(st).split())[:100])
    chk.floor(rule, len(stores), 1, "stores to the language selection while iterating locales")
    # the same condition in the search path
    sd = ctx.ix.func("dateparser.search.search:DateSearchWithDetection.detect_language")
    atoms2 = {"detect_languages_function": "detect", "languages": "languages"}

    def atom2(e):
        return atoms2.get(" ".join(ast.unparse(e).split()))
    calls = [n for n in iter_own_nodes(sd.node) if isinstance(n, ast.Call) and ast.unparse(n.func) == "detect_languages_function"]
    for c in calls:
        g = guards.guard_of(sd.node, c, atom2)
        diff = guards.equivalent(g, ("and", ("atom", "detect"), ("not", ("atom", "languages"))), ["detect", "languages"])
        chk.ob(rule, "search: the detector is consulted only when no languages are given", diff is None and not guards.atoms_of(g, ("free",)),
               "guard %s" % guards.show(g), key={"function": sd.key, "construct": "detector guard"}, file=sd.file, function=sd.qual, line=c.lineno)


def _kw(call):
    return {k.arg: ast.unparse(k.value) for k in call.keywords if k.arg}


def r1(ctx, chk):
    rule = "C13.R1"
    ix = ctx.ix
    f = ix.func(DDP + "._get_applicable_locales")
    g = CFG(f.node)
    yields = [s for s in iter_own_stmts(f.node.body) if isinstance(s, ast.Expr) and isinstance(s.value, ast.Yield)]
    groups = {"previous": [], "requested": [], "default": []}
    for y in yields:
        src = None
        from ..core.ctx import ancestors
        for a in ancestors(f.node, y):
            if isinstance(a, ast.For):
                it = ast.unparse(a.iter)
                if "previous_locales" in it:
                    src = "previous"
                    break
                if "get_locales" in it:
                    call = a.iter
                    kw = _kw(call) if isinstance(call, ast.Call) else {}
                    src = "default" if "DEFAULT_LANGUAGES" in kw.get("languages", "") else "requested"
                    break
        if src is None:
            raise AnalysisError(rule, "_get_applicable_locales: a yield outside the three locale loops")
        groups[src].append(y)
    for k in ("requested",):
        if not groups[k]:
            raise AnalysisError(rule, "_get_applicable_locales: no yield for the %s locales" % k)
    order = ["previous", "requested", "default"]
    for i, a in enumerate(order):
        for b in order[i + 1:]:
            for ya in groups[a]:
                for yb in groups[b]:
                    back = any(g.reachable_from([x]) & set(g.nodes_of(ya)) for x in g.nodes_of(yb))
                    chk.ob(rule, "no %s-locale yield can follow a %s-locale yield" % (a, b), not back,
                           "locales of a later group are tried before an earlier group",
                           key={"function": f.key, "construct": "%s before %s" % (a, b)}, file=f.file, function=f.qual, line=yb.lineno)
    # within a group the priority is by LOCALE: all spellings of the string (as written, then with the timezone popped) are offered to one
    # locale before the next locale is looked at - the locale loop is the outer loop, the loop over the spellings the inner one
    from ..core.ctx import ancestors as _anc
    n_var = 0
    for k in ("previous", "requested"):
        for y in groups[k]:
            chain = _anc(f.node, y)
            fors = [a for a in chain if isinstance(a, ast.For)]
            # the loop over the spellings of the string: the one whose variable is what the applicability test is asked about
            def _is_spelling_loop(a):
                if isinstance(a.iter, ast.Call) and isinstance(a.iter.func, ast.Name) and a.iter.func.id == "date_strings":
                    return True
                tv = ast.unparse(a.target)
                return any(isinstance(c, ast.Call) and ast.unparse(c.func).endswith("_is_applicable_locale") and len(c.args) == 2
                           and ast.unparse(c.args[1]) == tv for c in ast.walk(a)) and ast.unparse(a.target) != ast.unparse(y.value.value)
            var_loops = [a for a in fors if _is_spelling_loop(a)]
            if not var_loops:
                continue
            n_var += 1
            loc_loops = [a for a in fors if ast.unparse(a.target) == ast.unparse(y.value.value)]
            ok = bool(loc_loops) and fors.index(var_loops[0]) < fors.index(loc_loops[0])      # chain is innermost-first
            chk.ob(rule, "%s locales: each locale sees every spelling of the string before the next locale is tried" % k, ok,
                   "the loop over the string spellings encloses the loop over the locales: a lower-priority locale that accepts the string as written "
                   "(timezone abbreviation read as one of its words) is tried before a higher-priority one that needs the timezone popped",
                   key={"function": f.key, "construct": "locale-major order (%s)" % k}, file=f.file, function=f.qual, line=y.lineno)
    chk.floor(rule + ".spellings", n_var, 1, "locale yields under the loop over the string spellings")
    for y in groups["previous"]:
        guarded = any(p and ast.unparse(a_) == "self.try_previous_locales" for t, pol in enclosing_tests(f.node, y) for a_, p in conjuncts(t, pol))
        chk.ob(rule, "previous locales are tried only under try_previous_locales", guarded, "",
               key={"function": f.key, "construct": "previous guarded"}, file=f.file, function=f.qual, line=y.lineno)
    for y in groups["default"]:
        guarded = any(p and ast.unparse(a_).endswith("DEFAULT_LANGUAGES") for t, pol in enclosing_tests(f.node, y) for a_, p in conjuncts(t, pol))
        chk.ob(rule, "default languages are tried only when DEFAULT_LANGUAGES is set", guarded, "",
               key={"function": f.key, "construct": "default guarded"}, file=f.file, function=f.qual, line=y.lineno)
    # plumbing of the loader calls
    calls = [n for n in iter_own_nodes(f.node) if isinstance(n, ast.Call) and ast.unparse(n.func).endswith("get_locales")]
    want_req = {"languages": "self.languages", "locales": "self.locales", "region": "self.region", "use_given_order": "self.use_given_order"}
    n_req = 0
    for c in calls:
        kw = _kw(c)
        if "DEFAULT_LANGUAGES" in kw.get("languages", ""):
            ok = kw.get("locales") == "None" and kw.get("region") == "self.region" and kw.get("languages").endswith("._settings.DEFAULT_LANGUAGES")
            chk.ob(rule, "default-language lookup: languages=DEFAULT_LANGUAGES, locales=None, region=self.region", ok, "got %s" % kw,
                   key={"function": f.key, "construct": "default get_locales args"}, file=f.file, function=f.qual, line=c.lineno)
        else:
            n_req += 1
            chk.ob(rule, "requested-locale lookup passes languages/locales/region/use_given_order of the constructor", kw == want_req,
                   "got %s" % kw, key={"function": f.key, "construct": "requested get_locales args"}, file=f.file,
                   function=f.qual, line=c.lineno)
    chk.floor(rule, n_req, 1, "loader calls for the requested locales")
    # each yielded requested locale passed the applicability test for this string
    for y in groups["requested"]:
        guarded = any(p and "_is_applicable_locale(" in ast.unparse(a_) for t, pol in enclosing_tests(f.node, y) for a_, p in conjuncts(t, pol))
        chk.ob(rule, "a requested locale is yielded only if applicable to the string", guarded, "",
               key={"function": f.key, "construct": "applicability"}, file=f.file, function=f.qual, line=y.lineno)
        from ..core.ctx import ancestors as _anc
        loopv = [ast.unparse(a_.target) for a_ in _anc(f.node, y) if isinstance(a_, ast.For) and "get_locales" in ast.unparse(a_.iter)]
        chk.ob(rule, "the yielded value is the loop's locale", bool(loopv) and ast.unparse(y.value.value) == loopv[0], "",
               key={"function": f.key, "construct": "yield locale"}, file=f.file, function=f.qual, line=y.lineno)
    # constructor stores, parse() forwards
    init = ix.func(DDP + ".__init__")
    stores = {}
    for n in iter_own_nodes(init.node):
        if isinstance(n, ast.Assign) and isinstance(n.targets[0], ast.Attribute) and ast.unparse(n.targets[0].value) == "self":
            stores[n.targets[0].attr] = ast.unparse(n.value)
    for a, ok_vals in (("languages", ("list(languages) if languages else None", "languages")), ("locales", ("locales",)),
                       ("region", ("region",)), ("use_given_order", ("use_given_order",)), ("try_previous_locales", ("try_previous_locales",))):
        chk.ob(rule, "DateDataParser.__init__ stores %s" % a, stores.get(a) in ok_vals, "stores %s" % stores.get(a),
               key={"function": init.key, "construct": "store " + a}, file=init.file, function=init.qual, line=init.node.lineno)
    p = ix.func("dateparser:parse")
    ctor = [n for n in iter_own_nodes(p.node) if isinstance(n, ast.Call) and ast.unparse(n.func) == "DateDataParser"]
    for c in ctor:
        kw = _kw(c)
        ok = all(kw.get(k) == k for k in ("languages", "locales", "region", "settings"))
        chk.ob(rule, "parse() forwards languages/locales/region/settings by keyword", ok, "got %s" % kw,
               key={"function": p.key, "construct": "ctor kwargs"}, file=p.file, function=p.qual, line=c.lineno)
    ifs = [s for s in iter_own_stmts(p.node.body) if isinstance(s, ast.If) and ctor and any(c in list(ast.walk(s)) for c in ctor)]
    for s in ifs:
        names = {x.id for x in ast.walk(s.test) if isinstance(x, ast.Name)}
        chk.ob(rule, "parse() builds a dedicated parser whenever languages, locales or region are given",
               {"languages", "locales", "region"} <= names, "guard mentions %s" % sorted(names),
               key={"function": p.key, "construct": "ctor guard"}, file=p.file, function=p.qual, line=s.lineno)


def r2(ctx, chk):
    rule = "C13.R2"
    f = ctx.ix.func(DDP + ".get_date_data")
    loops = [n for n in iter_own_nodes(f.node) if isinstance(n, ast.For) and "_get_applicable_locales" in ast.unparse(n.iter)]
    if len(loops) != 1:
        raise AnalysisError(rule, "get_date_data: locale loop not found")
    lp = loops[0]
    lv = ast.unparse(lp.target)
    parse = [n for n in ast.walk(lp) if isinstance(n, ast.Call) and ast.unparse(n.func) == "_DateLocaleParser.parse"]
    ok = len(parse) == 1 and parse[0].args and ast.unparse(parse[0].args[0]) == lv
    chk.ob(rule, "each candidate is parsed with its own locale", ok, "", key={"function": f.key, "construct": "parse with loop locale"},
           file=f.file, function=f.qual, line=lp.lineno)
    sets = [n for n in ast.walk(lp) if isinstance(n, ast.Assign) and isinstance(n.targets[0], ast.Subscript)
            and isinstance(n.targets[0].slice, ast.Constant) and n.targets[0].slice.value == "locale"]
    ok = len(sets) == 1 and ast.unparse(sets[0].value) == lv + ".shortname"
    chk.ob(rule, "the reported locale is the shortname of the locale that produced the result", ok,
           "assigned %s" % (ast.unparse(sets[0].value) if sets else None),
           key={"function": f.key, "construct": "reported locale"}, file=f.file, function=f.qual, line=lp.lineno)
    rets = [n for n in ast.walk(ast.Module(body=lp.body, type_ignores=[])) if isinstance(n, ast.Return)]
    ok = len(rets) == 1 and sets and ast.unparse(rets[0].value) == ast.unparse(sets[0].targets[0].value)
    guarded = bool(rets) and any(p and ast.unparse(a) == ast.unparse(rets[0].value) for t, pol in enclosing_tests(f.node, rets[0]) for a, p in conjuncts(t, pol))
    chk.ob(rule, "the first locale with a valid result returns it", ok and guarded, "",
           key={"function": f.key, "construct": "first success returns"}, file=f.file, function=f.qual, line=lp.lineno)
    # nothing recognised: date_obj None, locale None
    from ..core.ctx import loop_fallthrough
    orelse = loop_fallthrough(f.node, lp)
    ok = len(orelse) == 1 and isinstance(orelse[0], ast.Return) and isinstance(orelse[0].value, ast.Call) and \
        _kw(orelse[0].value).get("date_obj") == "None" and _kw(orelse[0].value).get("locale") == "None" and _kw(orelse[0].value).get("period") == "'day'"
    chk.ob(rule, "when no locale succeeds the result has date_obj=None, period='day', locale=None", ok, "",
           key={"function": f.key, "construct": "empty result"}, file=f.file, function=f.qual, line=lp.lineno)
    # _DateLocaleParser._parse: parsers in the order of settings.PARSERS, first valid wins
    pp = ctx.ix.func("dateparser.date:_DateLocaleParser._parse")
    lps = [n for n in iter_own_nodes(pp.node) if isinstance(n, ast.For)]
    ok = len(lps) == 1 and ast.unparse(lps[0].iter).endswith("_settings.PARSERS") and any(isinstance(x, ast.Return) for x in ast.walk(lps[0]))
    chk.ob(rule, "parsers run in the order of settings.PARSERS and the first valid result returns", ok, "",
           key={"function": pp.key, "construct": "parser order"}, file=pp.file, function=pp.qual, line=pp.node.lineno)


def r3(ctx, chk):
    rule = "C13.R3"
    ix = ctx.ix
    f = ix.func("dateparser.languages.loader:LocaleDataLoader._load_data")
    g = CFG(f.node)
    sorts = [s for s in iter_own_stmts(f.node.body) if isinstance(s, ast.Assign)
             and any(isinstance(n, ast.Call) and ast.unparse(n.func) == "sorted" for n in ast.walk(s.value))]
    chk.floor(rule, len(sorts), 1, "sort of the locale dict")
    for s in sorts:
        guarded = any(((not p and ast.unparse(a) == "use_given_order") or (p and ast.unparse(a) == "not use_given_order"))
                      for t, pol in enclosing_tests(f.node, s) for a, p in conjuncts(t, pol))
        chk.ob(rule, "the priority sort is skipped when use_given_order", guarded, "the given order is always overridden",
               key={"function": f.key, "construct": "sort guard"}, file=f.file, function=f.qual, line=s.lineno)
        lam = [n for n in ast.walk(s.value) if isinstance(n, ast.Lambda)]
        ok = False
        if lam:
            body = lam[0].body
            lp = lam[0].args.args[0].arg if lam[0].args.args else None
            if isinstance(body, ast.Call) and ast.unparse(body.func) == "language_order.index" and len(body.args) == 1:
                a = body.args[0]
                # the looked-up value must be the language element itself: subscripts of the lambda parameter only
                pure = True
                cur = a
                while isinstance(cur, ast.Subscript) and isinstance(cur.slice, ast.Constant):
                    cur = cur.value
                pure = isinstance(cur, ast.Name) and cur.id == lp
                ok = pure and ast.unparse(a) == "%s[1][0]" % lp
        chk.ob(rule, "the sort key is the language's position in language_order", ok, "",
               key={"function": f.key, "construct": "sort key"}, file=f.file, function=f.qual, line=s.lineno)
    yields = [s for s in iter_own_stmts(f.node.body) if isinstance(s, ast.Expr) and isinstance(s.value, ast.Yield)]
    raises = [s for s in iter_own_stmts(f.node.body) if isinstance(s, ast.Raise)]
    chk.floor(rule + ".raises", len(raises), 2, "rejections of unknown languages/locales")
    for r in raises:
        after = any(g.reachable_from([y_]) & set(g.nodes_of(r)) for y in yields for y_ in g.nodes_of(y))
        chk.ob(rule, "`%s` happens before anything is yielded" % ast.unparse(r)[:50], not after, "",
               key={"function": f.key, "construct": "raise before yield " + " ".join(ast.unparse(r).split())[:40]},
               file=f.file, function=f.qual, line=r.lineno)
    # unknown language test is against language_order; unknown locale through _isvalidlocale
    t = " ".join(ast.unparse(f.node).split())
    chk.ob(rule, "unknown languages are those not in language_order", "set(languages) - set(language_order)" in t, "",
           key={"function": f.key, "construct": "unknown languages"}, file=f.file, function=f.qual, line=f.node.lineno)
    chk.ob(rule, "languages default to every language when none are given", ("if languages is None: languages = language_order" in t or "languages = language_order if languages is None else languages" in t), "",
           key={"function": f.key, "construct": "all languages"}, file=f.file, function=f.qual, line=f.node.lineno)
    cl = ix.func("dateparser.languages.loader:_construct_locales")
    t2 = " ".join(ast.unparse(cl.node).split())
    import re as _re
    ok = _re.search(r"\[(\w+) \+ '-' \+ region for \1 in languages\]", t2) is not None and "_filter_valid_locales(" in t2
    chk.ob(rule, "a region builds language-region locales filtered by the index", ok, "",
           key={"function": cl.key, "construct": "region locales"}, file=cl.file, function=cl.qual, line=cl.node.lineno)
    # ... for EVERY region given: the branch is taken on the mere presence of a region (numeric UN M.49 regions such as 001, 150, 419 included)
    comps = [n for n in iter_own_nodes(cl.node) if isinstance(n, ast.ListComp)]
    for c in comps:
        atoms = [(" ".join(ast.unparse(a).split()), p) for t, pol in enclosing_tests(cl.node, c) for a, p in conjuncts(t, pol)]
        extra = [a for a, p in atoms if not (p and a in ("region", "region is not None", "region != ''"))]
        chk.ob(rule, "the region branch is taken whenever a region is given", bool(atoms) and not extra,
               "region locales are built only under %s: a region that fails the extra condition is silently ignored and the bare language "
               "is used (its date order and words, not the locale's)" % [a for a, _ in atoms],
               key={"function": cl.key, "construct": "region guard"}, file=cl.file, function=cl.qual, line=c.lineno)
    iv = ix.func("dateparser.languages.loader:_isvalidlocale")
    # decided by evaluating the function over a small universe of names (two languages, one with a regional locale)
    from ..core.minieval import Evaluator, Unknown
    order_, index_ = ["en", "fr"], {"en": ["en-GB"], "fr": []}
    p_ = iv.params()[0]
    wrong = []
    try:
        for name in ("en", "fr", "en-GB", "en-XX", "fr-GB", "zz", "zz-GB"):
            def oracle(e, env, name=name):
                t_ = " ".join(ast.unparse(e).split())
                if t_ in ("LOCALE_SPLIT_PATTERN.split(%s)" % p_,):
                    return name.split("-")
                if isinstance(e, ast.Name) and e.id == "language_order":
                    return order_
                if isinstance(e, ast.Name) and e.id == "language_locale_dict":
                    return index_
                raise Unknown(t_[:40])
            got = bool(Evaluator(oracle).call(iv.node, {p_: name}))
            lang = name.split("-")[0]
            want = lang in order_ and (name == lang or name in index_[lang])
            if got != want:
                wrong.append((name, got))
    except Unknown as e_:
        chk.error(rule, "_isvalidlocale: the answer is computed by something this rule cannot evaluate (%s)" % e_)
        wrong = None
    except KeyError as e_:
        wrong = [("KeyError", str(e_))]
    if wrong is not None:
        chk.ob(rule, "a locale is valid iff its language is known and it is the language itself or one of its listed locales", not wrong,
               "(name, answer) that differ: %s" % wrong[:3],
               key={"function": iv.key, "construct": "valid locale"}, file=iv.file, function=iv.qual, line=iv.node.lineno)
    # Locale construction overlays locale_specific for exactly the shortname
    li = ix.func("dateparser.languages.locale:Locale.__init__")
    t4 = " ".join(ast.unparse(li.node).split())
    ok = "language_info.get('locale_specific', {}).get(shortname, {})" in t4 and _re.search(r"combine_dicts\(language_info, (\w+)\)", t4) is not None
    chk.ob(rule, "a Locale overlays the language data with locale_specific[shortname]", ok, "",
           key={"function": li.key, "construct": "locale overlay"}, file=li.file, function=li.qual, line=li.node.lineno)


# ---------------------------------------------------------------------------------------------------------------------
# R6: the locale name and the language whose data it is built from belong together

_LOADER = "dateparser.languages.loader:"
_ZIPS = {"zip", "zip_longest", "itertools.zip_longest", "itertools.zip"}
_WRAPS = {"tuple", "list", "iter", "reversed"}      # element-for-element views (reversed of both sides keeps alignment only if both; see below)


class _Shape:
    """a list-valued expression abstracted as 'one element per element of `base`, in that order' (or a filtered subsequence)"""
    def __init__(self, base, filtered, why=""):
        self.base, self.filtered, self.why = base, filtered, why

    def __repr__(self):
        return "%s%s" % (self.base, " (filtered: %s)" % self.why if self.filtered else "")


def _shape(ix, f, g, at, e, env, depth=0):
    """shape of list expression `e` evaluated at CFG node `at` of function f (env: parameter -> shape, for callee summaries);
    None when the expression is not one of the idioms understood"""
    if depth > 6:
        return None
    if isinstance(e, ast.Name):
        if e.id in env:
            return env[e.id]
        rd = g.reaching_defs(e.id).get(at, set())
        opaque = _Shape(("var", f.key, e.id, tuple(sorted(rd))), False)
        if rd and g.entry.id not in rd:
            outs = []
            for d in sorted(rd):
                s = g.nodes[d].stmt
                if isinstance(s, ast.Assign) and len(s.targets) == 1 and isinstance(s.targets[0], ast.Name):
                    outs.append(_shape(ix, f, g, d, s.value, env, depth + 1))
                else:
                    outs.append(None)
            sh = _join_shapes(outs)
            if sh is not None:
                return sh
        return opaque           # the same binding(s) of the same variable: an unknown list, equal to itself
    if isinstance(e, (ast.List, ast.Tuple)):
        return _Shape(("literal", len(e.elts), ast.unparse(e)), False)
    if isinstance(e, ast.ListComp) and len(e.generators) == 1:
        gen = e.generators[0]
        b = _shape(ix, f, g, at, gen.iter, env, depth + 1)
        if b is None:
            return None
        return _Shape(b.base, b.filtered or bool(gen.ifs), b.why or ("comprehension condition `%s`" % ast.unparse(gen.ifs[0]) if gen.ifs else ""))
    if isinstance(e, ast.Call):
        fn = ast.unparse(e.func)
        if fn in _WRAPS and len(e.args) == 1:
            return _shape(ix, f, g, at, e.args[0], env, depth + 1)
        if fn in _ZIPS:
            parts = [_shape(ix, f, g, at, a, env, depth + 1) for a in e.args]
            if any(p is None for p in parts):
                return None
            longest = fn.endswith("zip_longest")
            real = [p for p in parts if not (p.base[0] == "literal" and p.base[1] == 0)]
            if longest and len(real) == 1:
                return real[0]              # zip_longest(xs, [], fillvalue=v): one tuple per element of xs
            if len({p.base for p in parts}) == 1 and not any(p.filtered for p in parts):
                return parts[0]
            return None
        tgt = ix.resolve_name_expr(f.module, e.func)
        callee = tgt if tgt is not None and hasattr(tgt, "node") and isinstance(tgt.node, ast.FunctionDef) else None
        if callee is None or e.keywords:
            return None
        params = [a.arg for a in callee.node.args.args]
        if len(e.args) > len(params):
            return None
        cenv = {}
        for p, a in zip(params, e.args):
            sh = _shape(ix, f, g, at, a, env, depth + 1)
            if sh is not None:
                cenv[p] = sh
        cg_ = CFG(callee.node)
        outs = []
        for s in iter_own_stmts(callee.node.body):
            if isinstance(s, ast.Return) and s.value is not None:
                nid = cg_.nodes_of(s)
                outs.append(_shape(ix, callee, cg_, next(iter(nid)) if nid else cg_.entry.id, s.value, cenv, depth + 1))
        return _join_shapes(outs)
    return None


def _join_shapes(outs):
    if not outs or any(o is None for o in outs):
        return None
    if len({o.base for o in outs}) != 1:
        return None
    flt = [o for o in outs if o.filtered]
    return _Shape(outs[0].base, bool(flt), flt[0].why if flt else "")


def _flows_from(f, g, at, e, var, depth=0):
    """does the value of expression e at node `at` derive from the binding of `var` that is live there (through calls, operators,
    single assignments and loop targets)?"""
    if depth > 8:
        return False
    for x in ast.walk(e):
        if not isinstance(x, ast.Name):
            continue
        if x.id == var:
            return True
        for d in g.reaching_defs(x.id).get(at, set()):
            if d == g.entry.id:
                continue
            n = g.nodes[d]
            s = n.stmt
            src = s.value if isinstance(s, (ast.Assign, ast.AugAssign, ast.AnnAssign)) else (s.iter if isinstance(s, ast.For) else None)
            if src is not None and _flows_from(f, g, d, src, var, depth + 1):
                return True
    return False


def locale_language_pairing_rule(ctx, chk, rule):
    """`_load_data` first builds {locale name: (language, region)} and then loads, for each name, the data module of the paired language and
    caches the Locale under the name process-wide.  A name paired with another language's code gives a 'fr-BE' that speaks Russian - for this call
    and, through the cache, for every later one.  Every way a pair enters the mapping must therefore keep name and language together."""
    ix = ctx.ix
    f = ix.func(_LOADER + "LocaleDataLoader._load_data")
    g = CFG(f.node)
    # which local is the mapping: the one whose .items() the loading loop walks
    loops = [n for n in iter_own_nodes(f.node) if isinstance(n, ast.For) and isinstance(n.iter, ast.Call)
             and isinstance(n.iter.func, ast.Attribute) and n.iter.func.attr == "items" and isinstance(n.iter.func.value, ast.Name)
             and any(isinstance(x, (ast.Yield, ast.YieldFrom)) for x in ast.walk(n))]
    if len(loops) != 1:
        raise AnalysisError(rule, "_load_data: the loop that loads and yields the locales was not found")
    lp = loops[0]
    mp = lp.iter.func.value.id
    mps = {mp}              # the mapping and the locals it is copied from (`locale_dict = built` after a written-out helper)
    for _ in range(3):
        for n in iter_own_nodes(f.node):
            if isinstance(n, ast.Assign) and len(n.targets) == 1 and isinstance(n.targets[0], ast.Name) and n.targets[0].id in mps \
                    and isinstance(n.value, ast.Name):
                mps.add(n.value.id)
    n_pairs = 0

    def fail(node, what, why):
        chk.ob(rule, what, False, why, key={"function": f.key, "construct": "pairing " + " ".join(ast.unparse(node).split())[:60]},
               file=f.file, function=f.qual, line=node.lineno, text=" ".join(ast.unparse(node).split())[:120])

    for s in iter_own_stmts(f.node.body):
        at = next(iter(g.nodes_of(s)), None)
        # (a) mapping[name] = value
        if isinstance(s, ast.Assign) and len(s.targets) == 1 and isinstance(s.targets[0], ast.Subscript) \
                and isinstance(s.targets[0].value, ast.Name) and s.targets[0].value.id in mps:
            n_pairs += 1
            key_e, val_e = s.targets[0].slice, s.value
            what = "line %d: the pair stored for a locale name keeps the name and its language together" % s.lineno
            if isinstance(key_e, ast.Name) and _flows_from(f, g, at, val_e, key_e.id):
                chk.ob(rule, what, True, "", key={"function": f.key, "construct": "pairing store"}, file=f.file, function=f.qual, line=s.lineno)
                continue        # the pair is computed from the name itself
            lang_e = val_e.elts[0] if isinstance(val_e, ast.Tuple) and val_e.elts else None
            if isinstance(lang_e, ast.Name) and _flows_from(f, g, at, key_e, lang_e.id) and _is_loop_var(f, lang_e.id):
                chk.ob(rule, what, True, "", key={"function": f.key, "construct": "pairing store"}, file=f.file, function=f.qual, line=s.lineno)
                continue        # the name is built from the very language it is paired with, in the same iteration
            fail(s, what, "the stored pair is neither derived from the locale name nor is the name derived from the paired language variable")
            continue
        # (b) mapping.update(pairs) / mapping = OrderedDict(pairs)
        if not isinstance(s, (ast.Assign, ast.Expr, ast.AugAssign, ast.AnnAssign, ast.Return)):
            continue
        calls = [c for c in ast.walk(s) if isinstance(c, ast.Call)]
        for c in calls:
            fn = ast.unparse(c.func)
            is_upd = fn in {m_ + ".update" for m_ in mps}
            is_new = fn.split(".")[-1] in ("OrderedDict", "dict") and isinstance(s, ast.Assign) and len(s.targets) == 1 \
                and isinstance(s.targets[0], ast.Name) and s.targets[0].id in mps and c is s.value
            if not (is_upd or is_new) or not c.args:
                continue
            src = c.args[0]
            if isinstance(src, ast.Call) and ast.unparse(src.func) == "sorted" and src.args and ast.unparse(src.args[0]) in {m_ + ".items()" for m_ in mps}:
                continue        # re-ordering of the pairs already in the mapping
            n_pairs += 1
            what = "line %d: the pairs added to the locale mapping keep each name and its language together" % s.lineno
            if isinstance(src, ast.Call) and ast.unparse(src.func) in _ZIPS and len(src.args) == 2:
                a, b = (_shape(ix, f, g, at, x, {}) for x in src.args)
                if a is None or b is None:
                    raise AnalysisError(rule, "_load_data line %d: cannot follow how `%s` is built" % (s.lineno, ast.unparse(src.args[0 if a is None else 1])))
                if a.base != b.base:
                    raise AnalysisError(rule, "_load_data line %d: names come from %s, languages from %s" % (s.lineno, a, b))
                bad = [x for x in (a, b) if x.filtered]
                if bad:
                    fail(s, what, "names and (language, region) pairs are matched by position, but `%s` drops elements (%s) while `%s` "
                         "does not: every name after a dropped one is paired with an earlier language's data and cached under that name"
                         % (ast.unparse(src.args[0 if bad[0] is a else 1]), bad[0].why, ast.unparse(src.args[1 if bad[0] is a else 0])[:60]))
                else:
                    chk.ob(rule, what, True, "", key={"function": f.key, "construct": "pairing zip"}, file=f.file, function=f.qual, line=s.lineno)
                continue
            if isinstance(src, (ast.GeneratorExp, ast.ListComp)) and isinstance(src.elt, ast.Tuple) and len(src.elt.elts) == 2:
                k_e, v_e = src.elt.elts
                loopvars = {x.id for gen in src.generators for x in ast.walk(gen.target) if isinstance(x, ast.Name)}
                lang_e = v_e.elts[0] if isinstance(v_e, ast.Tuple) and v_e.elts else None
                inner = {}
                for gen in src.generators:          # name <- iterable built from the language variable of an outer generator
                    for x in ast.walk(gen.target):
                        if isinstance(x, ast.Name):
                            inner[x.id] = {y.id for y in ast.walk(gen.iter) if isinstance(y, ast.Name)}
                def derives(e_, var, seen=()):
                    for y in ast.walk(e_):
                        if isinstance(y, ast.Name):
                            if y.id == var:
                                return True
                            if y.id in inner and y.id not in seen and any(z == var or derives(ast.Name(id=z), var, seen + (y.id,)) for z in inner[y.id]):
                                return True
                    return False
                ok = isinstance(lang_e, ast.Name) and lang_e.id in loopvars and derives(k_e, lang_e.id)
                ok = ok or any(isinstance(y, ast.Name) and y.id in loopvars and derives(v_e, y.id) for y in ast.walk(k_e) if isinstance(k_e, ast.Name))
                if ok:
                    chk.ob(rule, what, True, "", key={"function": f.key, "construct": "pairing comprehension"}, file=f.file, function=f.qual, line=s.lineno)
                else:
                    fail(s, what, "the name `%s` is not built from the language `%s` it is paired with" % (ast.unparse(k_e), ast.unparse(v_e)))
                continue
            raise AnalysisError(rule, "_load_data line %d: pairs enter the locale mapping in a way this rule does not know: %s" % (s.lineno, ast.unparse(src)[:80]))
    chk.floor(rule + ".pairs", n_pairs, 2, "places where (locale name, language) pairs enter the mapping")
    # consumer side: the data loaded for a name is the paired language's, cached under the name / the language
    tg = lp.target
    if not (isinstance(tg, ast.Tuple) and len(tg.elts) == 2 and all(isinstance(x, ast.Name) for x in tg.elts)):
        raise AnalysisError(rule, "_load_data: loading loop target is not (name, pair)")
    name_v, pair_v = tg.elts[0].id, tg.elts[1].id
    unp = [s for s in ast.walk(lp) if isinstance(s, ast.Assign) and ast.unparse(s.value) == pair_v and isinstance(s.targets[0], ast.Tuple)]
    lang_v = unp[0].targets[0].elts[0].id if unp and isinstance(unp[0].targets[0].elts[0], ast.Name) else None
    chk.ob(rule, "the loading loop takes the language from the pair's first component", lang_v is not None, "no `lang, reg = pair`",
           key={"function": f.key, "construct": "pair unpack"}, file=f.file, function=f.qual, line=lp.lineno)
    ctor = [c for c in ast.walk(lp) if isinstance(c, ast.Call) and ast.unparse(c.func) == "Locale"]
    chk.floor(rule + ".ctor", len(ctor), 1, "Locale constructions in the loading loop")
    for c in ctor:
        at = g.node_of_expr(f.node, c)
        kw = {k.arg: k.value for k in c.keywords}
        info = kw.get("language_info", c.args[1] if len(c.args) > 1 else None)
        ok = bool(c.args) and ast.unparse(c.args[0]) == name_v and info is not None and lang_v is not None and _flows_from(f, g, at, info, lang_v)
        chk.ob(rule, "line %d: the Locale for a name is built from the data of the paired language" % c.lineno, ok,
               "Locale(%s, language_info=%s)" % (ast.unparse(c.args[0]) if c.args else None, ast.unparse(info)[:60] if info is not None else None),
               key={"function": f.key, "construct": "Locale ctor " + ("cached" if "_loaded_languages" in ast.unparse(c) else "imported")},
               file=f.file, function=f.qual, line=c.lineno)
    imports = [c for c in ast.walk(lp) if isinstance(c, ast.Call) and ast.unparse(c.func) == "import_module"]
    for c in imports:
        ok = lang_v is not None and isinstance(c.args[0], ast.BinOp) and isinstance(c.args[0].right, ast.Name) and c.args[0].right.id == lang_v \
            and isinstance(c.args[0].left, ast.Constant) and c.args[0].left.value == "dateparser.data.date_translation_data."
        chk.ob(rule, "the data module imported is the paired language's", ok, ast.unparse(c.args[0])[:80],
               key={"function": f.key, "construct": "import_module"}, file=f.file, function=f.qual, line=c.lineno)
    chk.floor(rule + ".imports", len(imports), 1, "data module imports")
    for s in ast.walk(lp):
        if isinstance(s, ast.Assign) and isinstance(s.targets[0], ast.Subscript) and isinstance(s.targets[0].value, ast.Attribute):
            attr = s.targets[0].value.attr
            want = {"_loaded_locales": name_v, "_loaded_languages": lang_v}.get(attr)
            if want is None:
                continue
            chk.ob(rule, "line %d: self.%s is keyed by the %s" % (s.lineno, attr, "locale name" if attr == "_loaded_locales" else "language"),
                   ast.unparse(s.targets[0].slice) == want, "keyed by %s" % ast.unparse(s.targets[0].slice),
                   key={"function": f.key, "construct": "cache key " + attr}, file=f.file, function=f.qual, line=s.lineno)


def _is_loop_var(f, name):
    return any(isinstance(n, ast.For) and any(isinstance(x, ast.Name) and x.id == name for x in ast.walk(n.target)) for n in iter_own_nodes(f.node))



def locale_split_rule(ctx, chk, rule):
    """locales=['sr-Latn-XK'] is taken apart by LOCALE_SPLIT_PATTERN into the language whose data module is loaded and the region; the
    pattern is a module constant and the set of locale names is finite, so it is tried on every name of the index: the first piece must be
    the language the name is listed under (script subtags stay with the language, numeric regions are regions), and a bare language name
    must stay whole."""
    import regex
    from ..core.data import module_literal
    from ..core.rx import module_regex
    try:
        pat, fl = module_regex(ctx.ix, "dateparser.languages.loader", "LOCALE_SPLIT_PATTERN")
    except AnalysisError:
        raise AnalysisError(rule, "loader.LOCALE_SPLIT_PATTERN is not a compile of a literal pattern")
    if (fl or "").strip():
        raise AnalysisError(rule, "LOCALE_SPLIT_PATTERN flags %s not modelled" % fl)
    rx_ = regex.compile(pat)
    lld = module_literal(ctx.repo, "dateparser/data/languages_info.py", "language_locale_dict")
    bad = []
    n = 0
    for lang, locs in sorted(lld.items()):
        n += 1
        if rx_.split(lang) != [lang]:
            bad.append("%s -> %s" % (lang, rx_.split(lang)))
        for loc in locs:
            n += 1
            parts = rx_.split(loc)
            if not (len(parts) == 2 and parts[0] == lang and parts[1] and loc == lang + "-" + parts[1]):
                bad.append("%s -> %s (listed under %s)" % (loc, parts, lang))
    chk.ob(rule, "LOCALE_SPLIT_PATTERN splits every one of the %d locale names of the index into its language and its region" % n, not bad,
           "%d names come apart wrongly, e.g. %s: the wrong data module is imported (or none), or the locale is rejected as unknown" % (len(bad), bad[:4]),
           key={"function": "dateparser.languages.loader:<module>", "construct": "LOCALE_SPLIT_PATTERN"}, file="dateparser/languages/loader.py",
           function="LOCALE_SPLIT_PATTERN", line=None, text=pat)
    chk.floor(rule, n, 400, "language and locale names split")

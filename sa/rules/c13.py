"""C13 — language selection is honoured; autodetection reproducible (structural clauses).

R1 order of candidate locales: previous (opt-in) -> requested/all -> DEFAULT_LANGUAGES; argument plumbing to the loader
R2 the reported locale is the loop locale; the first valid result returns
R3 loader: priority order unless use_given_order; unknown languages/locales rejected before anything is yielded;
   region/locale construction
"""
import ast

from ..core.cfg import CFG
from ..core.ctx import conjuncts, enclosing_tests
from ..core.index import iter_own_nodes, iter_own_stmts
from ..core.repo import AnalysisError

LEVEL = "other"
EXPLANATION = (
    "Ordering and plumbing rules on DateDataParser._get_applicable_locales / get_date_data and "
    "LocaleDataLoader._load_data: the generator yields previous locales only under try_previous_locales, then the "
    "locales loaded for exactly the constructor's languages/locales/region/use_given_order, then (only if set) the "
    "DEFAULT_LANGUAGES - established by reachability on the CFG (no yield of a later group can precede one of an "
    "earlier group); the constructor stores its arguments in the attributes the generator reads and parse() forwards "
    "them by keyword; the result's locale is the shortname of the locale being tried and the first valid result "
    "returns; the loader sorts by language_order.index only when use_given_order is false, raises for unknown "
    "languages/locales before its first yield and builds region locales as language-region filtered by the index. "
    "Does not decide applicability of a locale to a string or equality with single-language runs."
)
DDP = "dateparser.date:DateDataParser"


def run(ctx, chk):
    r1(ctx, chk)
    r2(ctx, chk)
    r3(ctx, chk)
    r4(ctx, chk)
    previous_locales_flag_rule(ctx, chk, "C13.R5")


def previous_locales_flag_rule(ctx, chk, rule):
    """remembering the locales of earlier strings (try_previous_locales) makes results depend on what was parsed before; it is
    the caller's explicit choice: every DateDataParser the library builds itself leaves it off or forwards the caller's flag"""
    n = 0
    for f in list(ctx.ix.funcs.values()):
        if f.module.rel.startswith("dateparser/data/") or not f.module.rel.startswith("dateparser/"):
            continue
        for c in iter_own_nodes(f.node):
            if not (isinstance(c, ast.Call) and ast.unparse(c.func).split(".")[-1] == "DateDataParser"):
                continue
            n += 1
            kw = {k.arg: k.value for k in c.keywords if k.arg}
            pos = c.args[3] if len(c.args) > 3 else None     # DateDataParser(languages, locales, region, try_previous_locales, ...)
            v = kw.get("try_previous_locales", pos)
            ok = v is None or (isinstance(v, ast.Constant) and not v.value) or (
                isinstance(v, ast.Name) and v.id == "try_previous_locales" and v.id in f.params())
            chk.ob(rule, "%s: the parser built at line %d does not remember earlier locales on its own" % (f.qual, c.lineno), ok,
                   "try_previous_locales=%s on a parser the library creates (the module-level default parser serves every plain "
                   "parse() call of the process): a later string is tried first in the locale of an earlier one" % (ast.unparse(v) if v is not None else None),
                   key={"function": f.key, "construct": "DateDataParser(try_previous_locales)"}, file=f.file, function=f.qual, line=c.lineno,
                   text=" ".join(ast.unparse(c).split())[:100])
    chk.floor(rule + ".parsers", n, 3, "DateDataParser constructions inside the library")
    # the parameter's default is off
    init = ctx.ix.func(DDP + ".__init__")
    a = init.node.args
    names = [x.arg for x in a.args]
    dflt = None
    if "try_previous_locales" in names:
        i = names.index("try_previous_locales") - (len(names) - len(a.defaults))
        if 0 <= i < len(a.defaults):
            dflt = a.defaults[i]
    if "use_given_order" in names:
        j = names.index("use_given_order") - (len(names) - len(a.defaults))
        d2 = a.defaults[j] if 0 <= j < len(a.defaults) else None
        chk.ob(rule, "DateDataParser(use_given_order=...) defaults to off (languages are tried in the library's priority order unless asked)",
               isinstance(d2, ast.Constant) and not d2.value, "default is %s" % (ast.unparse(d2) if d2 is not None else None),
               key={"function": init.key, "construct": "use_given_order default"}, file=init.file, function=init.qual, line=init.node.lineno)
    chk.ob(rule, "DateDataParser(try_previous_locales=...) defaults to off", isinstance(dflt, ast.Constant) and not dflt.value,
           "default is %s" % (ast.unparse(dflt) if dflt is not None else None),
           key={"function": init.key, "construct": "try_previous_locales default"}, file=init.file, function=init.qual, line=init.node.lineno)


def r4(ctx, chk):
    """a custom detection function may replace the language selection only when the caller selected nothing:
    the guard of every store to self.languages in _get_applicable_locales is equivalent to
    detect_languages_function and not languages and not locales (8-row truth table)"""
    from ..core import guards
    rule = "C13.R4"
    f = ctx.ix.func(DDP + "._get_applicable_locales")
    atoms = {"self.detect_languages_function": "detect", "self.languages": "languages", "self.locales": "locales"}

    def atom_fn(e):
        return atoms.get(" ".join(ast.unparse(e).split()))
    want = ("and", ("atom", "detect"), ("not", ("atom", "languages")), ("not", ("atom", "locales")))
    stores = [n for n in iter_own_nodes(f.node) if isinstance(n, ast.Assign) and any(
        isinstance(t, ast.Attribute) and isinstance(t.value, ast.Name) and t.value.id == "self" and t.attr in ("languages", "locales") for t in n.targets)]
    for st in stores:
        g = guards.guard_of(f.node, st, atom_fn)
        diff = guards.equivalent(g, want, ["detect", "languages", "locales"])
        frees = sorted(guards.atoms_of(g, ("free",)))
        chk.ob(rule, "the selection is replaced by detected languages only when a detector is given and neither languages nor locales are",
               diff is None and not frees,
               "guard %s differs from `detector and not languages and not locales` for %s: the caller's languages are overwritten by the detector's"
               % (guards.show(g), {k: v for k, v in (diff or {}).items() if not isinstance(k, tuple)}),
               key={"function": f.key, "construct": "detector guard"}, file=f.file, function=f.qual, line=st.lineno,
               text=" ".join(ast.unparse(st).split())[:100])
    chk.floor(rule, len(stores), 1, "stores to the language selection while iterating locales")
    # the same condition in the search path
    sd = ctx.ix.func("dateparser.search.search:DateSearchWithDetection.detect_language")
    atoms2 = {"detect_languages_function": "detect", "languages": "languages"}

    def atom2(e):
        return atoms2.get(" ".join(ast.unparse(e).split()))
    calls = [n for n in iter_own_nodes(sd.node) if isinstance(n, ast.Call) and ast.unparse(n.func) == "detect_languages_function"]
    for c in calls:
        g = guards.guard_of(sd.node, c, atom2)
        diff = guards.equivalent(g, ("and", ("atom", "detect"), ("not", ("atom", "languages"))), ["detect", "languages"])
        chk.ob(rule, "search: the detector is consulted only when no languages are given", diff is None and not guards.atoms_of(g, ("free",)),
               "guard %s" % guards.show(g), key={"function": sd.key, "construct": "detector guard"}, file=sd.file, function=sd.qual, line=c.lineno)


def _kw(call):
    return {k.arg: ast.unparse(k.value) for k in call.keywords if k.arg}


def r1(ctx, chk):
    rule = "C13.R1"
    ix = ctx.ix
    f = ix.func(DDP + "._get_applicable_locales")
    g = CFG(f.node)
    yields = [s for s in iter_own_stmts(f.node.body) if isinstance(s, ast.Expr) and isinstance(s.value, ast.Yield)]
    groups = {"previous": [], "requested": [], "default": []}
    for y in yields:
        src = None
        from ..core.ctx import ancestors
        for a in ancestors(f.node, y):
            if isinstance(a, ast.For):
                it = ast.unparse(a.iter)
                if "previous_locales" in it:
                    src = "previous"
                    break
                if "get_locales" in it:
                    call = a.iter
                    kw = _kw(call) if isinstance(call, ast.Call) else {}
                    src = "default" if "DEFAULT_LANGUAGES" in kw.get("languages", "") else "requested"
                    break
        if src is None:
            raise AnalysisError(rule, "_get_applicable_locales: a yield outside the three locale loops")
        groups[src].append(y)
    for k in ("requested",):
        if not groups[k]:
            raise AnalysisError(rule, "_get_applicable_locales: no yield for the %s locales" % k)
    order = ["previous", "requested", "default"]
    for i, a in enumerate(order):
        for b in order[i + 1:]:
            for ya in groups[a]:
                for yb in groups[b]:
                    back = any(g.reachable_from([x]) & set(g.nodes_of(ya)) for x in g.nodes_of(yb))
                    chk.ob(rule, "no %s-locale yield can follow a %s-locale yield" % (a, b), not back,
                           "locales of a later group are tried before an earlier group",
                           key={"function": f.key, "construct": "%s before %s" % (a, b)}, file=f.file, function=f.qual, line=yb.lineno)
    for y in groups["previous"]:
        guarded = any(p and ast.unparse(a_) == "self.try_previous_locales" for t, pol in enclosing_tests(f.node, y) for a_, p in conjuncts(t, pol))
        chk.ob(rule, "previous locales are tried only under try_previous_locales", guarded, "",
               key={"function": f.key, "construct": "previous guarded"}, file=f.file, function=f.qual, line=y.lineno)
    for y in groups["default"]:
        guarded = any(p and ast.unparse(a_).endswith("DEFAULT_LANGUAGES") for t, pol in enclosing_tests(f.node, y) for a_, p in conjuncts(t, pol))
        chk.ob(rule, "default languages are tried only when DEFAULT_LANGUAGES is set", guarded, "",
               key={"function": f.key, "construct": "default guarded"}, file=f.file, function=f.qual, line=y.lineno)
    # plumbing of the loader calls
    calls = [n for n in iter_own_nodes(f.node) if isinstance(n, ast.Call) and ast.unparse(n.func).endswith("get_locales")]
    want_req = {"languages": "self.languages", "locales": "self.locales", "region": "self.region", "use_given_order": "self.use_given_order"}
    n_req = 0
    for c in calls:
        kw = _kw(c)
        if "DEFAULT_LANGUAGES" in kw.get("languages", ""):
            ok = kw.get("locales") == "None" and kw.get("region") == "self.region" and kw.get("languages").endswith("._settings.DEFAULT_LANGUAGES")
            chk.ob(rule, "default-language lookup: languages=DEFAULT_LANGUAGES, locales=None, region=self.region", ok, "got %s" % kw,
                   key={"function": f.key, "construct": "default get_locales args"}, file=f.file, function=f.qual, line=c.lineno)
        else:
            n_req += 1
            chk.ob(rule, "requested-locale lookup passes languages/locales/region/use_given_order of the constructor", kw == want_req,
                   "got %s" % kw, key={"function": f.key, "construct": "requested get_locales args"}, file=f.file,
                   function=f.qual, line=c.lineno)
    chk.floor(rule, n_req, 1, "loader calls for the requested locales")
    # each yielded requested locale passed the applicability test for this string
    for y in groups["requested"]:
        guarded = any(p and "_is_applicable_locale(" in ast.unparse(a_) for t, pol in enclosing_tests(f.node, y) for a_, p in conjuncts(t, pol))
        chk.ob(rule, "a requested locale is yielded only if applicable to the string", guarded, "",
               key={"function": f.key, "construct": "applicability"}, file=f.file, function=f.qual, line=y.lineno)
        from ..core.ctx import ancestors as _anc
        loopv = [ast.unparse(a_.target) for a_ in _anc(f.node, y) if isinstance(a_, ast.For) and "get_locales" in ast.unparse(a_.iter)]
        chk.ob(rule, "the yielded value is the loop's locale", bool(loopv) and ast.unparse(y.value.value) == loopv[0], "",
               key={"function": f.key, "construct": "yield locale"}, file=f.file, function=f.qual, line=y.lineno)
    # constructor stores, parse() forwards
    init = ix.func(DDP + ".__init__")
    stores = {}
    for n in iter_own_nodes(init.node):
        if isinstance(n, ast.Assign) and isinstance(n.targets[0], ast.Attribute) and ast.unparse(n.targets[0].value) == "self":
            stores[n.targets[0].attr] = ast.unparse(n.value)
    for a, ok_vals in (("languages", ("list(languages) if languages else None", "languages")), ("locales", ("locales",)),
                       ("region", ("region",)), ("use_given_order", ("use_given_order",)), ("try_previous_locales", ("try_previous_locales",))):
        chk.ob(rule, "DateDataParser.__init__ stores %s" % a, stores.get(a) in ok_vals, "stores %s" % stores.get(a),
               key={"function": init.key, "construct": "store " + a}, file=init.file, function=init.qual, line=init.node.lineno)
    p = ix.func("dateparser:parse")
    ctor = [n for n in iter_own_nodes(p.node) if isinstance(n, ast.Call) and ast.unparse(n.func) == "DateDataParser"]
    for c in ctor:
        kw = _kw(c)
        ok = all(kw.get(k) == k for k in ("languages", "locales", "region", "settings"))
        chk.ob(rule, "parse() forwards languages/locales/region/settings by keyword", ok, "got %s" % kw,
               key={"function": p.key, "construct": "ctor kwargs"}, file=p.file, function=p.qual, line=c.lineno)
    ifs = [s for s in iter_own_stmts(p.node.body) if isinstance(s, ast.If) and ctor and any(c in list(ast.walk(s)) for c in ctor)]
    for s in ifs:
        names = {x.id for x in ast.walk(s.test) if isinstance(x, ast.Name)}
        chk.ob(rule, "parse() builds a dedicated parser whenever languages, locales or region are given",
               {"languages", "locales", "region"} <= names, "guard mentions %s" % sorted(names),
               key={"function": p.key, "construct": "ctor guard"}, file=p.file, function=p.qual, line=s.lineno)


def r2(ctx, chk):
    rule = "C13.R2"
    f = ctx.ix.func(DDP + ".get_date_data")
    loops = [n for n in iter_own_nodes(f.node) if isinstance(n, ast.For) and "_get_applicable_locales" in ast.unparse(n.iter)]
    if len(loops) != 1:
        raise AnalysisError(rule, "get_date_data: locale loop not found")
    lp = loops[0]
    lv = ast.unparse(lp.target)
    parse = [n for n in ast.walk(lp) if isinstance(n, ast.Call) and ast.unparse(n.func) == "_DateLocaleParser.parse"]
    ok = len(parse) == 1 and parse[0].args and ast.unparse(parse[0].args[0]) == lv
    chk.ob(rule, "each candidate is parsed with its own locale", ok, "", key={"function": f.key, "construct": "parse with loop locale"},
           file=f.file, function=f.qual, line=lp.lineno)
    sets = [n for n in ast.walk(lp) if isinstance(n, ast.Assign) and isinstance(n.targets[0], ast.Subscript)
            and isinstance(n.targets[0].slice, ast.Constant) and n.targets[0].slice.value == "locale"]
    ok = len(sets) == 1 and ast.unparse(sets[0].value) == lv + ".shortname"
    chk.ob(rule, "the reported locale is the shortname of the locale that produced the result", ok,
           "assigned %s" % (ast.unparse(sets[0].value) if sets else None),
           key={"function": f.key, "construct": "reported locale"}, file=f.file, function=f.qual, line=lp.lineno)
    rets = [n for n in ast.walk(ast.Module(body=lp.body, type_ignores=[])) if isinstance(n, ast.Return)]
    ok = len(rets) == 1 and sets and ast.unparse(rets[0].value) == ast.unparse(sets[0].targets[0].value)
    guarded = bool(rets) and any(p and ast.unparse(a) == ast.unparse(rets[0].value) for t, pol in enclosing_tests(f.node, rets[0]) for a, p in conjuncts(t, pol))
    chk.ob(rule, "the first locale with a valid result returns it", ok and guarded, "",
           key={"function": f.key, "construct": "first success returns"}, file=f.file, function=f.qual, line=lp.lineno)
    # nothing recognised: date_obj None, locale None
    orelse = lp.orelse
    ok = len(orelse) == 1 and isinstance(orelse[0], ast.Return) and isinstance(orelse[0].value, ast.Call) and \
        _kw(orelse[0].value).get("date_obj") == "None" and _kw(orelse[0].value).get("locale") == "None" and _kw(orelse[0].value).get("period") == "'day'"
    chk.ob(rule, "when no locale succeeds the result has date_obj=None, period='day', locale=None", ok, "",
           key={"function": f.key, "construct": "empty result"}, file=f.file, function=f.qual, line=lp.lineno)
    # _DateLocaleParser._parse: parsers in the order of settings.PARSERS, first valid wins
    pp = ctx.ix.func("dateparser.date:_DateLocaleParser._parse")
    lps = [n for n in iter_own_nodes(pp.node) if isinstance(n, ast.For)]
    ok = len(lps) == 1 and ast.unparse(lps[0].iter).endswith("_settings.PARSERS") and any(isinstance(x, ast.Return) for x in ast.walk(lps[0]))
    chk.ob(rule, "parsers run in the order of settings.PARSERS and the first valid result returns", ok, "",
           key={"function": pp.key, "construct": "parser order"}, file=pp.file, function=pp.qual, line=pp.node.lineno)


def r3(ctx, chk):
    rule = "C13.R3"
    ix = ctx.ix
    f = ix.func("dateparser.languages.loader:LocaleDataLoader._load_data")
    g = CFG(f.node)
    sorts = [s for s in iter_own_stmts(f.node.body) if isinstance(s, ast.Assign)
             and any(isinstance(n, ast.Call) and ast.unparse(n.func) == "sorted" for n in ast.walk(s.value))]
    chk.floor(rule, len(sorts), 1, "sort of the locale dict")
    for s in sorts:
        guarded = any(((not p and ast.unparse(a) == "use_given_order") or (p and ast.unparse(a) == "not use_given_order"))
                      for t, pol in enclosing_tests(f.node, s) for a, p in conjuncts(t, pol))
        chk.ob(rule, "the priority sort is skipped when use_given_order", guarded, "the given order is always overridden",
               key={"function": f.key, "construct": "sort guard"}, file=f.file, function=f.qual, line=s.lineno)
        lam = [n for n in ast.walk(s.value) if isinstance(n, ast.Lambda)]
        ok = False
        if lam:
            body = lam[0].body
            lp = lam[0].args.args[0].arg if lam[0].args.args else None
            if isinstance(body, ast.Call) and ast.unparse(body.func) == "language_order.index" and len(body.args) == 1:
                a = body.args[0]
                # the looked-up value must be the language element itself: subscripts of the lambda parameter only
                pure = True
                cur = a
                while isinstance(cur, ast.Subscript) and isinstance(cur.slice, ast.Constant):
                    cur = cur.value
                pure = isinstance(cur, ast.Name) and cur.id == lp
                ok = pure and ast.unparse(a) == "%s[1][0]" % lp
        chk.ob(rule, "the sort key is the language's position in language_order", ok, "",
               key={"function": f.key, "construct": "sort key"}, file=f.file, function=f.qual, line=s.lineno)
    yields = [s for s in iter_own_stmts(f.node.body) if isinstance(s, ast.Expr) and isinstance(s.value, ast.Yield)]
    raises = [s for s in iter_own_stmts(f.node.body) if isinstance(s, ast.Raise)]
    chk.floor(rule + ".raises", len(raises), 2, "rejections of unknown languages/locales")
    for r in raises:
        after = any(g.reachable_from([y_]) & set(g.nodes_of(r)) for y in yields for y_ in g.nodes_of(y))
        chk.ob(rule, "`%s` happens before anything is yielded" % ast.unparse(r)[:50], not after, "",
               key={"function": f.key, "construct": "raise before yield " + " ".join(ast.unparse(r).split())[:40]},
               file=f.file, function=f.qual, line=r.lineno)
    # unknown language test is against language_order; unknown locale through _isvalidlocale
    t = " ".join(ast.unparse(f.node).split())
    chk.ob(rule, "unknown languages are those not in language_order", "set(languages) - set(language_order)" in t, "",
           key={"function": f.key, "construct": "unknown languages"}, file=f.file, function=f.qual, line=f.node.lineno)
    chk.ob(rule, "languages default to every language when none are given", ("if languages is None: languages = language_order" in t or "languages = language_order if languages is None else languages" in t), "",
           key={"function": f.key, "construct": "all languages"}, file=f.file, function=f.qual, line=f.node.lineno)
    cl = ix.func("dateparser.languages.loader:_construct_locales")
    t2 = " ".join(ast.unparse(cl.node).split())
    import re as _re
    ok = _re.search(r"\[(\w+) \+ '-' \+ region for \1 in languages\]", t2) is not None and "_filter_valid_locales(" in t2
    chk.ob(rule, "a region builds language-region locales filtered by the index", ok, "",
           key={"function": cl.key, "construct": "region locales"}, file=cl.file, function=cl.qual, line=cl.node.lineno)
    iv = ix.func("dateparser.languages.loader:_isvalidlocale")
    t3 = " ".join(ast.unparse(iv.node).split())
    ok = _re.search(r"(\w+) not in language_order", t3) is not None and _re.search(r"language_locale_dict\[(\w+)\]", t3) is not None \
        and _re.search(r"locale == (\w+) or locale in (\w+)", t3) is not None
    chk.ob(rule, "a locale is valid iff its language is known and it is the language itself or one of its listed locales", ok, "",
           key={"function": iv.key, "construct": "valid locale"}, file=iv.file, function=iv.qual, line=iv.node.lineno)
    # Locale construction overlays locale_specific for exactly the shortname
    li = ix.func("dateparser.languages.locale:Locale.__init__")
    t4 = " ".join(ast.unparse(li.node).split())
    ok = "language_info.get('locale_specific', {}).get(shortname, {})" in t4 and _re.search(r"combine_dicts\(language_info, (\w+)\)", t4) is not None
    chk.ob(rule, "a Locale overlays the language data with locale_specific[shortname]", ok, "",
           key={"function": li.key, "construct": "locale overlay"}, file=li.file, function=li.qual, line=li.node.lineno)

"""Effects of the absolute parser's correction pipeline with their guard formulas
(shared by C08, C09, C10).  Everything is extracted from dateparser/parser.py on each run:
the stage order from `_parser.parse`, the effect statements from the stage bodies, the guards
from the enclosing tests (early returns and handler inheritance included, Appendix A)."""
import ast

from ..core import guards as G
from ..core.ctx import ancestors, enclosing_tests
from ..core.index import iter_own_nodes, iter_own_stmts
from ..core.repo import AnalysisError

PARSER = "dateparser.parser:_parser"
TOKENS = ("year", "month", "day", "weekday", "time")
ATOMS = ["tok_year", "tok_month", "tok_day", "tok_weekday", "tok_time", "two", "past", "future"]


def constraint(env):
    """assignments that cannot occur: past and future together; a two-digit year without a year token"""
    if env.get("past") and env.get("future"):
        return False
    if env.get("two") and not env.get("tok_year"):
        return False
    return True


def make_atom_fn(fn, aliases):
    """recognised leaves of the guards in the stage functions"""

    def atom(e):
        # self._token_X / self.X (component parsed <=> its token is set)
        if isinstance(e, ast.Attribute) and isinstance(e.value, ast.Name) and e.value.id == "self":
            a = e.attr
            if a.startswith("_token_") and a[7:] in TOKENS:
                return "tok_" + a[7:]
            if a in ("year", "month", "day"):
                return "tok_" + a
        if isinstance(e, ast.Name) and e.id in aliases:
            return aliases[e.id]
        if isinstance(e, ast.Call) and isinstance(e.func, ast.Name) and e.func.id in ("getattr", "hasattr") and len(e.args) >= 2:
            if isinstance(e.args[0], ast.Name) and e.args[0].id == "self" and isinstance(e.args[1], ast.Constant) \
                    and isinstance(e.args[1].value, str) and e.args[1].value.startswith("_token_") and e.args[1].value[7:] in TOKENS:
                return "tok_" + e.args[1].value[7:]
        if isinstance(e, ast.Compare) and len(e.ops) == 1:
            l, op, r = e.left, e.ops[0], e.comparators[0]

            def is_pref(x):
                return isinstance(x, ast.Attribute) and x.attr == "PREFER_DATES_FROM"
            if isinstance(l, ast.Constant) and l.value in ("past", "future") and is_pref(r):
                if isinstance(op, ast.In):
                    return l.value
                if isinstance(op, ast.NotIn):
                    return ("not", ("atom", l.value))
            if is_pref(l) and isinstance(r, ast.Constant) and r.value in ("past", "future", "current_period"):
                if r.value == "current_period":
                    f = ("and", ("not", ("atom", "past")), ("not", ("atom", "future")))
                else:
                    f = ("atom", r.value)
                if isinstance(op, ast.Eq):
                    return f
                if isinstance(op, ast.NotEq):
                    return ("not", f)
            if isinstance(op, ast.Eq) and isinstance(r, ast.Constant) and r.value == 2 and \
                    "".join(ast.unparse(l).split()) == "len(self._token_year[0])":
                return "two"
        return None
    return atom


class Effect:
    def __init__(self, stage, fn, node, kind, field, guard, text, sign=None):
        self.stage, self.fn, self.node = stage, fn, node
        self.kind, self.field = kind, field   # ('shift','days'|'year') | ('set','month'|'day')
        self.guard, self.text, self.sign = guard, text, sign

    def __repr__(self):
        return "<%s %s/%s L%d %s>" % (self.stage, self.kind, self.field, self.node.lineno, self.text[:40])


def stage_order(ctx):
    """[method name] of the corrections applied to the result in _parser.parse, in order"""
    f = ctx.ix.func(PARSER + ".parse")
    order = []
    var = None
    for s in f.node.body:
        if isinstance(s, ast.Assign) and isinstance(s.value, ast.Call) and isinstance(s.value.func, ast.Attribute) \
                and isinstance(s.value.func.value, ast.Name) and isinstance(s.targets[0], ast.Name):
            m = s.value.func.attr
            if var is None and not s.value.args:
                var = s.targets[0].id
                order.append(m)
            elif var is not None and s.targets[0].id == var and s.value.args and ast.unparse(s.value.args[0]) == var:
                order.append(m)
    if len(order) < 2:
        raise AnalysisError("pipeline", "_parser.parse: result/correction chain not recognised")
    return order, var


def _aliases(fn):
    """token_weekday, _ = getattr(self, '_token_weekday', (None, None))"""
    out = {}
    for n in iter_own_nodes(fn.node):
        if isinstance(n, ast.Assign) and isinstance(n.targets[0], (ast.Tuple, ast.Name)) and isinstance(n.value, ast.Call) \
                and isinstance(n.value.func, ast.Name) and n.value.func.id == "getattr" and len(n.value.args) >= 2 \
                and isinstance(n.value.args[1], ast.Constant) and str(n.value.args[1].value).startswith("_token_"):
            t = n.targets[0]
            name = t.elts[0].id if isinstance(t, ast.Tuple) and isinstance(t.elts[0], ast.Name) else t.id if isinstance(t, ast.Name) else None
            if name:
                out[name] = "tok_" + n.value.args[1].value[7:]
    return out


def _handler_guard(fn, handler, atom_fn):
    """disjunction of the guards of the try-body statements that can raise into this handler (ValueError from replace)"""
    tr = None
    for a in ancestors(fn.node, handler):
        if isinstance(a, ast.Try) and handler in a.handlers:
            tr = a
            break
    if tr is None:
        return ("const", True)
    parts = []
    for n in ast.walk(ast.Module(body=tr.body, type_ignores=[])):
        if isinstance(n, ast.Call) and isinstance(n.func, ast.Attribute) and n.func.attr == "replace" and any(
                k.arg in ("year", "month", "day") for k in n.keywords):
            g = _guard_within(fn, n, tr, atom_fn)
            parts.append(g)
    if not parts:
        return ("const", True)
    return ("or",) + tuple(parts) if len(parts) > 1 else parts[0]


def _guard_within(fn, node, stop, atom_fn):
    parts = []
    for test, pol in enclosing_tests(fn.node, node):
        # only tests nested inside `stop`
        if any(a is stop for a in ancestors(fn.node, test)):
            f = G.to_formula(test, atom_fn)
            parts.append(f if pol else G.neg(f))
    return G.conj(*parts)


def full_guard(fn, node, atom_fn):
    g = G.guard_of(fn.node, node, atom_fn)
    for a in ancestors(fn.node, node):
        if isinstance(a, ast.ExceptHandler):
            g = G.conj(g, _handler_guard(fn, a, atom_fn))
    return g


def _sign_of(e, fn):
    """sign of an integer expression: '+', '-', '0' or '?' ; `steps` style counters are >= 0"""
    if isinstance(e, ast.Constant) and isinstance(e.value, (int, float)):
        return "+" if e.value > 0 else "-" if e.value < 0 else "0"
    if isinstance(e, ast.UnaryOp) and isinstance(e.op, ast.USub):
        s = _sign_of(e.operand, fn)
        return {"+": "-", "-": "+", "0": "0"}.get(s, "?")
    if isinstance(e, ast.Name):
        # non-negative counter: initialised with constants >= 0 and only incremented
        ok = True
        seen = False
        for n in iter_own_nodes(fn.node):
            if isinstance(n, ast.Assign) and any(isinstance(t, ast.Name) and t.id == e.id for t in n.targets):
                seen = True
                if not (isinstance(n.value, ast.Constant) and isinstance(n.value.value, int) and n.value.value >= 0):
                    ok = False
            if isinstance(n, ast.AugAssign) and isinstance(n.target, ast.Name) and n.target.id == e.id:
                seen = True
                if not (isinstance(n.op, ast.Add) and _sign_of(n.value, fn) in ("+", "0")):
                    ok = False
        return "+" if ok and seen else "?"   # '+' here means >= 0
    return "?"


def _delta_sign(e, fn):
    """sign of a timedelta(...) expression or of a name bound to one (per definition site)"""
    if isinstance(e, ast.Call) and ast.unparse(e.func).endswith("timedelta"):
        kw = {k.arg: k.value for k in e.keywords}
        if set(kw) <= {"days", "hours", "weeks"} and len(kw) == 1:
            return _sign_of(list(kw.values())[0], fn)
    return "?"


def effects(ctx):
    order, var = stage_order(ctx)
    cls = ctx.ix.cls(PARSER)
    out = []
    for stage in order[1:]:
        fn = cls.methods.get(stage)
        if fn is None:
            raise AnalysisError("pipeline", "stage %s is not a method of _parser" % stage)
        params = fn.params()
        if len(params) < 2:
            raise AnalysisError("pipeline", "stage %s has no date parameter" % stage)
        v = params[1]
        atom_fn = make_atom_fn(fn, _aliases(fn))
        for n in iter_own_nodes(fn.node):
            # an update of the result: `v = <expr>`, or the same handed back at once (`return <expr over v>`)
            is_upd = isinstance(n, ast.Assign) and len(n.targets) == 1 and isinstance(n.targets[0], ast.Name) and n.targets[0].id == v
            is_ret = isinstance(n, ast.Return) and n.value is not None and not isinstance(n.value, (ast.Name, ast.Constant)) \
                and any(isinstance(x, ast.Name) and x.id == v for x in ast.walk(n.value))
            if not (is_upd or is_ret):
                continue
            val = n.value
            kind = None
            sign = None
            txt = ast.unparse(val)
            if isinstance(val, ast.BinOp) and isinstance(val.op, (ast.Add, ast.Sub)) and ast.unparse(val.left) == v:
                kind = ("shift", "days")
                d = val.right
                if isinstance(d, ast.Name):
                    # one effect per reaching definition of the delta (each with its own guard and sign)
                    defs = [x for x in iter_own_nodes(fn.node) if isinstance(x, ast.Assign)
                            and any(isinstance(t, ast.Name) and t.id == d.id for t in x.targets)]
                    for df in defs:
                        s = _delta_sign(df.value, fn)
                        if isinstance(val.op, ast.Sub):
                            s = {"+": "-", "-": "+"}.get(s, s)
                        g = G.conj(full_guard(fn, n, atom_fn), full_guard(fn, df, atom_fn))
                        out.append(Effect(stage, fn, n, "shift", "days", g, "%s  [%s]" % (txt, ast.unparse(df)), s))
                    continue
                sign = _delta_sign(d, fn)
                if isinstance(val.op, ast.Sub):
                    sign = {"+": "-", "-": "+"}.get(sign, sign)
            elif isinstance(val, ast.Call) and isinstance(val.func, ast.Attribute) and val.func.attr == "replace" \
                    and ast.unparse(val.func.value) == v:
                kws = {k.arg: k.value for k in val.keywords}
                if "year" in kws:
                    kind = ("shift", "year")
                    y = kws["year"]
                    if isinstance(y, ast.BinOp) and ast.unparse(y.left) == v + ".year" and isinstance(y.op, (ast.Add, ast.Sub)):
                        sign = _sign_of(y.right, fn)
                        if isinstance(y.op, ast.Sub):
                            sign = {"+": "-", "-": "+"}.get(sign, sign)
                    else:
                        sign = "?"
                elif "month" in kws:
                    kind = ("set", "month")
                elif "day" in kws:
                    kind = ("set", "day")
                elif set(kws) <= {"tzinfo"}:
                    continue
            elif isinstance(val, ast.Call):
                name = ast.unparse(val.func).split(".")[-1]
                if name == "set_correct_month_from_settings":
                    kind = ("set", "month")
                elif name == "set_correct_day_from_settings":
                    kind = ("set", "day")
                elif name in ("localize",):
                    continue
            if kind is None:
                if isinstance(val, ast.Name) or "localize" in txt:
                    continue
                raise AnalysisError("pipeline", "%s: unrecognised update of the result: %s" % (stage, txt[:80]))
            out.append(Effect(stage, fn, n, kind[0], kind[1], full_guard(fn, n, atom_fn), txt, sign))
    return order, out


def recovery_effects(ctx):
    """assignments to params[...] in _parser._get_datetime_obj's recovery from an out-of-range day, with guards:
    [(part, guard formula, node, fn)]"""
    fn = ctx.ix.func(PARSER + "._get_datetime_obj")
    atom_fn = make_atom_fn(fn, _aliases(fn))
    out = []
    for n in iter_own_nodes(fn.node):
        if isinstance(n, ast.Assign) and isinstance(n.targets[0], ast.Subscript) and isinstance(n.targets[0].slice, ast.Constant) \
                and n.targets[0].slice.value in ("day", "month", "year") and isinstance(n.targets[0].value, ast.Name):
            out.append((n.targets[0].slice.value, G.guard_of(fn.node, n, atom_fn), n, fn))
    return out

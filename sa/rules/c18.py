"""C18 — whitespace noise and digit script (digit clause only).

R1 every regex literal applied to the date string before numeral translation is blind to the digit script
R2 numeral translation is the first operation on the string in Locale.translate / is_applicable and its
   str.isdecimal guard agrees with the \\d class of the splitting pattern
"""
import ast

from ..core import rx
from ..core.cfg import CFG
from ..core.effects import fold_str
from ..core.index import iter_own_nodes, iter_own_stmts
from ..core.repo import AnalysisError
from ..core.taint import Taint

LEVEL = "other"
EXPLANATION = (
    "Taint analysis with source = the date_string argument of DateDataParser.get_date_data, sanitiser = "
    "Locale._translate_numerals, sinks = applications of regex literals (module constants or inline patterns) to a "
    "still-raw value. Each such pattern is parsed (re._parser) and must contain no construct that separates ASCII "
    "digits from other Unicode decimal digits (ranges inside 0-9, literal digits); \\d is script-blind. If the whole raw "
    "stage is script-blind it commutes with digit substitution, and the first thing both locale entry points do is to "
    "map every str.isdecimal run to ASCII. The whitespace clause of the property is NOT decided (see DESIGN)."
)
REGEX_METHODS = ("sub", "subn", "search", "match", "fullmatch", "split", "findall", "finditer")


def run(ctx, chk):
    r1(ctx, chk)
    r2(ctx, chk)


def r1(ctx, chk):
    rule = "C18.R1"
    ix = ctx.ix
    entry = ix.func("dateparser.date:DateDataParser.get_date_data")
    p0 = entry.params()[1]

    def is_source(e, f):
        return f is entry and isinstance(e, ast.Name) and e.id == p0

    t = Taint(ctx, is_source, sanitizers=("_translate_numerals",), string_mode=True, through_iter=True)
    reach = ctx.cg.reachable([entry.key])
    n = 0
    for fk in sorted(reach):
        f = ix.funcs[fk]
        for node in iter_own_nodes(f.node):
            if not (isinstance(node, ast.Call) and isinstance(node.func, ast.Attribute) and node.func.attr in REGEX_METHODS):
                continue
            recv = node.func.value
            pat = None
            subject = None
            if isinstance(recv, ast.Name) and recv.id in ("re", "regex"):
                if not node.args:
                    continue
                pat = fold_str(node.args[0], f, ix)
                subject = node.args[-1] if node.func.attr not in ("sub", "subn") else (node.args[2] if len(node.args) > 2 else None)
                if pat is None:
                    continue
            else:
                # compiled pattern object: module constant NAME = re.compile(<literal>)
                if isinstance(recv, ast.Name):
                    ent = ix.lookup_module_attr(f.module, recv.id)
                    if isinstance(ent, tuple) and ent[0] == "var":
                        try:
                            pat, _ = rx.module_regex(ix, ent[1].name, ent[2])
                        except AnalysisError:
                            pat = None
                if pat is None:
                    continue
                subject = node.args[-1] if node.args else None
            if subject is None or not t.tainted(subject, f):
                continue
            n += 1
            bad = rx.ascii_digit_constructs(pat)
            chk.ob(rule, "%s L%d: raw string meets %r" % (f.qual, node.lineno, pat[:50]), not bad,
                   "the pattern distinguishes ASCII digits from other decimal digits (%s): the same date written in another "
                   "digit script is sanitised differently" % ", ".join(bad[:3]),
                   key={"function": fk, "construct": "raw regex " + (ast.unparse(recv) if not (isinstance(recv, ast.Name) and recv.id in ("re", "regex")) else pat[:40])},
                   file=f.file, function=f.qual, line=node.lineno, text=ast.unparse(node)[:120])
    chk.floor(rule, n, 8, "regex literals applied to the raw date string")
    chk.note("table-driven timezone regexes (patterns not literal) are outside R1: they only build an alternative string for the applicability test")


def r2(ctx, chk):
    rule = "C18.R2"
    ix = ctx.ix
    for key in ("dateparser.languages.locale:Locale.translate", "dateparser.languages.locale:Locale.is_applicable"):
        f = ix.func(key)
        p = f.params()[1]
        g = CFG(f.node)
        tn = [s for s in iter_own_stmts(f.node.body) if isinstance(s, ast.Assign) and isinstance(s.value, ast.Call)
              and ast.unparse(s.value.func) == "self._translate_numerals" and ast.unparse(s.targets[0]) == p
              and [ast.unparse(a) for a in s.value.args] == [p]]
        chk.ob(rule, "%s rewrites %s with _translate_numerals" % (f.qual, p), len(tn) == 1, "",
               key={"function": key, "construct": "translates numerals"}, file=f.file, function=f.qual, line=f.node.lineno)
        if len(tn) != 1:
            continue
        later = [s for s in iter_own_stmts(f.node.body)
                 if not isinstance(s, (ast.If, ast.For, ast.While, ast.Try, ast.With)) and s is not tn[0]
                 and any(isinstance(n, ast.Call) and ast.unparse(n.func).split(".")[-1] in (
                     "normalize_unicode", "_simplify", "split", "_get_dictionary", "_split", "are_tokens_valid") for n in ast.walk(s))]
        for s in later:
            chk.ob(rule, "%s: numeral translation dominates `%s`" % (f.qual, ast.unparse(s)[:50]), g.dominates(tn[0], s),
                   "vocabulary work happens on a string whose digits were not yet mapped to ASCII",
                   key={"function": key, "construct": "numerals before " + " ".join(ast.unparse(s).split())[:50]},
                   file=f.file, function=f.qual, line=s.lineno)
    tn = ix.func("dateparser.languages.locale:Locale._translate_numerals")
    pat, flags = rx.module_regex(ix, "dateparser.languages.locale", "NUMERAL_PATTERN")
    ok = pat == r"(\d+)"
    chk.ob(rule, "NUMERAL_PATTERN splits on runs of \\d (any decimal digit)", ok, "pattern is %r" % pat,
           key={"function": tn.key, "construct": "NUMERAL_PATTERN"}, file=tn.file, function=tn.qual, line=tn.node.lineno)
    t = " ".join(ast.unparse(tn.node).split())
    import re as _re
    ok = _re.search(r"if (\w+)\.isdecimal\(\):", t) is not None and _re.search(r"str\(int\((\w+)\)\)\.zfill\(len\(\1\)\)", t) is not None
    chk.ob(rule, "_translate_numerals converts exactly the str.isdecimal tokens (Nd, what int() accepts) and keeps their width", ok,
           "the guard/convert pair changed (isdigit would admit superscripts that int() rejects; dropping zfill loses leading zeros)",
           key={"function": tn.key, "construct": "isdecimal -> int -> zfill"}, file=tn.file, function=tn.qual, line=tn.node.lineno)

"""C18 — whitespace noise and digit script.

R1 every regex literal applied to the date string before numeral translation is blind to the digit script
R2 numeral translation is the first operation on the string in Locale.translate / is_applicable and its
   str.isdecimal guard agrees with the \\d class of the splitting pattern
R3 whitespace: the sanitising pipeline reaches a canonical whitespace form (runs collapsed to one space, both ends trimmed,
   each end on its own) and no pattern that looks at exact spacing is applied before that point; everything downstream
   is then a function of the canonical string
R4 trailing colon: the colon trim runs on a string whose right end has been trimmed (so 'x:' and 'x: ' agree)
"""
import ast

from ..core import rx
from ..core.cfg import CFG
from ..core.effects import fold_str
from ..core.index import iter_own_nodes, iter_own_stmts
from ..core.repo import AnalysisError
from ..core.taint import Taint

LEVEL = "other"
EXPLANATION = (
    "Taint analysis with source = the date_string argument of DateDataParser.get_date_data, sanitiser = "
    "Locale._translate_numerals, sinks = applications of regex literals (module constants or inline patterns) to a "
    "still-raw value. Each such pattern is parsed (re._parser) and must contain no construct that separates ASCII "
    "digits from other Unicode decimal digits (ranges inside 0-9, literal digits); \\d is script-blind. If the whole raw "
    "stage is script-blind it commutes with digit substitution, and the first thing both locale entry points do is to "
    "map every str.isdecimal run to ASCII. Whitespace clause: the string pipeline of sanitize_date (helpers inlined) is "
    "abstractly interpreted over the facts {runs collapsed, left end trimmed, right end trimmed}; before all three hold "
    "no applied pattern may contain a construct whose outcome depends on which whitespace characters are present or how "
    "many (anything matching a member of {space, tab, newline, CR, NBSP} other than an unbounded \\s run, '.', ^ $); the "
    "canonical form must be reached, by statements that dominate every later use of the string in get_date_data; the "
    "trailing-colon trim must see a right-trimmed string. Then two strings that differ only in whitespace noise are equal "
    "from that point on."
)
REGEX_METHODS = ("sub", "subn", "search", "match", "fullmatch", "split", "findall", "finditer")


def run(ctx, chk):
    r1(ctx, chk)
    r2(ctx, chk)
    r3(ctx, chk)


def r1(ctx, chk):
    rule = "C18.R1"
    ix = ctx.ix
    entry = ix.func("dateparser.date:DateDataParser.get_date_data")
    p0 = entry.params()[1]

    def is_source(e, f):
        return f is entry and isinstance(e, ast.Name) and e.id == p0

    t = Taint(ctx, is_source, sanitizers=("_translate_numerals",), string_mode=True, through_iter=True)
    reach = ctx.cg.reachable([entry.key])
    n = 0
    for fk in sorted(reach):
        f = ix.funcs[fk]
        for node in iter_own_nodes(f.node):
            if not (isinstance(node, ast.Call) and isinstance(node.func, ast.Attribute) and node.func.attr in REGEX_METHODS):
                continue
            recv = node.func.value
            pat = None
            subject = None
            if isinstance(recv, ast.Name) and recv.id in ("re", "regex"):
                if not node.args:
                    continue
                pat = fold_str(node.args[0], f, ix)
                subject = node.args[-1] if node.func.attr not in ("sub", "subn") else (node.args[2] if len(node.args) > 2 else None)
                if pat is None:
                    continue
            else:
                # compiled pattern object: module constant NAME = re.compile(<literal>)
                if isinstance(recv, ast.Name):
                    ent = ix.lookup_module_attr(f.module, recv.id)
                    if isinstance(ent, tuple) and ent[0] == "var":
                        try:
                            pat, _ = rx.module_regex(ix, ent[1].name, ent[2])
                        except AnalysisError:
                            pat = None
                if pat is None:
                    continue
                subject = node.args[-1] if node.args else None
            if subject is None or not t.tainted(subject, f):
                continue
            n += 1
            bad = rx.ascii_digit_constructs(pat)
            chk.ob(rule, "%s L%d: raw string meets %r" % (f.qual, node.lineno, pat[:50]), not bad,
                   "the pattern distinguishes ASCII digits from other decimal digits (%s): the same date written in another "
                   "digit script is sanitised differently" % ", ".join(bad[:3]),
                   key={"function": fk, "construct": "raw regex " + (ast.unparse(recv) if not (isinstance(recv, ast.Name) and recv.id in ("re", "regex")) else pat[:40])},
                   file=f.file, function=f.qual, line=node.lineno, text=ast.unparse(node)[:120])
    # the same for tests that are not regexes: membership of (a piece of) the raw string in a literal digit alphabet, or an ordering
    # comparison against an ASCII digit, separates '1433379951' from the same number in another digit script
    for fk in sorted(reach):
        f = ix.funcs[fk]
        for node in iter_own_nodes(f.node):
            if not (isinstance(node, ast.Compare) and len(node.ops) == 1):
                continue
            op, a, b = node.ops[0], node.left, node.comparators[0]
            hit = None
            if isinstance(op, (ast.In, ast.NotIn)):
                alpha = b.value if isinstance(b, ast.Constant) and isinstance(b.value, str) else (
                    "0123456789" if ast.unparse(b) in ("string.digits", "digits") else None)
                if alpha is not None and any(c in "0123456789" for c in alpha) and t.tainted(a, f):
                    hit = "membership in the literal alphabet %r" % alpha[:20]
            elif isinstance(op, (ast.Lt, ast.LtE, ast.Gt, ast.GtE)):
                for x, y in ((a, b), (b, a)):
                    if isinstance(y, ast.Constant) and isinstance(y.value, str) and len(y.value) == 1 and y.value in "0123456789" and t.tainted(x, f):
                        hit = "ordering comparison with %r" % y.value
            if hit is None:
                continue
            n += 1
            chk.ob(rule, "%s L%d: raw string tested by `%s`" % (f.qual, node.lineno, " ".join(ast.unparse(node).split())[:50]), False,
                   "%s tells ASCII digits from other decimal digits before the numerals are translated: the same number written in "
                   "another digit script takes the other branch" % hit,
                   key={"function": fk, "construct": "raw digit test " + " ".join(ast.unparse(node).split())[:40]},
                   file=f.file, function=f.qual, line=node.lineno, text=" ".join(ast.unparse(node).split())[:120], positive=True)
    chk.floor(rule, n, 8, "regex literals applied to the raw date string")
    chk.note("table-driven timezone regexes (patterns not literal) are outside R1: they only build an alternative string for the applicability test")


def r2(ctx, chk):
    rule = "C18.R2"
    ix = ctx.ix
    for key in ("dateparser.languages.locale:Locale.translate", "dateparser.languages.locale:Locale.is_applicable"):
        f = ix.func(key)
        p = f.params()[1]
        g = CFG(f.node)
        tn = [s for s in iter_own_stmts(f.node.body) if isinstance(s, ast.Assign) and isinstance(s.value, ast.Call)
              and ast.unparse(s.value.func) == "self._translate_numerals" and ast.unparse(s.targets[0]) == p
              and [ast.unparse(a) for a in s.value.args] == [p]]
        chk.ob(rule, "%s rewrites %s with _translate_numerals" % (f.qual, p), len(tn) == 1, "",
               key={"function": key, "construct": "translates numerals"}, file=f.file, function=f.qual, line=f.node.lineno)
        if len(tn) != 1:
            continue
        later = [s for s in iter_own_stmts(f.node.body)
                 if not isinstance(s, (ast.If, ast.For, ast.While, ast.Try, ast.With)) and s is not tn[0]
                 and any(isinstance(n, ast.Call) and ast.unparse(n.func).split(".")[-1] in (
                     "normalize_unicode", "_simplify", "split", "_get_dictionary", "_split", "are_tokens_valid") for n in ast.walk(s))]
        for s in later:
            chk.ob(rule, "%s: numeral translation dominates `%s`" % (f.qual, ast.unparse(s)[:50]), g.dominates(tn[0], s),
                   "vocabulary work happens on a string whose digits were not yet mapped to ASCII",
                   key={"function": key, "construct": "numerals before " + " ".join(ast.unparse(s).split())[:50]},
                   file=f.file, function=f.qual, line=s.lineno)
    tn = ix.func("dateparser.languages.locale:Locale._translate_numerals")
    pat, flags = rx.module_regex(ix, "dateparser.languages.locale", "NUMERAL_PATTERN")
    ok = pat == r"(\d+)"
    chk.ob(rule, "NUMERAL_PATTERN splits on runs of \\d (any decimal digit)", ok, "pattern is %r" % pat,
           key={"function": tn.key, "construct": "NUMERAL_PATTERN"}, file=tn.file, function=tn.qual, line=tn.node.lineno)
    t = " ".join(ast.unparse(tn.node).split())
    import re as _re
    conv = _re.search(r"str\(int\((\w+)\)\)\.zfill\(len\(\1\)\)", t)
    # the guard as a statement (`if tok.isdecimal():`) or as a conditional expression (`<conv> if tok.isdecimal() else tok`)
    ok = conv is not None and (_re.search(r"if %s\.isdecimal\(\):" % conv.group(1), t) is not None
                               or _re.search(r"\.zfill\(len\(%s\)\) if %s\.isdecimal\(\) else %s\b" % ((conv.group(1),) * 3), t) is not None)
    if conv is None and "isdecimal" not in t and "isdigit" not in t and "isnumeric" not in t:
        chk.error(rule, "_translate_numerals: neither the digit test nor the int/zfill conversion is written in a form this rule knows")
        return
    chk.ob(rule, "_translate_numerals converts exactly the str.isdecimal tokens (Nd, what int() accepts) and keeps their width", ok,
           "the guard/convert pair changed (isdigit would admit superscripts that int() rejects; dropping zfill loses leading zeros)",
           key={"function": tn.key, "construct": "isdecimal -> int -> zfill"}, file=tn.file, function=tn.qual, line=tn.node.lineno)


# ---- whitespace clause -------------------------------------------------------------------

def _string_ops(ctx, fkey, rule, depth=0):
    """the straight-line string pipeline of a sanitising function: [dict(kind, pat, repl, name, func, line, flags)]
    kinds: sub | strip | joinsplit | rstrip_colon ; helper calls p = helper(p) are inlined"""
    ix = ctx.ix
    f = ix.func(fkey)
    p = f.params()[0]
    out = []
    from .util import pipeline_body
    for s in pipeline_body(f.node.body, p):
        if isinstance(s, ast.Expr) and isinstance(s.value, ast.Constant):
            continue
        if isinstance(s, ast.Return):
            if s.value is None or ast.unparse(s.value) != p:
                raise AnalysisError(rule, "%s does not return its rewritten argument" % f.qual)
            continue
        if not (isinstance(s, ast.Assign) and len(s.targets) == 1 and ast.unparse(s.targets[0]) == p and isinstance(s.value, ast.Call)):
            raise AnalysisError(rule, "%s: statement outside the string-pipeline idiom: %s" % (f.qual, ast.unparse(s)[:60]))
        c = s.value
        fn = ast.unparse(c.func)
        base = dict(func=f, line=s.lineno, text=" ".join(ast.unparse(s).split())[:100])
        if isinstance(c.func, ast.Attribute) and c.func.attr == "sub" and len(c.args) >= 2 and ast.unparse(c.args[-1]) == p:
            recv = c.func.value
            pat = flags = None
            if isinstance(recv, ast.Name) and recv.id in ("re", "regex") and len(c.args) == 3:
                pat, flags, name, repl_e = fold_str(c.args[0], f, ix), "", "inline", c.args[1]
            elif isinstance(recv, ast.Name) and len(c.args) == 2:
                name, repl_e = recv.id, c.args[0]
                ent = ix.lookup_module_attr(f.module, recv.id)
                if isinstance(ent, tuple) and ent[0] == "var":
                    try:
                        pat, flags = rx.module_regex(ix, ent[1].name, ent[2])
                    except AnalysisError:
                        pat = None
            else:
                raise AnalysisError(rule, "%s: unrecognised substitution %s" % (f.qual, base["text"]))
            repl = fold_str(repl_e, f, ix)
            out.append(dict(base, kind="sub", pat=pat, repl=repl, name=name, flags=flags or ""))
        elif fn == p + ".strip" and not c.args:
            out.append(dict(base, kind="strip", name="strip()"))
        elif fn in (p + ".rstrip", p + ".strip") and len(c.args) == 1 and isinstance(c.args[0], ast.Constant) and c.args[0].value == ":":
            out.append(dict(base, kind="rstrip_colon", name=fn.split(".")[-1] + "(':')"))
        elif fn in ("' '.join",) and len(c.args) == 1 and ast.unparse(c.args[0]) == p + ".split()":
            out.append(dict(base, kind="joinsplit", name="' '.join(split())"))
        elif isinstance(c.func, ast.Name) and [ast.unparse(a) for a in c.args] == [p] and not c.keywords:
            ent = ix.lookup_module_attr(f.module, c.func.id)
            if not (hasattr(ent, "key") and hasattr(ent, "params")) or depth > 3:
                raise AnalysisError(rule, "%s: helper %s cannot be resolved" % (f.qual, c.func.id))
            out += _string_ops(ctx, ent.key, rule, depth + 1)
        else:
            raise AnalysisError(rule, "%s: unrecognised rewrite %s" % (f.qual, base["text"]))
    return out


def r3(ctx, chk):
    rule = "C18.R3"
    ix = ctx.ix
    ops = _string_ops(ctx, "dateparser.date:sanitize_date", rule)
    facts = set()       # C: runs collapsed to one space, L / R: that end carries no whitespace
    present = set(rx.WS_FAMILY)     # members of the whitespace family that may still occur in the string
    canonical_at = None
    n_pre = n_post = 0
    colon_ok = None
    colon_seen = False
    for i, op in enumerate(ops):
        f = op["func"]
        canon = canonical_at is not None     # sticky: from the canonical point on the value is the same for every rewriting
        if op["kind"] == "strip":
            facts |= {"L", "R"}
        elif op["kind"] == "joinsplit":
            facts |= {"C", "L", "R"}
        elif op["kind"] == "rstrip_colon":
            colon_seen = True
            colon_ok = "R" in facts
            facts -= {"R"}
        else:
            pat, repl = op["pat"], op["repl"]
            if pat is None:
                if not canon:
                    raise AnalysisError(rule, "%s: pattern of %s applied before whitespace is normalised is not a constant" % (f.qual, op["name"]))
                n_post += 1
                facts -= {"C", "L", "R"} if repl is None or any(ch.isspace() for ch in repl) else set()
                continue
            import re as _re
            ascii_flag = _re.search(r"\b(re|regex)\.(ASCII|A)\b", op["flags"]) is not None
            sides = rx.trim_sides(pat, repl) if repl is not None else None
            matched = {cp for cp in present if not ascii_flag or cp < 128}
            sens0, pure0 = rx.whitespace_constructs(pat)
            if repl is not None and not sens0 and pure0 and repl != "" and all(ord(ch) in present for ch in repl) and not canon:
                # whitespace -> whitespace mapping (e.g. NBSP -> ' '): those members are no longer present afterwards
                gone = {cp for cp in present if any(chr(cp) in x for x in pure0)}
                present = (present - gone) | {ord(ch) for ch in repl}
                n_pre += 1
                continue
            if repl is not None and rx.is_ws_collapse(pat, repl) and matched >= present:
                facts |= {"C"}      # a leading/trailing run becomes one space: L/R unchanged
            elif sides is not None and "C" in facts:
                facts |= sides
                chk.ob(rule, "the whitespace trim %s removes whitespace from either end on its own" % op["name"], bool(sides),
                       "the pattern only fires when BOTH ends carry whitespace: 'x: ' keeps its trailing blank while ' x: ' loses it",
                       key={"function": f.key, "construct": "trim " + op["name"]}, file=f.file, function=f.qual, line=op["line"], text=op["text"])
            elif repl is not None and rx.trailing_colon_trim(pat, repl):
                colon_seen = True
                colon_ok = "R" in facts
                facts -= {"R"}      # 'x :' -> 'x '
            else:
                if not colon_seen:
                    es = rx.end_sensitive_constructs(pat)
                    chk.ob("C18.R4", "%s (applied before the trailing colon is trimmed) does not look at what ends the string" % op["name"], not es,
                           "the pattern contains %s: 'x' and 'x:' are treated differently by this stage, so appending a colon changes the "
                           "sanitised string" % ", ".join(sorted(set(es))),
                           key={"function": f.key, "construct": "end-sensitive regex before colon trim " + op["name"]},
                           file=f.file, function=f.qual, line=op["line"], text=op["text"])
                if canon:
                    n_post += 1
                else:
                    n_pre += 1
                    sens, pure = rx.whitespace_constructs(pat)
                    if pure and not (repl is not None and repl != "" and all(ch.isspace() for ch in repl)):
                        sens = sens + ["whitespace alternative %r replaced by %r" % (x, repl) for x in pure]
                    chk.ob(rule, "%s runs before whitespace is normalised and does not look at exact spacing" % op["name"], not sens,
                           "the pattern sees the caller's raw whitespace (%s): the same date written with doubled spaces, tabs, newlines "
                           "or no-break spaces is sanitised differently" % "; ".join(sorted(set(sens))[:3]),
                           key={"function": f.key, "construct": "raw-whitespace regex " + op["name"]},
                           file=f.file, function=f.qual, line=op["line"], text=op["text"])
                # effect of a general substitution on the facts: a replacement carrying whitespace may create runs/ends
                if repl is None or any(ch.isspace() for ch in repl):
                    facts -= {"C", "L", "R"}
        if canonical_at is None and {"C", "L", "R"} <= facts:
            canonical_at = op
    first = ops[0]["func"] if ops else ix.func("dateparser.date:sanitize_date")
    sd = ix.func("dateparser.date:sanitize_date")
    chk.ob(rule, "sanitize_date brings whitespace to a canonical form (runs -> one space, both ends trimmed independently)",
           canonical_at is not None, "no point of the pipeline establishes {collapsed, left-trimmed, right-trimmed}",
           key={"function": sd.key, "construct": "canonical whitespace reached"}, file=sd.file, function=sd.qual, line=sd.node.lineno)
    chk.floor(rule, n_pre + n_post, 5, "pattern applications in the sanitising pipeline")
    chk.note("C18.R3: %d pattern(s) applied before the canonical point, %d after" % (n_pre, n_post))

    rule4 = "C18.R4"
    chk.ob(rule4, "a trailing-colon trim exists in the sanitising pipeline", colon_seen, "",
           key={"function": sd.key, "construct": "colon trim present"}, file=sd.file, function=sd.qual, line=sd.node.lineno)
    if colon_seen:
        chk.ob(rule4, "the trailing-colon trim sees a right-trimmed string", bool(colon_ok),
               "'x:' followed by a blank or a newline keeps its colon",
               key={"function": sd.key, "construct": "colon trim after right trim"}, file=sd.file, function=sd.qual, line=sd.node.lineno)
        chk.ob(rule4, "whitespace uncovered by the colon trim ('x :') is removed afterwards", "R" in facts,
               "'x :' is sanitised to 'x ' while 'x' stays 'x'",
               key={"function": sd.key, "construct": "right trim after colon trim"}, file=sd.file, function=sd.qual, line=sd.node.lineno)

    # get_date_data: everything but the custom-format attempt (C14) works on the sanitised string
    entry = ix.func("dateparser.date:DateDataParser.get_date_data")
    p0 = entry.params()[1]
    g = CFG(entry.node)
    san = [s for s in iter_own_stmts(entry.node.body) if isinstance(s, ast.Assign) and isinstance(s.value, ast.Call)
           and ast.unparse(s.value.func) == "sanitize_date" and ast.unparse(s.targets[0]) == p0
           and [ast.unparse(a) for a in s.value.args] == [p0]]
    chk.ob(rule, "get_date_data replaces its argument by sanitize_date(argument)", len(san) == 1, "",
           key={"function": entry.key, "construct": "sanitize assignment"}, file=entry.file, function=entry.qual, line=entry.node.lineno)
    if len(san) == 1:
        for s in iter_own_stmts(entry.node.body):
            if s is san[0] or isinstance(s, (ast.If, ast.For, ast.While, ast.Try, ast.With)):
                hdr = s.test if isinstance(s, (ast.If, ast.While)) else s.iter if isinstance(s, ast.For) else None
                if hdr is None:
                    continue
                uses = [n for n in ast.walk(hdr) if isinstance(n, ast.Name) and n.id == p0]
                probe = hdr
            else:
                uses = [n for n in ast.walk(s) if isinstance(n, ast.Name) and n.id == p0 and isinstance(n.ctx, ast.Load)]
                probe = s
            if not uses:
                continue
            txt = ast.unparse(probe)
            if "isinstance(" in txt or "parse_with_formats" in txt or isinstance(s, ast.Raise):
                continue
            chk.ob(rule, "get_date_data: `%s` works on the sanitised string" % " ".join(txt.split())[:50], g.dominates(san[0], s),
                   "language work can see the caller's raw whitespace",
                   key={"function": entry.key, "construct": "sanitised before " + " ".join(txt.split())[:50]},
                   file=entry.file, function=entry.qual, line=s.lineno)

"""C08 — missing day/month completed as configured; complete dates untouched.

R1 option tables: first/last/current values, clamp fallback, callers pass the reference day/month
R2 guard truth tables of the correction stages (disabled when the part is stated, enabled when it is missing)
R3 the directive table that says which parts a custom format states agrees with strptime's semantics
R4 period of the absolute parser follows the finest part present
"""
import ast

from ..core import guards as G
from ..core.cfg import CFG
from ..core.ctx import conjuncts
from ..core.index import iter_own_nodes, iter_own_stmts
from ..core.repo import AnalysisError
from . import pipeline as P

LEVEL = "other"
EXPLANATION = (
    "Guard formulas of every statement that changes the result in _correct_for_time_frame/_correct_for_month/"
    "_correct_for_day are extracted (enclosing tests, early returns, handler inheritance) and evaluated over all "
    "assignments of {year,month,day,weekday,time token present, two-digit year, past, future}: no effect is enabled for "
    "a complete four-digit-year date; the month (day) stage is disabled whenever a month (day) token exists and "
    "enabled for month-less (day-less) strings. The option dicts of set_correct_day/month_from_settings map first->1, "
    "last->last valid day / 12, current->the reference value with a clock fallback, and fall back to `last` when the "
    "day does not fit. The format-directive table used by the custom-format parser is compared with strptime's "
    "directive semantics. Does not decide last-day arithmetic (calendar.monthrange) or the period of arbitrary strings."
)

# which date parts a strptime directive states (Python documentation); %j is the day of the year
DIRECTIVE_PARTS = {
    "%d": {"day"}, "%j": {"day", "month"}, "%m": {"month"}, "%b": {"month"}, "%B": {"month"},
    "%y": {"year"}, "%Y": {"year"}, "%c": {"day", "month", "year"}, "%x": {"day", "month", "year"},
    "%H": set(), "%M": set(), "%S": set(), "%f": set(), "%p": set(), "%A": set(), "%a": set(), "%z": set(), "%I": set(),
}


def run(ctx, chk):
    r1(ctx, chk)
    r2(ctx, chk)
    r3(ctx, chk)
    r4(ctx, chk)
    r5(ctx, chk, "C08.R5")
    r6(ctx, chk, "C08.R6")
    r7(ctx, chk, "C08.R7")
    token_conservation_rule(ctx, chk, "C08.R8")
    nospace_period_rule(ctx, chk, "C08.R9")


def r7(ctx, chk, rule):
    """'current' means the caller's reference date: the day comes from self.now and the month from settings.RELATIVE_BASE, so
    self.now must BE the given RELATIVE_BASE (no zone conversion, no truncation); the clock is only the fallback for a missing one"""
    cls = ctx.ix.cls("dateparser.parser:_parser")
    n = 0
    for f in [x for x in ctx.ix.funcs.values() if x.key.startswith(cls.key + ".")]:
        for st in iter_own_nodes(f.node):
            if not (isinstance(st, ast.Assign) and any(ast.unparse(t) == "self.now" for t in st.targets)):
                continue
            n += 1
            v = " ".join(ast.unparse(st.value).split())
            from ..core.ctx import conjuncts, enclosing_tests
            facts = [(" ".join(ast.unparse(a).split()), p) for t, pol in enclosing_tests(f.node, st) for a, p in conjuncts(t, pol)]
            if v in ("self.settings.RELATIVE_BASE", "settings.RELATIVE_BASE", "None"):
                ok, why = True, ""
            elif isinstance(st.value, ast.BoolOp) and isinstance(st.value.op, ast.Or) and len(st.value.values) == 2 \
                    and " ".join(ast.unparse(st.value.values[0]).split()) in ("self.settings.RELATIVE_BASE", "settings.RELATIVE_BASE"):
                # `RELATIVE_BASE or <clock>`: the given base as it is, the fallback only when there is none - both branches in one expression
                fb = " ".join(ast.unparse(st.value.values[1]).split())
                ok, why = "RELATIVE_BASE" not in fb and "self.now" not in fb, "fallback value %s" % fb
                n += 1          # stands for the two assignments of the statement form
            elif ("self.now", False) in facts or ("self.settings.RELATIVE_BASE", False) in facts:
                ok, why = "RELATIVE_BASE" not in v and "self.now" not in v, "fallback value %s" % v
            else:
                ok, why = False, "self.now = %s under %s" % (v, facts)
            chk.ob(rule, "%s: self.now is the caller's RELATIVE_BASE as given (the clock only when none is given)" % f.qual, ok,
                   "%s: the reference used for the 'current' day is no longer the date the caller supplied (the 'current' month still is)" % why,
                   key={"function": f.key, "construct": "self.now source " + v[:50]}, file=f.file, function=f.qual, line=st.lineno)
    chk.floor(rule, n, 2, "assignments to self.now in the absolute parser")


def r6(ctx, chk, rule):
    """the corrections decide "the string states the day/month/year" by the _token_<part> attributes (the constraint the
    truth tables of R1/R2 rely on): wherever the absolute parser stores a component it records the token as well"""
    import re as _re
    cls = ctx.ix.cls("dateparser.parser:_parser")
    funcs = [f for f in ctx.ix.funcs.values() if f.key.startswith(cls.key + ".")]
    n = 0

    def block_of(f, node):
        """the statement list that contains node's statement"""
        for parent in ast.walk(f.node):
            for field in ("body", "orelse", "finalbody"):
                blk = getattr(parent, field, None)
                if isinstance(blk, list) and any(any(x is node for x in ast.walk(st)) and not isinstance(st, (ast.FunctionDef,)) for st in blk):
                    # innermost: keep descending
                    inner = [st for st in blk if any(x is node for x in ast.walk(st))][0]
                    if isinstance(inner, (ast.If, ast.For, ast.While, ast.Try, ast.With)):
                        continue
                    return blk
        return []

    def token_stores(blk):
        out = set()
        for st in blk:
            for c in ast.walk(st):
                if isinstance(c, ast.Call) and isinstance(c.func, ast.Name) and c.func.id == "setattr" and len(c.args) == 3 \
                        and ast.unparse(c.args[0]) == "self":
                    t = ast.unparse(c.args[1])
                    m = _re.fullmatch(r"'_token_%s' % (\w+)", t)
                    if m:
                        out.add(("var", m.group(1)))
                    elif isinstance(c.args[1], ast.Constant) and str(c.args[1].value).startswith("_token_"):
                        out.add(("const", c.args[1].value[len("_token_"):]))
        return out

    for f in funcs:
        for c in iter_own_nodes(f.node):
            # generic store of a component: setattr(self, <name>, value)
            if isinstance(c, ast.Call) and isinstance(c.func, ast.Name) and c.func.id == "setattr" and len(c.args) == 3 \
                    and ast.unparse(c.args[0]) == "self" and isinstance(c.args[1], ast.Name):
                n += 1
                ok = ("var", c.args[1].id) in token_stores(block_of(f, c))
                chk.ob(rule, "%s: the component stored by `%s` has its token recorded in the same block" % (f.qual, " ".join(ast.unparse(c).split())[:50]), ok,
                       "the part is set but _token_<part> is not: the day/month completion then treats a stated part as missing and overwrites it "
                       "with the reference date's (e.g. '17 mars 2015' in a year-first locale)",
                       key={"function": f.key, "construct": "token recorded with setattr(self, %s, ..)" % c.args[1].id}, file=f.file, function=f.qual, line=c.lineno)
            # result lists consumed by setattr(self, *res): [(component, value), ...]
            if isinstance(c, ast.Return) and isinstance(c.value, ast.List) and c.value.elts and all(
                    isinstance(e, ast.Tuple) and len(e.elts) == 2 for e in c.value.elts):
                have = token_stores(block_of(f, c))
                for e in c.value.elts:
                    comp = e.elts[0]
                    n += 1
                    if isinstance(comp, ast.Name):
                        ok = ("var", comp.id) in have or (("const", "month") in have and ("const", "day") in have)
                        what = comp.id
                    elif isinstance(comp, ast.Constant):
                        ok = ("const", comp.value) in have
                        what = repr(comp.value)
                    else:
                        ok, what = False, ast.unparse(comp)
                    chk.ob(rule, "%s: the result (%s, ..) is returned with its token recorded" % (f.qual, what), ok,
                           "a parsed component is handed back without _token_<component>",
                           key={"function": f.key, "construct": "token recorded for returned %s" % what}, file=f.file, function=f.qual, line=c.lineno)
    chk.floor(rule, n, 4, "stores/returns of parsed components in _parser")


def r5(ctx, chk, rule):
    """the out-of-range-day recovery of _get_datetime_obj: the day is clamped only when the string states no day;
    the year is moved to a leap year only when the day was stated and the year was not"""
    effs = P.recovery_effects(ctx)
    chk.floor(rule, len(effs), 2, "repairs of params[...] in the day-out-of-range recovery")
    for part, g, node, fn in effs:
        if part == "day":
            w = G.satisfiable(G.conj(g, ("or", ("atom", "tok_day"), ("atom", "tok_weekday"))), P.ATOMS, P.constraint)
            chk.ob(rule, "_get_datetime_obj: the day is replaced by the month's last day only when the string states no day", w is None,
                   "the clamp is enabled although a day is stated (%s): a stated day that does not fit the borrowed month is "
                   "silently replaced instead of failing" % ({k: v for k, v in (w or {}).items() if v and not isinstance(k, tuple)}),
                   key={"function": fn.key, "construct": "clamp only without a day token"}, file=fn.file, function=fn.qual, line=node.lineno,
                   text=ast.unparse(node)[:100])
        elif part == "year":
            w = G.satisfiable(G.conj(g, ("atom", "tok_year")), P.ATOMS, P.constraint)
            chk.ob(rule, "_get_datetime_obj: the year is moved to a leap year only when the string states no year", w is None,
                   "enabled with a year token", key={"function": fn.key, "construct": "leap move only without a year token"},
                   file=fn.file, function=fn.qual, line=node.lineno)
            w = G.satisfiable(G.conj(g, G.neg(("atom", "tok_day")), G.neg(("atom", "tok_weekday"))), P.ATOMS, P.constraint)
            chk.ob(rule, "_get_datetime_obj: the year is moved to a leap year only for a stated 29 February (a borrowed day is clamped instead)",
                   w is None, "enabled although no day is stated (%s): a month name alone seen from a 29th leaves the reference year" % (
                       {k: v for k, v in (w or {}).items() if v and not isinstance(k, tuple)}),
                   key={"function": fn.key, "construct": "leap move only with a day token"}, file=fn.file, function=fn.qual, line=node.lineno)


def _options(fn):
    from .util import dict_with_keys, name_bound_to
    d = dict_with_keys(fn, ["first", "last", "current"])
    if d is None:
        raise AnalysisError("C08.R1", "%s: options dict literal (first/last/current) not found" % fn.qual)
    fn._sa_options_name = name_bound_to(fn, d) or "options"
    out = {k.value: v for k, v in zip(d.keys, d.values) if isinstance(k, ast.Constant)}
    # an entry may be a local that only names its value (`last_day = get_last_day_of_month(..)`; `"last": last_day`)
    fn._sa_option_alias = {}
    for k_, v_ in list(out.items()):
        if isinstance(v_, ast.Name):
            defs = [n for n in iter_own_nodes(fn.node) if isinstance(n, ast.Assign) and len(n.targets) == 1 and isinstance(n.targets[0], ast.Name)
                    and n.targets[0].id == v_.id]
            stores = sum(1 for n in iter_own_nodes(fn.node) if isinstance(n, ast.Name) and n.id == v_.id and isinstance(n.ctx, ast.Store))
            if len(defs) == 1 and stores == 1 and v_.id not in fn.params():
                out[k_] = defs[0].value
                fn._sa_option_alias[k_] = v_.id
    return out


def r1(ctx, chk):
    rule = "C08.R1"
    ix = ctx.ix
    for key, part, setting, last_ok in (
            ("dateparser.utils:set_correct_day_from_settings", "day", "PREFER_DAY_OF_MONTH",
             lambda v, p: isinstance(v, ast.Call) and ast.unparse(v.func).endswith("get_last_day_of_month")
             and [ast.unparse(a) for a in v.args] == [p + ".year", p + ".month"]),
            ("dateparser.utils:set_correct_month_from_settings", "month", "PREFER_MONTH_OF_YEAR",
             lambda v, p: isinstance(v, ast.Constant) and v.value == 12)):
        f = ix.func(key)
        p0 = f.params()[0]
        cur_param = f.params()[2] if len(f.params()) > 2 else None
        opt = _options(f)
        chk.ob(rule, "%s: first -> 1" % f.qual, isinstance(opt.get("first"), ast.Constant) and opt["first"].value == 1,
               "first maps to %s" % (ast.unparse(opt["first"]) if "first" in opt else None),
               key={"function": key, "construct": "first"}, file=f.file, function=f.qual, line=f.node.lineno)
        chk.ob(rule, "%s: last -> %s" % (f.qual, "last day of that month" if part == "day" else "12"),
               "last" in opt and last_ok(opt["last"], p0), "last maps to %s" % (ast.unparse(opt["last"]) if "last" in opt else None),
               key={"function": key, "construct": "last"}, file=f.file, function=f.qual, line=f.node.lineno)
        cur = opt.get("current")
        ok = isinstance(cur, ast.BoolOp) and isinstance(cur.op, ast.Or) and ast.unparse(cur.values[0]) == cur_param \
            and ast.unparse(cur.values[1]) == "datetime.now().%s" % part
        chk.ob(rule, "%s: current -> the reference %s, else the clock's" % (f.qual, part), ok,
               "current maps to %s" % (ast.unparse(cur) if cur is not None else None),
               key={"function": key, "construct": "current"}, file=f.file, function=f.qual, line=f.node.lineno)
        # the replace uses options[settings.<SETTING>] on the same part; ValueError falls back to options["last"]
        tries = [s for s in iter_own_stmts(f.node.body) if isinstance(s, ast.Try)]
        ok_main = ok_fb = False
        for t in tries:
            for s in t.body:
                if isinstance(s, ast.Return) and isinstance(s.value, ast.Call) and ast.unparse(s.value.func) == p0 + ".replace":
                    kw = {k.arg: ast.unparse(k.value) for k in s.value.keywords}
                    ok_main = kw == {part: "%s[settings.%s]" % (f._sa_options_name, setting)}
            for h in t.handlers:
                if h.type is not None and "ValueError" in ast.unparse(h.type):
                    for s in h.body:
                        if isinstance(s, ast.Return) and isinstance(s.value, ast.Call) and ast.unparse(s.value.func) == p0 + ".replace":
                            kw = {k.arg: ast.unparse(k.value) for k in s.value.keywords}
                            ok_fb = kw in ({part: "%s['last']" % f._sa_options_name}, {part: f._sa_option_alias.get("last", "<none>")})
        chk.ob(rule, "%s: replaces %s by options[settings.%s]" % (f.qual, part, setting), ok_main, "",
               key={"function": key, "construct": "replace by option"}, file=f.file, function=f.qual, line=f.node.lineno)
        chk.ob(rule, "%s: a value that does not fit falls back to `last` (clamp)" % f.qual, ok_fb,
               "without the fallback PREFER_DAY_OF_MONTH=current on the 31st raises / yields nothing for a 30-day month",
               key={"function": key, "construct": "clamp fallback"}, file=f.file, function=f.qual, line=f.node.lineno)
    gl = ix.func("dateparser.utils:get_last_day_of_month")
    r = [n for n in iter_own_nodes(gl.node) if isinstance(n, ast.Return)]
    ok = len(r) == 1 and " ".join(ast.unparse(r[0].value).split()) == "calendar.monthrange(%s, %s)[1]" % tuple(gl.params()[:2])
    chk.ob(rule, "get_last_day_of_month(y, m) is calendar.monthrange(y, m)[1]", ok, "returns %s" % (ast.unparse(r[0].value) if r else None),
           key={"function": gl.key, "construct": "monthrange"}, file=gl.file, function=gl.qual, line=gl.node.lineno)
    # callers hand over the reference day / month
    cd = ix.func(P.PARSER + "._correct_for_day")
    calls = [n for n in iter_own_nodes(cd.node) if isinstance(n, ast.Call) and ast.unparse(n.func).endswith("set_correct_day_from_settings")]
    ok = bool(calls) and all({k.arg: ast.unparse(k.value) for k in c.keywords}.get("current_day") == "self.now.day" for c in calls)
    chk.ob(rule, "_correct_for_day passes current_day=self.now.day", ok, "the reference day is not the reference time's day",
           key={"function": cd.key, "construct": "current_day"}, file=cd.file, function=cd.qual, line=cd.node.lineno)
    cm = ix.func(P.PARSER + "._correct_for_month")
    calls = [n for n in iter_own_nodes(cm.node) if isinstance(n, ast.Call) and ast.unparse(n.func).endswith("set_correct_month_from_settings")]
    t = " ".join(ast.unparse(cm.node).split())
    ok = bool(calls) and all(len(c.args) == 3 or any(k.arg == "current_month" for k in c.keywords) for c in calls) and \
        "RELATIVE_BASE" in t and ".month" in t
    chk.ob(rule, "_correct_for_month passes the month of RELATIVE_BASE as the reference month", ok, "",
           key={"function": cm.key, "construct": "current_month"}, file=cm.file, function=cm.qual, line=cm.node.lineno)
    # custom formats use the same two helpers
    pf = ix.func("dateparser.date:parse_with_formats")
    t = ast.unparse(pf.node)
    import re as _re
    ok = _re.search(r"(\w+) = set_correct_month_from_settings\(\1, settings\)", t) is not None and \
        _re.search(r"(\w+) = set_correct_day_from_settings\(\1, settings\)", t) is not None
    chk.ob(rule, "parse_with_formats completes missing parts with the same helpers", ok, "",
           key={"function": pf.key, "construct": "helpers"}, file=pf.file, function=pf.qual, line=pf.node.lineno)
    # month is fixed before the day (so the day is clamped to the final month)
    order, _ = P.stage_order(ctx)
    ok = "_correct_for_month" in order and "_correct_for_day" in order and order.index("_correct_for_month") < order.index("_correct_for_day")
    chk.ob(rule, "the month is completed before the day (%s)" % order, ok,
           "the day is clamped against the wrong month's length", key={"function": P.PARSER + ".parse", "construct": "stage order"},
           file="dateparser/parser.py", function="_parser.parse", line=None)


def r2(ctx, chk):
    rule = "C08.R2"
    order, effs = P.effects(ctx)
    chk.floor(rule, len(effs), 8, "result-changing statements in the correction stages")
    complete = G.conj(("atom", "tok_year"), ("atom", "tok_month"), ("atom", "tok_day"), G.neg(("atom", "two")))
    for e in effs:
        free = G.atoms_of(e.guard, ("free",))
        w = G.satisfiable(G.conj(e.guard, complete), P.ATOMS, P.constraint)
        chk.ob(rule, "%s L%d `%s` is disabled for a complete date with a 4-digit year; guard %s" % (
            e.stage, e.node.lineno, e.text[:40], G.show(e.guard)[:90]), w is None,
            "enabled under %s" % ({k: v for k, v in (w or {}).items() if v and not isinstance(k, tuple)}),
            key={"function": e.fn.key, "construct": "complete-date: %s %s" % (e.kind, e.field), "text": " ".join(e.text.split())[:60]},
            file=e.fn.file, function=e.fn.qual, line=e.node.lineno, text=e.text)
    for field, stated in (("month", ["tok_month"]), ("day", ["tok_day"])):
        sets = [e for e in effs if e.kind == "set" and e.field == field]
        chk.ob(rule, "a stage completes a missing %s" % field, bool(sets),
               "no stage sets the %s: PREFER_%s is never applied by the absolute parser" % (field, "DAY_OF_MONTH" if field == "day" else "MONTH_OF_YEAR"),
               key={"function": P.PARSER, "construct": "stage sets " + field}, file="dateparser/parser.py", function="_parser", line=None)
        for e in sets:
            w = G.satisfiable(G.conj(e.guard, ("atom", stated[0])), P.ATOMS, P.constraint)
            chk.ob(rule, "%s: the %s completion is disabled when the string states the %s" % (e.stage, field, field), w is None,
                   "enabled under %s" % ({k: v for k, v in (w or {}).items() if v}),
                   key={"function": e.fn.key, "construct": "%s stage disabled when stated" % field}, file=e.fn.file,
                   function=e.fn.qual, line=e.node.lineno)
            # enabled for year-only / month-year strings (no day, weekday, time tokens)
            base = {"tok_year": True, "tok_month": field == "day", "tok_day": False, "tok_weekday": False, "tok_time": False,
                    "two": False, "past": False, "future": False}
            ok = True
            for pf in ((False, False), (True, False), (False, True)):
                env = dict(base, past=pf[0], future=pf[1])
                for fr in G.atoms_of(e.guard, ("free",)):
                    env[("free", fr)] = True
                try:
                    ok = ok and G.evaluate(e.guard, env)
                except KeyError as ke:
                    raise AnalysisError(rule, "guard of %s mentions an atom outside the model: %s" % (e.stage, ke))
            chk.ob(rule, "%s: the %s completion is enabled for a string with year%s only" % (e.stage, field, "+month" if field == "day" else ""),
                   ok, "the missing %s is not completed from the preference" % field,
                   key={"function": e.fn.key, "construct": "%s stage enabled when missing" % field}, file=e.fn.file,
                   function=e.fn.qual, line=e.node.lineno)


def format_part_table(ctx, rule):
    """{'day'|'month'|'year': set(directives)} as parse_with_formats decides it"""
    pf = ctx.ix.func("dateparser.date:parse_with_formats")
    txt = ast.unparse(pf.node)
    import re as _re
    if _re.search(r"_get_missing_parts\((\w+)\)", txt):
        g = ctx.ix.func("dateparser.utils:_get_missing_parts")
        from .util import dict_with_keys
        dm = dict_with_keys(g, ["day", "month", "year"])
        if dm is not None:
            try:
                return {k: set(v) for k, v in ast.literal_eval(dm).items()}, g
            except Exception:
                pass
        # the table hoisted to a module-level constant: a dict, or a sequence of (part, directives) pairs, that the function reads
        for nm in sorted({x.id for x in ast.walk(g.node) if isinstance(x, ast.Name) and isinstance(x.ctx, ast.Load)}):
            vals = g.module.assigns.get(nm)
            if not vals:
                continue
            try:
                v = ast.literal_eval(vals[-1])
            except Exception:
                continue
            if isinstance(v, dict) and {"day", "month", "year"} <= set(v):
                return {k: set(x) for k, x in v.items()}, g
            if isinstance(v, (tuple, list)) and v and all(isinstance(p_, (tuple, list)) and len(p_) == 2 and isinstance(p_[0], str) for p_ in v) \
                    and {"day", "month", "year"} <= {p_[0] for p_ in v}:
                return {p_[0]: set(p_[1]) for p_ in v}, g
        raise AnalysisError(rule, "_get_missing_parts.directive_mapping is not a literal")
    # older shape: own expressions
    table = {"day": set(), "month": set(), "year": set()}
    for n in iter_own_nodes(pf.node):
        if isinstance(n, ast.Assign) and isinstance(n.targets[0], ast.Name) and n.targets[0].id in ("missing_month", "missing_day"):
            part = n.targets[0].id.split("_")[1]
            for c in ast.walk(n.value):
                if isinstance(c, ast.Constant) and isinstance(c.value, str) and c.value.startswith("%"):
                    table[part].add(c.value)
        if isinstance(n, ast.If) and "today" in ast.unparse(n.body[0]) if isinstance(n, ast.If) and n.body else False:
            for c in ast.walk(n.test):
                if isinstance(c, ast.Constant) and isinstance(c.value, str) and c.value.startswith("%"):
                    table["year"].add(c.value)
    if not table["day"] or not table["month"]:
        raise AnalysisError(rule, "parse_with_formats: missing-part computation not recognised")
    return table, pf


def missing_flags(pf):
    """{local name: 'month'|'day'} for flags bound to `"month" in <missing parts>` (or the older directive tests)"""
    out = {}
    for n in iter_own_nodes(pf.node):
        if isinstance(n, ast.Assign) and isinstance(n.targets[0], ast.Name):
            v = n.value
            if isinstance(v, ast.Compare) and isinstance(v.ops[0], ast.In) and isinstance(v.left, ast.Constant) and v.left.value in ("month", "day"):
                out[n.targets[0].id] = v.left.value
            elif n.targets[0].id in ("missing_month", "missing_day"):
                out[n.targets[0].id] = n.targets[0].id.split("_")[1]
    return out


def r3(ctx, chk):
    rule = "C08.R3"
    table, where = format_part_table(ctx, rule)
    n = 0
    for d, parts in sorted(DIRECTIVE_PARTS.items()):
        for part in ("day", "month", "year"):
            n += 1
            stated = part in parts
            listed = d in table.get(part, set())
            ok = (listed == stated) if stated else (not listed)
            chk.ob(rule, "directive %s %s the %s: table %s" % (d, "states" if stated else "does not state", part, "agrees" if ok else "DISAGREES"), ok,
                   ("a format using %s is treated as lacking the %s: the parsed %s is overwritten by the preference / the clock"
                    % (d, part, part)) if stated else "a format using %s is treated as stating the %s, so it is never completed" % (d, part),
                   key={"table": "format parts", "directive": d, "part": part}, file=where.file, function=where.qual,
                   line=where.node.lineno, nontrivial=stated)
    chk.floor(rule, n, 30, "directive/part pairs")
    # the no-spaces parser and the absolute parser use the same table through _get_missing_parts
    ns = ctx.ix.func("dateparser.parser:_no_spaces_parser.parse")
    chk.ob(rule, "_no_spaces_parser derives the missing parts with _get_missing_parts(fmt)",
           any(isinstance(n, ast.Call) and ast.unparse(n.func) == "_get_missing_parts" for n in iter_own_nodes(ns.node)), "", key={"table": "format parts", "directive": "*", "part": "nsp"},
           file=ns.file, function=ns.qual, line=ns.node.lineno)
    # period of the custom-format result: year if the month is missing, month if only the day is missing, else the initial 'day' -
    # decided by running the statements of the format loop for the four combinations of (month missing, day missing)
    pf = ctx.ix.func("dateparser.date:parse_with_formats")
    flags = missing_flags(pf)
    pname = None
    for n in iter_own_nodes(pf.node):
        if isinstance(n, ast.Call) and ast.unparse(n.func) == "DateData":
            for k in n.keywords:
                if k.arg == "period" and isinstance(k.value, ast.Name):
                    pname = k.value.id
    loops = [n for n in iter_own_nodes(pf.node) if isinstance(n, ast.For)]
    if pname is None or not loops:
        chk.error(rule, "parse_with_formats: the period local / the format loop was not found")
        return

    class _Unknown(Exception):
        pass

    def atom(e):
        if isinstance(e, ast.Name) and e.id in flags:
            return flags[e.id]
        if isinstance(e, ast.Compare) and len(e.ops) == 1 and isinstance(e.ops[0], (ast.In, ast.NotIn)) and isinstance(e.left, ast.Constant) \
                and e.left.value in ("month", "day", "year"):
            return e.left.value if isinstance(e.ops[0], ast.In) else ("not", e.left.value)
        return None

    def ev(e, env):
        if isinstance(e, ast.BoolOp):
            vals = [ev(v, env) for v in e.values]
            return all(vals) if isinstance(e.op, ast.And) else any(vals)
        if isinstance(e, ast.UnaryOp) and isinstance(e.op, ast.Not):
            return not ev(e.operand, env)
        a = atom(e)
        if a is None:
            raise _Unknown(ast.unparse(e)[:40])
        if isinstance(a, tuple):
            return not env.get(a[1], False)
        return env.get(a, False)

    # the locals the period passes through (`p2 = period` ... `period = p2` around a written-out helper)
    family = {pname}
    for _ in range(4):
        for n in iter_own_nodes(pf.node):
            if isinstance(n, ast.Assign) and len(n.targets) == 1 and isinstance(n.targets[0], ast.Name) and isinstance(n.value, ast.Name) \
                    and (n.targets[0].id in family or n.value.id in family):
                family |= {n.targets[0].id, n.value.id}

    def run(stmts, env, vals):
        for st in stmts:
            if isinstance(st, ast.If):
                try:
                    c = ev(st.test, env)
                except _Unknown:
                    # a test about something else (e.g. the year): the period must not be assigned under it
                    if any(isinstance(x, ast.Assign) and ast.unparse(x.targets[0]) in family for x in ast.walk(st)):
                        raise
                    continue
                vals = run(st.body if c else st.orelse, env, vals)
            elif isinstance(st, ast.Assign) and ast.unparse(st.targets[0]) in family:
                if isinstance(st.value, ast.Constant):
                    vals = dict(vals, **{st.targets[0].id: st.value.value})
                elif isinstance(st.value, ast.Name) and st.value.id in family:
                    vals = dict(vals, **{st.targets[0].id: vals.get(st.value.id, "<initial>")})
                else:
                    raise _Unknown(ast.unparse(st)[:40])
            elif isinstance(st, ast.Assign) and any(isinstance(x, ast.Name) and x.id in family for t_ in st.targets for x in ast.walk(t_)):
                raise _Unknown(ast.unparse(st)[:40])
            elif isinstance(st, ast.Try):
                vals = run(st.body, env, vals)
                vals = run(st.orelse, env, vals)          # the no-exception continuation
                vals = run(st.finalbody, env, vals)
            elif isinstance(st, ast.With):
                vals = run(st.body, env, vals)
        return vals
    want = {(True, True): "year", (True, False): "year", (False, True): "month", (False, False): "<initial>"}
    got = {}
    try:
        for mm in (True, False):
            for md in (True, False):
                got[(mm, md)] = run(loops[0].body, {"month": mm, "day": md, "year": False}, {}).get(pname, "<initial>")
    except _Unknown as e_:
        chk.error(rule, "parse_with_formats: the period is decided by something this rule cannot evaluate (%s)" % e_)
        return
    # when both parts are completed the month comes first: the 'last'/'current' day is derived from the month the date ends up in
    g_ = CFG(pf.node)
    lp_ids = set(g_.nodes_of(loops[0]))

    def stmts_calling(name):
        return [st for st in iter_own_stmts(loops[0].body) if not isinstance(st, (ast.If, ast.For, ast.While, ast.Try, ast.With))
                and any(isinstance(c_, ast.Call) and ast.unparse(c_.func) == name for c_ in ast.walk(st))]
    days, months = stmts_calling("set_correct_day_from_settings"), stmts_calling("set_correct_month_from_settings")
    if days and months:
        bad_order = False
        for d_ in days:
            after = g_.reachable_from(list(g_.nodes_of(d_)), avoid=frozenset(lp_ids))
            if any(set(g_.nodes_of(m_)) & after for m_ in months):
                bad_order = True
        chk.ob(rule, "custom formats: a missing month is completed before a missing day", not bad_order,
               "set_correct_month_from_settings can run after set_correct_day_from_settings in the same iteration: the day is clamped / chosen for "
               "the month strptime defaulted to (January), not for the month the preference then puts in",
               key={"table": "format period", "directive": "*", "part": "order"}, file=pf.file, function=pf.qual, line=days[0].lineno)
    chk.ob(rule, "custom formats: period year/year/month for (month+day | month | day) missing", got == want,
           "(month missing, day missing) -> period: %s" % {k: v for k, v in got.items() if want[k] != v},
           key={"table": "format period", "directive": "*", "part": "*"}, file=pf.file, function=pf.qual, line=pf.node.lineno)


def r4(ctx, chk):
    """_parser._get_period: 'time' only under RETURN_TIME_AS_PERIOD with a clock time; otherwise the finest part present - decided by
    evaluating the function for all combinations of (RETURN_TIME_AS_PERIOD, time, day, month, year present)"""
    rule = "C08.R4"
    import itertools
    from ..core.minieval import Evaluator, Unknown
    f = ctx.ix.func(P.PARSER + "._get_period")
    wrong, n = [], 0
    try:
        for rtp, tm, dy, mo, yr in itertools.product((False, True), repeat=5):
            have = {"time": tm, "day": dy, "month": mo, "year": yr}
            if not any(have.values()):
                continue            # nothing stated: the fallback through _results() is not this rule's subject

            def oracle(e, env, have=have, rtp=rtp):
                t = " ".join(ast.unparse(e).split())
                if t in ("self.settings.RETURN_TIME_AS_PERIOD", "self._settings.RETURN_TIME_AS_PERIOD"):
                    return rtp
                if isinstance(e, ast.Call) and ast.unparse(e.func) == "getattr" and len(e.args) >= 2 and ast.unparse(e.args[0]) == "self":
                    k = e.args[1].value if isinstance(e.args[1], ast.Constant) else env.get(getattr(e.args[1], "id", None))
                    if k in have:
                        return have[k] or None
                if isinstance(e, ast.Attribute) and isinstance(e.value, ast.Name) and e.value.id == "self" and e.attr in have:
                    return have[e.attr] or None
                raise Unknown(t)
            got = Evaluator(oracle).call(f.node)
            want = "time" if (rtp and tm) else "day" if (tm or dy) else "month" if mo else "year"
            n += 1
            if got != want:
                wrong.append(({k for k, v in have.items() if v} | ({"RETURN_TIME_AS_PERIOD"} if rtp else set()), got, want))
    except Unknown as e_:
        chk.error(rule, "_parser._get_period: the period is decided by something this rule cannot evaluate (%s)" % e_)
        return
    chk.ob(rule, "_get_period: 'time' under RETURN_TIME_AS_PERIOD with a clock time, else day if a time or day is present, else month, else year "
                 "(%d combinations evaluated)" % n, not wrong, "present -> (period, expected): %s" % [(sorted(a_), b_, c_) for a_, b_, c_ in wrong[:3]],
           key={"function": f.key, "construct": "period order"}, file=f.file, function=f.qual, line=f.node.lineno)
    chk.floor(rule, n, 30, "combinations of present parts")


def token_conservation_rule(ctx, chk, rule):
    """the absolute parser assigns each numeric token to one date part; when a later token claims a part that is taken and the earlier
    token cannot be re-read under the same directive, the EARLIER token is set aside (unset_tokens) and handed to a part that is still
    empty once all tokens are seen ('17 March 2019' under YMD: 17 is first taken as the year, 2019 displaces it, 17 becomes the day).
    The token set aside must be the displaced one - read back from `_token_<component>` of the very component being re-assigned -
    and the reader must take the tuple apart in the writer's order."""
    cls = ctx.ix.cls("dateparser.parser:_parser")
    funcs = [f for f in ctx.ix.funcs.values() if f.key.startswith(cls.key + ".")]
    writes = []
    for f in funcs:
        for c in iter_own_nodes(f.node):
            if isinstance(c, ast.Call) and isinstance(c.func, ast.Attribute) and c.func.attr in ("append", "insert", "extend") \
                    and ast.unparse(c.func.value) == "self.unset_tokens":
                writes.append((f, c))
    chk.floor(rule + ".writes", len(writes), 1, "places where a token is set aside")
    width = None
    for f, c in writes:
        t = c.args[-1] if c.args else None
        key = {"function": f.key, "construct": "token set aside"}
        if not (c.func.attr == "append" and isinstance(t, ast.Tuple) and len(t.elts) == 3 and all(isinstance(e, ast.Name) for e in t.elts)):
            raise AnalysisError(rule, "%s line %d: unset_tokens written in an unknown form" % (f.qual, c.lineno))
        width = 3
        tok, typ, comp = (e.id for e in t.elts)
        g = CFG(f.node)
        at = g.node_of_expr(f.node, c)
        # tok and typ come from one unpacking of getattr(self, '_token_%s' % comp)
        ok_src = False
        why = ""
        # (the entry "definition" also reaches the handler along the exception edge of the unpacking itself: an unbound name, not a token)
        params = set(f.params())
        rd_t = g.reaching_defs(tok).get(at, set()) - ({g.entry.id} if tok not in params else set())
        rd_y = g.reaching_defs(typ).get(at, set()) - ({g.entry.id} if typ not in params else set())
        if rd_t and rd_t == rd_y and g.entry.id not in rd_t:
            ok_src = True
            for d in rd_t:
                st = g.nodes[d].stmt
                v = getattr(st, "value", None)
                tg = st.targets[0] if isinstance(st, ast.Assign) and len(st.targets) == 1 else None
                good = isinstance(tg, ast.Tuple) and [ast.unparse(e) for e in tg.elts] == [tok, typ] and isinstance(v, ast.Call) \
                    and ast.unparse(v.func) == "getattr" and len(v.args) >= 2 and ast.unparse(v.args[0]) == "self" \
                    and isinstance(v.args[1], ast.BinOp) and isinstance(v.args[1].op, ast.Mod) and isinstance(v.args[1].left, ast.Constant) \
                    and v.args[1].left.value == "_token_%s" and ast.unparse(v.args[1].right) == comp
                if not good:
                    ok_src = False
                    why = "bound by `%s`" % " ".join(ast.unparse(st).split())[:70]
        else:
            why = "`%s` / `%s` are %s" % (tok, typ, "parameters of the function (the token being placed now)" if g.entry.id in (rd_t | rd_y) else "bound by different statements")
        chk.ob(rule, "%s line %d: the token set aside is the one read back from _token_<%s>" % (f.qual, c.lineno, comp), ok_src,
               "the tuple put on unset_tokens is not the displaced token: %s; the token that keeps the part is later ALSO given to an empty part "
               "(e.g. day=2019) and the date is lost" % why, key=key, file=f.file, function=f.qual, line=c.lineno,
               text=" ".join(ast.unparse(c).split())[:100])
        # the part is then given to a different token in the same block
        blk = _block_of(f.node, c)
        placed = [x for st in blk for x in ast.walk(st) if isinstance(x, ast.Call) and ast.unparse(x.func) == "set_and_return"]
        ok_new = bool(placed) and all(x.args and isinstance(x.args[0], ast.Name) and x.args[0].id != tok and len(x.args) > 2
                                      and ast.unparse(x.args[2]) == comp for x in placed)
        chk.ob(rule, "%s line %d: the part is then given to the other token" % (f.qual, c.lineno), ok_new,
               "after setting `%s` aside the same block does not place a different token into `%s`" % (tok, comp),
               key={"function": f.key, "construct": "displacing token placed"}, file=f.file, function=f.qual, line=c.lineno)
    # reader
    reads = []
    for f in funcs:
        for lp in iter_own_nodes(f.node):
            if isinstance(lp, ast.For) and ast.unparse(lp.iter) == "self.unset_tokens":
                reads.append((f, lp))
    chk.floor(rule + ".reads", len(reads), 1, "loops that hand set-aside tokens to empty parts")
    for f, lp in reads:
        tg = lp.target
        names = [ast.unparse(e) for e in tg.elts] if isinstance(tg, ast.Tuple) else []
        ok = len(names) == (width or 3)
        ints = [x for x in ast.walk(lp) if isinstance(x, ast.Call) and ast.unparse(x.func) == "int"]
        ok = ok and bool(ints) and all(ast.unparse(x.args[0]) == names[0] for x in ints)
        guard = [n for n in ast.walk(lp) if isinstance(n, ast.If)]
        ok_g = bool(guard) and all(any("".join(ast.unparse(a).split()) == names[1] + "==0" and p_ for a, p_ in conjuncts(gd.test, True)) for gd in guard[:1]) if len(names) > 1 else False
        chk.ob(rule, "%s line %d: the reader unpacks (token, type, component) in the writer's order and converts only numeric tokens" % (f.qual, lp.lineno),
               ok and ok_g, "target %s, int() of %s, guard %s" % (names, [ast.unparse(x.args[0]) for x in ints], [ast.unparse(gd.test) for gd in guard[:1]]),
               key={"function": f.key, "construct": "set-aside reader"}, file=f.file, function=f.qual, line=lp.lineno)


def _block_of(fn, node):
    """innermost statement list containing the statement of `node`"""
    best = []
    for parent in ast.walk(fn):
        for field in ("body", "orelse", "finalbody", "handlers"):
            blk = getattr(parent, field, None)
            if isinstance(blk, list) and blk and isinstance(blk[0], ast.stmt):
                for st in blk:
                    if not isinstance(st, (ast.If, ast.For, ast.While, ast.Try, ast.With, ast.FunctionDef)) and any(x is node for x in ast.walk(st)):
                        best = blk
    return best



def nospace_period_rule(ctx, chk, rule):
    """the no-spaces parser reports the period from the format that matched: 'day' when the format has a day (or any clock) directive,
    'month' when it has a month but no day, 'year' otherwise.  The table is scanned in sorted key order and the first hit wins, so the
    finer part must come first in that order and no directive may sit under the wrong part."""
    NS = ctx.ix.cls("dateparser.parser:_no_spaces_parser")
    lit = NS.attrs.get("period")
    try:
        table = ast.literal_eval(lit)
    except Exception:
        raise AnalysisError(rule, "_no_spaces_parser.period is not a literal")
    f = ctx.ix.func("dateparser.parser:_no_spaces_parser._get_period")
    fmtp = f.params()[1]
    loops = [n for n in iter_own_nodes(f.node) if isinstance(n, ast.For)]
    if not loops:
        raise AnalysisError(rule, "_get_period: loop over the period table not found")
    outer = loops[0]
    it = outer.iter
    order = list(table)
    if isinstance(it, ast.Call) and ast.unparse(it.func) == "sorted":
        kw = {k.arg: k.value for k in it.keywords}
        rev = kw.get("reverse")
        keyf = kw.get("key")
        by_name = keyf is None or (isinstance(keyf, ast.Lambda) and ast.unparse(keyf.body) in ("%s[0]" % keyf.args.args[0].arg, keyf.args.args[0].arg))
        if not by_name:
            raise AnalysisError(rule, "_get_period: unknown sort key %s" % ast.unparse(keyf))
        order = sorted(table, reverse=bool(rev is not None and isinstance(rev, ast.Constant) and rev.value))
    elif "period" not in ast.unparse(it):
        raise AnalysisError(rule, "_get_period iterates %s" % ast.unparse(it))
    fine = {"day": 0, "month": 1, "year": 2}
    chk.ob(rule, "_no_spaces_parser._get_period tries the finer period first (%s)" % order,
           all(k in fine for k in order) and [fine[k] for k in order] == sorted(fine[k] for k in order),
           "scan order %s: a format with a month and a day is reported as the coarser period" % order,
           key={"function": f.key, "construct": "scan order"}, file=f.file, function=f.qual, line=outer.lineno)
    want = {"%d": "day", "%m": "month"}
    for drv, part in want.items():
        homes = [k for k, v in table.items() if drv in v]
        chk.ob(rule, "directive %s stands for the %s period only" % (drv, part), homes == [part], "listed under %s" % homes,
               key={"function": f.key, "construct": "directive " + drv}, file=f.file, function="_no_spaces_parser.period", line=None)
    stray = sorted(d for v in table.values() for d in v if d in ("%Y", "%y"))
    chk.ob(rule, "no year directive is listed under a finer period", not stray, "%s listed" % stray,
           key={"function": f.key, "construct": "year directives"}, file=f.file, function="_no_spaces_parser.period", line=None)
    body = ast.Module(body=outer.body, type_ignores=[])
    hit = [n for n in ast.walk(body) if isinstance(n, ast.Return)]
    tests = [n for n in ast.walk(body) if isinstance(n, ast.If)]
    tgt = outer.target.elts[0].id if isinstance(outer.target, ast.Tuple) and isinstance(outer.target.elts[0], ast.Name) else None
    def _membership(t):
        # `drv in format_string`, directly or as the element of any(... for drv in pdrv)
        if isinstance(t, ast.Compare):
            return isinstance(t.ops[0], ast.In) and ast.unparse(t.comparators[0]) == fmtp
        if isinstance(t, ast.Call) and ast.unparse(t.func) == "any" and len(t.args) == 1 and isinstance(t.args[0], (ast.GeneratorExp, ast.ListComp)):
            return _membership(t.args[0].elt)
        return False
    # decided by evaluating the function: a format made of one listed directive answers the row that lists it, anything else 'year'
    from ..core.minieval import Evaluator, Unknown
    clsp = f.params()[0]

    def oracle(e, env):
        if isinstance(e, ast.Attribute) and e.attr == "period" and isinstance(e.value, ast.Name) and e.value.id in (clsp, "self", "cls"):
            return dict(table)
        raise Unknown(ast.unparse(e)[:40])
    wrong_hit, wrong_rest = [], []
    try:
        for row, dirs in sorted(table.items()):
            for d_ in dirs:
                first = next(k_ for k_ in sorted(table) if d_ in table[k_])
                got = Evaluator(oracle).call(f.node, {clsp: object(), fmtp: "x" + d_ + "x"})
                if got != first:
                    wrong_hit.append((d_, got))
        for probe in ("", "%Y", "%y %Y"):
            got = Evaluator(oracle).call(f.node, {clsp: object(), fmtp: probe})
            if got != "year":
                wrong_rest.append((probe, got))
    except Unknown as e_:
        chk.error(rule, "_no_spaces_parser._get_period: the answer is computed by something this rule cannot evaluate (%s)" % e_)
        return
    chk.ob(rule, "a directive found in the format returns the name of its table row", not wrong_hit, "(directive, answer): %s" % wrong_hit[:3],
           key={"function": f.key, "construct": "hit returns row"}, file=f.file, function=f.qual, line=outer.lineno)
    chk.ob(rule, "a format without day and month directives has period 'year'", not wrong_rest, "(format, answer): %s" % wrong_rest[:3],
           key={"function": f.key, "construct": "fallback year"}, file=f.file, function=f.qual, line=f.node.lineno)

"""C16 — shipped generated data equals what its sources define (translation validation).

R1 every language module == modelled generator(CLDR json, supplementary yaml, base yaml), byte for byte
R2 pickled timezone table == table rebuilt from timezones.py (symbolic pickle disassembly)
R3 language index == modules / locales
No generator is run and nothing from the repository is imported.
"""
import ast
import hashlib
import json
import zlib

import regex

from ..core import pickledis, yamlsub
from ..core.data import LANG_DIR, LangData, module_literal
from ..core.effects import fold_str
from ..core.index import Index, iter_own_nodes, iter_own_stmts
from ..core.repo import AnalysisError

LEVEL = "translation_validation"
EXPLANATION = (
    "Static comparison of artefacts: each shipped language module is re-derived from its CLDR JSON + supplementary "
    "YAML + base YAML by a model of write_complete_data whose literals (directories, excluded languages, the {0} "
    "rewrite, json.dumps arguments, framing) are extracted from the generator's AST on every run and whose skeleton "
    "is conformance-checked, then compared byte for byte; the pickled timezone table is disassembled symbolically "
    "(opcode stream -> value tree, nothing called) and compared entry by entry with the table rebuilt from "
    "timezones.py by a conformance-checked model of build_tz_offsets; the language index is compared with the "
    "module set and their locale_specific keys."
)
GEN = "dateparser_scripts/write_complete_data.py"


def extra_coverage(chk):
    return {"programs": chk.extra.get("programs", 0), "disagreements_checked": chk.extra.get("disagreements_checked", 0)}


def run(ctx, chk):
    chk.extra["programs"] = 0
    chk.extra["disagreements_checked"] = 0
    r1(ctx, chk)
    r2(ctx, chk)
    r3(ctx, chk)


# ---------------------------------------------------------------------------
def _norm_fingerprint(fn_node):
    """ast.dump with local names alpha-renamed in order of first appearance, docstring dropped"""
    import copy

    node = copy.deepcopy(fn_node)
    if node.body and isinstance(node.body[0], ast.Expr) and isinstance(node.body[0].value, ast.Constant) \
            and isinstance(node.body[0].value.value, str):
        node.body = node.body[1:]
    # annotations and nested docstrings say nothing about behaviour
    for n in ast.walk(node):
        if isinstance(n, ast.arg):
            n.annotation = None
        elif isinstance(n, (ast.FunctionDef, ast.AsyncFunctionDef)):
            n.returns = None
            if n is not node and n.body and isinstance(n.body[0], ast.Expr) and isinstance(n.body[0].value, ast.Constant) \
                    and isinstance(n.body[0].value.value, str) and len(n.body) > 1:
                n.body = n.body[1:]
    # two-armed ifs in one polarity: `if not c: B else: A` reads as `if c: A else: B`
    for n in ast.walk(node):
        if isinstance(n, ast.If) and n.orelse:
            while isinstance(n.test, ast.UnaryOp) and isinstance(n.test.op, ast.Not):
                n.test, n.body, n.orelse = n.test.operand, n.orelse, n.body
    names = {}

    def nm(x):
        if x not in names:
            names[x] = "v%d" % len(names)
        return names[x]
    for a in node.args.args:
        a.arg = nm(a.arg)
    for n in ast.walk(node):
        if isinstance(n, ast.Name):
            if n.id in ("isinstance", "list", "dict", "OrderedDict", "set", "len", "str"):
                continue
            n.id = nm(n.id) if n.id != node.name else "SELF"
    node.name = "f"
    return hashlib.sha256(ast.dump(node, annotate_fields=False).encode()).hexdigest()[:16]


COMBINE_DICTS_FINGERPRINT = None  # filled by _model_fingerprint()


def _model_fingerprint():
    src = '''
def combine_dicts(primary_dict, supplementary_dict):
    combined_dict = OrderedDict()
    for key, value in primary_dict.items():
        if key in supplementary_dict:
            if isinstance(value, list):
                combined_dict[key] = value + supplementary_dict[key]
            elif isinstance(value, dict):
                combined_dict[key] = combine_dicts(value, supplementary_dict[key])
            else:
                combined_dict[key] = supplementary_dict[key]
        else:
            combined_dict[key] = primary_dict[key]
    remaining_keys = [
        key for key in supplementary_dict.keys() if key not in primary_dict.keys()
    ]
    for key in remaining_keys:
        combined_dict[key] = supplementary_dict[key]
    return combined_dict
'''
    return _norm_fingerprint(ast.parse(src).body[0])


def _combine(primary, supplementary):
    out = {}
    for k, v in primary.items():
        if k in supplementary:
            if isinstance(v, list):
                out[k] = v + supplementary[k]
            elif isinstance(v, dict):
                out[k] = _combine(v, supplementary[k])
            else:
                out[k] = supplementary[k]
        else:
            out[k] = primary[k]
    for k in [k for k in supplementary.keys() if k not in primary.keys()]:
        out[k] = supplementary[k]
    return out


def _gen_params(ctx, rule):
    """literals of the generator, from its AST"""
    repo = ctx.repo
    ix = Index(repo, roots=["dateparser_scripts"], extra=[])
    m = ix.modules.get("dateparser_scripts.write_complete_data")
    if m is None:
        raise AnalysisError(rule, "generator %s not found" % GEN)
    p = {}

    def const(name):
        v = fold_str(ast.Name(id=name, ctx=ast.Load()), m.toplevel, ix)
        if v is None:
            raise AnalysisError(rule, "generator constant %s is not a string literal" % name)
        return v
    import posixpath
    for k in ("cldr_date_directory", "supplementary_directory", "supplementary_date_directory",
              "translation_data_directory", "date_translation_directory"):
        p[k] = posixpath.normpath(posixpath.join("dateparser_scripts", const(k))) + "/"
    # os.chdir(dirname(__file__)) makes the relative directories relative to dateparser_scripts/
    if not any(isinstance(n, ast.Call) and ast.unparse(n.func) == "os.chdir" for n in iter_own_nodes(m.toplevel.node)):
        raise AnalysisError(rule, "generator no longer chdir()s to its own directory")
    ol = ix.modules.get("dateparser_scripts.order_languages")
    if ol is None or "avoid_languages" not in ol.assigns:
        raise AnalysisError(rule, "order_languages.avoid_languages not found")
    p["avoid"] = set(ast.literal_eval(ol.assigns["avoid_languages"][-1]))
    # languages = (cldr listing - avoid) | supplementary listing, extension stripped by [:-5]
    txt = ast.unparse(m.tree)
    for frag in ("x[:-5]", "os.listdir(cldr_date_directory)", "- avoid_languages",
                 "os.listdir(supplementary_date_directory)", "set(cldr_languages).union(set(supplementary_languages))"):
        if frag not in txt:
            raise AnalysisError(rule, "generator language-set computation changed (missing %r)" % frag)
    # relative pattern rewrite
    rp = m.assigns.get("RELATIVE_PATTERN")
    if not rp or not isinstance(rp[-1], ast.Call):
        raise AnalysisError(rule, "RELATIVE_PATTERN not found")
    p["rel_pat"] = fold_str(rp[-1].args[0], m.toplevel, ix)
    f = m.functions.get("_modify_relative_data")
    subs = [n for n in iter_own_nodes(f.node) if isinstance(n, ast.Call) and ast.unparse(n.func) == "RELATIVE_PATTERN.sub"] if f else []
    if len(subs) != 1 or not isinstance(subs[0].args[0], ast.Constant):
        raise AnalysisError(rule, "_modify_relative_data: RELATIVE_PATTERN.sub(<literal>, string) not found")
    p["rel_repl"] = subs[0].args[0].value
    # in-place rewrite of every list element: value[i] = string
    if "value[i] = string" not in ast.unparse(f.node):
        raise AnalysisError(rule, "_modify_relative_data no longer rewrites the lists in place")
    md = m.functions.get("_modify_data")
    t = ast.unparse(md.node) if md else ""
    for frag in ("language_data.get('relative-type-regex', {})", "language_data.get('locale_specific', {})",
                 "info.get('relative-type-regex', {})"):
        if frag not in t:
            raise AnalysisError(rule, "_modify_data skeleton changed (missing %r)" % frag)
    # per-language assembly
    g = m.functions.get("_get_complete_date_translation_data")
    t = ast.unparse(g.node) if g else ""
    for frag in ("json.load(f, object_pairs_hook=OrderedDict)", "combine_dicts(cldr_data, supplementary_data)",
                 "if 'name' not in complete_data", "complete_data['name'] = language",
                 "cldr_date_directory + language + '.json'", "supplementary_date_directory + language + '.yaml'",
                 "if language in cldr_languages", "if language in supplementary_languages"):
        if frag not in t:
            raise AnalysisError(rule, "_get_complete_date_translation_data skeleton changed (missing %r)" % frag)
    w = m.functions.get("write_complete_data")
    if w is None:
        raise AnalysisError(rule, "write_complete_data not found")
    t = ast.unparse(w.node)
    order = ["_get_complete_date_translation_data(language)", "combine_dicts(date_translation_data, base_data)",
             "_modify_data(date_translation_data)", "json.dumps(date_translation_data"]
    idx = [t.find(x) for x in order]
    if -1 in idx or idx != sorted(idx):
        raise AnalysisError(rule, "write_complete_data skeleton changed: %s" % dict(zip(order, idx)))
    if "supplementary_directory + 'base_data.yaml'" not in t:
        raise AnalysisError(rule, "base data file name changed")
    dumps = [n for n in iter_own_nodes(w.node) if isinstance(n, ast.Call) and ast.unparse(n.func) == "json.dumps"]
    if len(dumps) != 1:
        raise AnalysisError(rule, "expected one json.dumps call")
    try:
        p["dumps_kwargs"] = {k.arg: ast.literal_eval(k.value) for k in dumps[0].keywords}
    except Exception:
        raise AnalysisError(rule, "json.dumps keyword arguments are not literals")
    # framing: ("info = " + translation_data + "\n").encode("utf-8")
    frame = None
    for n in iter_own_nodes(w.node):
        if isinstance(n, ast.Assign) and ast.unparse(n.targets[0]) == "out_text":
            frame = n.value
    ok = isinstance(frame, ast.Call) and isinstance(frame.func, ast.Attribute) and frame.func.attr == "encode" \
        and isinstance(frame.func.value, ast.BinOp)
    if not ok:
        raise AnalysisError(rule, "out_text framing not recognised")
    parts = []
    def flat(e):
        if isinstance(e, ast.BinOp) and isinstance(e.op, ast.Add):
            flat(e.left)
            flat(e.right)
        else:
            parts.append(e)
    flat(frame.func.value)
    if len(parts) != 3 or not isinstance(parts[0], ast.Constant) or not isinstance(parts[2], ast.Constant) \
            or ast.unparse(parts[1]) != "translation_data":
        raise AnalysisError(rule, "out_text framing not prefix + data + suffix")
    p["prefix"], p["suffix"] = parts[0].value, parts[2].value
    p["encoding"] = frame.args[0].value if frame.args else "utf-8"
    it = None
    for n in iter_own_nodes(w.node):
        if isinstance(n, ast.Assign) and ast.unparse(n.targets[0]) == "init_text":
            it = fold_str(n.value, w, ix)
    if it is None:
        raise AnalysisError(rule, "init_text is not a literal")
    p["init_text"] = it
    # the two copies of combine_dicts and the model
    su = ix.modules.get("dateparser_scripts.utils")
    c1 = su.functions.get("combine_dicts") if su else None
    c2 = ctx.ix.module("dateparser.utils").functions.get("combine_dicts")
    if c1 is None or c2 is None:
        raise AnalysisError(rule, "combine_dicts not found in dateparser_scripts.utils / dateparser.utils")
    fp = _model_fingerprint()
    p["combine_fp"] = (_norm_fingerprint(c1.node), _norm_fingerprint(c2.node), fp)
    # generator imports combine_dicts from dateparser_scripts.utils
    if m.imports.get("combine_dicts") != ("attr", "dateparser_scripts.utils", "combine_dicts"):
        raise AnalysisError(rule, "generator no longer uses dateparser_scripts.utils.combine_dicts")
    return p


def r1(ctx, chk):
    rule = "C16.R1"
    repo = ctx.repo
    p = _gen_params(ctx, rule)
    a, b, model = p["combine_fp"]
    if a != model:
        raise AnalysisError(rule, "dateparser_scripts.utils.combine_dicts no longer matches the model (fingerprint %s != %s)" % (a, model))
    chk.ob(rule, "dateparser.utils.combine_dicts (runtime overlay) is the generator's combine_dicts", b == a,
           "the two copies of combine_dicts differ: locale_specific overlays are combined differently at run time "
           "than at generation time", key={"construct": "combine_dicts copies identical"},
           file="dateparser/utils/__init__.py", function="combine_dicts", line=None)
    cldr = {f[:-5] for f in repo.listdir(p["cldr_date_directory"]) if f.endswith(".json")} - p["avoid"]
    sup = [f[:-5] for f in repo.listdir(p["supplementary_date_directory"]) if f.endswith(".yaml")]
    langs = sorted(cldr | set(sup))
    chk.floor(rule, len(langs), 100, "languages defined by the sources")
    base = yamlsub.loads(repo.text(p["supplementary_directory"] + "base_data.yaml"), "base_data.yaml")
    pat = regex.compile(p["rel_pat"])

    def modrel(rd):
        for k, v in rd.items():
            for i, s in enumerate(v):
                v[i] = pat.sub(p["rel_repl"], s)
    shipped = {f[:-3] for f in repo.listdir(LANG_DIR) if f.endswith(".py") and f != "__init__.py"}
    for lang in langs:
        c, s = {}, {}
        if lang in cldr:
            try:
                c = json.loads(repo.text(p["cldr_date_directory"] + lang + ".json"))
            except ValueError as e:
                raise AnalysisError(rule, "CLDR json for %s does not parse: %s" % (lang, e))
        if lang in sup:
            s = yamlsub.loads(repo.text(p["supplementary_date_directory"] + lang + ".yaml"), lang + ".yaml")
        d = _combine(c, s)
        if "name" not in d:
            d["name"] = lang
        d = _combine(d, base)
        modrel(d.get("relative-type-regex", {}))
        for _, info in d.get("locale_specific", {}).items():
            modrel(info.get("relative-type-regex", {}))
        want = (p["prefix"] + json.dumps(d, **p["dumps_kwargs"]) + p["suffix"]).encode(p["encoding"])
        rel = "%s/%s.py" % (LANG_DIR, lang)
        have = repo.bytes(rel) if repo.exists(rel) else None
        chk.extra["programs"] += 1
        ok = have == want
        detail = ""
        if not ok:
            chk.extra["disagreements_checked"] += 1
            if have is None:
                detail = "module missing"
            else:
                hl, wl = have.decode("utf-8", "replace").split("\n"), want.decode("utf-8").split("\n")
                for i, (x, y) in enumerate(zip(hl, wl)):
                    if x != y:
                        detail = "first difference at line %d: shipped %r, sources give %r" % (i + 1, x[:80], y[:80])
                        break
                else:
                    detail = "length differs: shipped %d lines, sources give %d" % (len(hl), len(wl))
        chk.ob(rule, "module %s.py == generator(sources)" % lang, ok, detail,
               key={"module": lang}, file=rel, function="info", line=None)
        if lang in ("en", "fr"):
            chk.sample({"rule": rule, "module": lang, "bytes": len(want), "sha256": hashlib.sha256(want).hexdigest()[:16],
                        "verdict": "identical" if ok else "DIFFERENT"})
    extra = shipped - set(langs)
    chk.ob(rule, "no module without sources", not extra, "modules with no CLDR/YAML source: %s" % sorted(extra),
           key={"module": "<extra>"}, file=LANG_DIR, function="-", line=None)
    init = repo.text(LANG_DIR + "/__init__.py") if repo.exists(LANG_DIR + "/__init__.py") else None
    chk.ob(rule, "date_translation_data/__init__.py is empty as generated", init == "", "",
           key={"module": "__init__"}, file=LANG_DIR + "/__init__.py", function="-", line=None)
    dinit = repo.text("dateparser/data/__init__.py") if repo.exists("dateparser/data/__init__.py") else None
    chk.ob(rule, "dateparser/data/__init__.py == generator's init_text", dinit == p["init_text"], "",
           key={"module": "data/__init__"}, file="dateparser/data/__init__.py", function="-", line=None)
    chk.extra["programs"] += 2
    chk.assume("stdlib json.dumps with the extracted keyword arguments is the generator's serialiser")
    chk.assume("the YAML-subset reader agrees with ruamel's RoundTripLoader on the subset (cross-validated against PyYAML on all 39 files at development time); constructs outside the subset give exit 2")


# ---------------------------------------------------------------------------
def tz_model(ctx, rule):
    """ordered [(name, pattern, offset seconds)] and the search parts, as build_tz_offsets produces them.

    The generator is read as a nest of three loops over the literal table with `append(<part>)` / `yield get_offset(..)`
    statements (and an inner loop over the zone group's replace rules); every expression in it is evaluated by a small
    evaluator that knows only: subscripts of the loop variables, `%` formatting, re.sub(a, b, x[, count]), tuples, locals bound
    once, and the call of the nested get_offset (parameters bound by position/keyword, defaults from its signature).
    Anything outside that language is an analysis error (exit 2), never a guess."""
    ix = ctx.ix
    f = ix.func("dateparser.timezone_parser:build_tz_offsets")
    tl = module_literal(ctx.repo, "dateparser/timezones.py", "timezone_info_list")
    nested = [n for n in f.node.body if isinstance(n, ast.FunctionDef)]
    loops = [n for n in f.node.body if isinstance(n, ast.For)]
    if not nested and len(loops) == 1:
        # the helper lifted out of the generator: the module-level function of the same module that the loop nest calls in its yields
        called = {ast.unparse(c.func) for y in ast.walk(loops[0]) if isinstance(y, ast.Yield) and y.value is not None
                  for c in ast.walk(y.value) if isinstance(c, ast.Call) and isinstance(c.func, ast.Name)}
        cands = [g_.node for g_ in ix.funcs.values() if g_.module is f.module and g_.parent is None and g_.cls is None
                 and isinstance(g_.node, ast.FunctionDef) and g_.node.name in called]
        if len(cands) == 1:
            nested = cands
    rest = [n for n in f.node.body if not isinstance(n, (ast.FunctionDef, ast.For)) and not (isinstance(n, ast.Expr) and isinstance(n.value, ast.Constant))]
    if len(nested) > 1 or len(loops) != 1 or rest:
        raise AnalysisError(rule, "build_tz_offsets: expected at most one helper (nested or module-level) and one loop nest")
    helper = nested[0] if nested else ast.parse("def _no_helper_():\n    return None").body[0]     # entries may be written out in the yields
    sink = f.params()[0]

    class Unknown(Exception):
        pass

    def ev(e, env, depth=0):
        if depth > 12:
            raise Unknown("expression too deep")
        if isinstance(e, ast.Constant):
            return e.value
        if isinstance(e, ast.Name):
            if e.id in env:
                return env[e.id]
            raise Unknown("name %s" % e.id)
        if isinstance(e, ast.Tuple):
            return tuple(ev(x, env, depth + 1) for x in e.elts)
        if isinstance(e, ast.List):
            return [ev(x, env, depth + 1) for x in e.elts]
        if isinstance(e, ast.Subscript) and isinstance(e.slice, ast.Constant):
            return ev(e.value, env, depth + 1)[e.slice.value]
        if isinstance(e, ast.BinOp) and isinstance(e.op, ast.Mod):
            return ev(e.left, env, depth + 1) % ev(e.right, env, depth + 1)
        if isinstance(e, ast.Attribute) and ast.unparse(e) in ("re.IGNORECASE", "re.I"):
            return "IGNORECASE"
        if isinstance(e, ast.Call):
            fn = ast.unparse(e.func)
            if fn == "re.sub" and 3 <= len(e.args) <= 4 and all(k.arg in ("count",) for k in e.keywords):
                a, b, x = (ev(v, env, depth + 1) for v in e.args[:3])
                cnt = ev(e.args[3], env, depth + 1) if len(e.args) == 4 else 0
                for k in e.keywords:
                    cnt = ev(k.value, env, depth + 1)
                try:
                    return regex.sub(a, b, x, count=cnt)
                except regex.error as ex_:
                    # the real generator raises the same error at this point of a rebuild (the template is expanded when the pattern matches)
                    build_errors.append((e.lineno, "re.sub(%r, %r, %r): %s" % (a, b, x, ex_)))
                    return x
            if fn == "re.compile" and 1 <= len(e.args) <= 2:
                fl = ev(e.args[1], env, depth + 1) if len(e.args) == 2 else None
                for k in e.keywords:
                    if k.arg == "flags":
                        fl = ev(k.value, env, depth + 1)
                return ("compiled", ev(e.args[0], env, depth + 1), fl)
            if fn == "timedelta" and not e.args and [k.arg for k in e.keywords] == ["seconds"]:
                return ("timedelta", ev(e.keywords[0].value, env, depth + 1))
            if fn == helper.name:
                ps = [a.arg for a in helper.args.args]
                d = helper.args.defaults
                henv = {p_: ev(d_, {}, depth + 1) for p_, d_ in zip(ps[len(ps) - len(d):], d)}
                for p_, a in zip(ps, e.args):
                    henv[p_] = ev(a, env, depth + 1)
                for k in e.keywords:
                    if k.arg not in ps:
                        raise Unknown("keyword %s" % k.arg)
                    henv[k.arg] = ev(k.value, env, depth + 1)
                body = [x for x in helper.body if not (isinstance(x, ast.Expr) and isinstance(x.value, ast.Constant))]
                for st in body[:-1]:
                    if isinstance(st, ast.Assign) and len(st.targets) == 1 and isinstance(st.targets[0], ast.Name):
                        henv[st.targets[0].id] = ev(st.value, henv, depth + 1)
                    else:
                        raise Unknown("statement in %s: %s" % (helper.name, ast.unparse(st)[:40]))
                if not isinstance(body[-1], ast.Return):
                    raise Unknown("%s does not end in a return" % helper.name)
                return ev(body[-1].value, henv, depth + 1)
            if isinstance(e.func, ast.Attribute) and e.func.attr == "get" and len(e.args) == 2:
                base = ev(e.func.value, env, depth + 1)
                return base.get(ev(e.args[0], env, depth + 1), ev(e.args[1], env, depth + 1))
            if isinstance(e.func, ast.Attribute) and e.func.attr == "pop" and 1 <= len(e.args) <= 2 and not e.keywords:
                # reads like .get() the first time - and takes the key out of the module-level source table for every later build
                base = ev(e.func.value, env, depth + 1)
                if isinstance(base, dict):
                    mutations.append((e.lineno, " ".join(ast.unparse(e).split())))
                    k = ev(e.args[0], env, depth + 1)
                    if len(e.args) == 2:
                        return base.get(k, ev(e.args[1], env, depth + 1))
                    return base[k]
        if isinstance(e, ast.Dict) and all(isinstance(k, ast.Constant) for k in e.keys):
            return {k.value: ev(v, env, depth + 1) for k, v in zip(e.keys, e.values)}
        raise Unknown(ast.unparse(e)[:50])

    entries, parts = [], []
    mutations = []
    build_errors = []

    def run(stmts, env):
        for st in stmts:
            if isinstance(st, ast.Expr) and isinstance(st.value, ast.Constant):
                continue
            if isinstance(st, ast.For):
                it = st.iter
                seq = tl if (isinstance(it, ast.Name) and it.id == "timezone_info_list") else ev(it, env)
                for item in seq:
                    e2 = dict(env)
                    if isinstance(st.target, ast.Name):
                        e2[st.target.id] = item
                    elif isinstance(st.target, ast.Tuple) and all(isinstance(x, ast.Name) for x in st.target.elts):
                        if len(item) != len(st.target.elts):
                            raise Unknown("unpacking in %s" % ast.unparse(st.target))
                        for x, v in zip(st.target.elts, item):
                            e2[x.id] = v
                    else:
                        raise Unknown("loop target")
                    run(st.body, e2)
                if st.orelse:
                    raise Unknown("for-else")
            elif isinstance(st, ast.Assign) and len(st.targets) == 1 and isinstance(st.targets[0], ast.Name):
                env[st.targets[0].id] = ev(st.value, env)
            elif isinstance(st, ast.Delete) and all(isinstance(t_, ast.Subscript) for t_ in st.targets):
                mutations.append((st.lineno, " ".join(ast.unparse(st).split())))      # del tz_info[...]: same effect as pop, value unused
            elif isinstance(st, ast.Expr) and isinstance(st.value, ast.Call) and isinstance(st.value.func, ast.Attribute) \
                    and st.value.func.attr == "pop" and ast.unparse(st.value.func.value) != sink:
                ev(st.value, env)
            elif isinstance(st, ast.Expr) and isinstance(st.value, ast.Call) and ast.unparse(st.value.func) == sink + ".append" and len(st.value.args) == 1:
                parts.append(ev(st.value.args[0], env))
            elif isinstance(st, ast.Expr) and isinstance(st.value, ast.Yield) and st.value.value is not None:
                v = ev(st.value.value, env)
                ok = isinstance(v, tuple) and len(v) == 2 and isinstance(v[1], dict) and set(v[1]) == {"regex", "offset"} \
                    and isinstance(v[1]["regex"], tuple) and v[1]["regex"][0] == "compiled" and v[1]["regex"][2] == "IGNORECASE" \
                    and isinstance(v[1]["offset"], tuple) and v[1]["offset"][0] == "timedelta"
                if not ok:
                    raise Unknown("yielded value is not (name, {regex: re.compile(p, re.IGNORECASE), offset: timedelta(seconds=s)})")
                entries.append((v[0], v[1]["regex"][1], v[1]["offset"][1]))
            else:
                raise Unknown("statement %s" % ast.unparse(st)[:50])
    try:
        run(loops, {})
    except Unknown as e:
        raise AnalysisError(rule, "build_tz_offsets uses a construct outside the modelled table-building language: %s" % e)
    except (KeyError, IndexError, TypeError, ValueError) as e:
        raise AnalysisError(rule, "build_tz_offsets could not be evaluated over timezones.py: %s: %s" % (type(e).__name__, e))
    seen_m = []
    for m_ in mutations:
        if m_ not in seen_m:
            seen_m.append(m_)
    ctx.tz_mutations = seen_m
    ctx.tz_build_errors = build_errors[:5]
    return tl, entries, parts


def tz_source_untouched_rule(ctx, chk, rule):
    """build_tz_offsets reads the module-level literal `timezone_info_list`; it may run more than once in a process (a cache found damaged
    again, BUILD_TZ_CACHE) and every run must see the same source: no pop / del on the table's dicts while expanding them."""
    tz_model(ctx, rule)
    f = ctx.ix.func("dateparser.timezone_parser:build_tz_offsets")
    muts = getattr(ctx, "tz_mutations", [])
    errs = getattr(ctx, "tz_build_errors", [])
    chk.ob(rule, "build_tz_offsets runs to completion over timezones.timezone_info_list", not errs,
           "a rebuild of the table raises regex.error - %s: with the shipped cache intact nothing shows, but a missing or damaged cache makes "
           "`import dateparser` fail, and keep failing, since the file is never rewritten" % (errs[0][1] if errs else ""),
           key={"function": f.key, "construct": "table build raises"}, file="dateparser/timezones.py", function="timezone_info_list", line=None)
    chk.ob(rule, "build_tz_offsets leaves timezones.timezone_info_list as it found it", not muts,
           "%s removes keys from the source table while building: the first build is complete, a second build in the same process "
           "(and the cache it writes) lacks the entries that depended on them" % "; ".join("line %d `%s`" % m for m in muts[:3]),
           key={"function": f.key, "construct": "source table mutated"}, file=f.file, function=f.qual, line=muts[0][0] if muts else f.node.lineno)


def _is_regex_reduce(v):
    return isinstance(v, pickledis.Reduce) and isinstance(v.func, pickledis.Global) and \
        v.func.module in ("regex._regex", "regex.regex", "_regex", "regex") and v.func.name in ("compile", "_compile") \
        and isinstance(v.args, tuple) and len(v.args) >= 2 and isinstance(v.args[0], str) and isinstance(v.args[1], int)


R_I, R_U, R_V0, R_V1 = 0x2, 0x20, 0x2000, 0x100


def r2(ctx, chk):
    rule = "C16.R2"
    tl, entries, parts = tz_model(ctx, rule)
    tz_source_untouched_rule(ctx, chk, rule)
    chk.floor(rule, len(entries), 500, "timezone table entries rebuilt from timezones.py")
    m = ctx.ix.module("dateparser.timezone_parser")
    cp = m.assigns.get("CACHE_PATH")
    from .util import path_parts
    cparts = path_parts(cp[-1]) if cp else None
    if cparts is None:
        raise AnalysisError(rule, "CACHE_PATH is built in a way this rule cannot follow")
    rel = "dateparser/" + "/".join(cparts)
    data = ctx.repo.bytes(rel)
    root, proto, nops = pickledis.disassemble(data)
    chk.extra["programs"] += 1
    chk.extra["pickle_opcodes"] = nops
    if not (isinstance(root, tuple) and len(root) == 4 and isinstance(root[1], list)):
        chk.ob(rule, "pickle is a 4-tuple (hash, table, regex, regex)", False, "root is %r" % (type(root).__name__,),
               key={"construct": "root shape"}, file=rel, function="-", line=None)
        return
    h, table, rx1, rx2 = root
    # hash of the literal
    fh = None
    for n in iter_own_nodes(m.toplevel.node):
        if isinstance(n, ast.Assign) and ast.unparse(n.targets[0]) == "current_hash":
            # `current_hash = <hash>` under a test, or `current_hash = <hash> if <test> else None`
            cands = [n.value] if isinstance(n.value, ast.Call) else [x for x in (n.value.body, n.value.orelse) if isinstance(x, ast.Call)] \
                if isinstance(n.value, ast.IfExp) else []
            if len(cands) == 1:
                fh = " ".join(ast.unparse(cands[0]).split())
    if fh != "zlib.crc32(str(timezone_info_list).encode('utf-8'))":
        raise AnalysisError(rule, "hash expression changed: %s" % fh)
    want_h = zlib.crc32(str(tl).encode("utf-8"))
    chk.ob(rule, "stored hash == crc32(str(timezone_info_list)) (%d)" % want_h, h == want_h,
           "stored %r; timezones.py changed without regenerating the cache (or vice versa)" % (h,),
           key={"construct": "hash"}, file=rel, function="-", line=None)
    chk.ob(rule, "table length: pickle %d == rebuilt %d" % (len(table), len(entries)), len(table) == len(entries), "",
           key={"construct": "length"}, file=rel, function="-", line=None)
    bad = 0
    for i, (have, want) in enumerate(zip(table, entries)):
        ok = False
        detail = ""
        if isinstance(have, tuple) and len(have) == 2 and isinstance(have[1], dict) and set(have[1]) == {"regex", "offset"}:
            name, d = have
            rxn, off = d["regex"], d["offset"]
            if _is_regex_reduce(rxn) and isinstance(off, pickledis.Reduce) and isinstance(off.func, pickledis.Global) \
                    and (off.func.module, off.func.name) == ("datetime", "timedelta") and len(off.args) == 3:
                secs = off.args[0] * 86400 + off.args[1]
                flags = rxn.args[1]
                ok = (name == want[0] and rxn.args[0] == want[1] and bool(flags & R_I) and secs == want[2]
                      and off.args[2] == 0 and not (flags & ~(R_I | R_U | R_V0 | R_V1)))
                if not ok:
                    detail = "pickle (%r, %r, flags=%#x, %ds) vs rebuilt %r" % (name, rxn.args[0], flags, secs, want)
            else:
                detail = "entry value is not {regex: regex.compile(..), offset: timedelta(..)}"
        else:
            detail = "entry is not (name, {regex, offset})"
        if not ok:
            bad += 1
            chk.extra["disagreements_checked"] += 1
        if not ok or i < 2 or i % 97 == 0:
            chk.ob(rule, "table[%d] %s" % (i, want[0]), ok, detail, key={"construct": "entry", "index": i, "name": want[0]},
                   file=rel, function="-", line=None)
        else:
            chk.instances[rule] = chk.instances.get(rule, 0) + 1
            chk.obligations.append((rule, "table[%d] %s" % (i, want[0]), True, ""))
            chk.nontrivial.add((rule, "table[%d]" % i))
    for label, v, fl in (("case-sensitive", rx1, 0), ("case-insensitive", rx2, R_I)):
        ok = _is_regex_reduce(v) and v.args[0] == "|".join(parts) and (v.args[1] & R_I) == fl
        chk.ob(rule, "%s search regex == '|'.join(parts) (%d parts)" % (label, len(parts)), ok,
               "pattern or flags differ" if _is_regex_reduce(v) else "not a regex.compile reduce",
               key={"construct": "search regex " + label}, file=rel, function="-", line=None)
    # _load_offsets builds the two regexes from the parts list the generator filled: same alternation, the second one case-insensitive
    from ..core.cfg import CFG
    lo = ctx.ix.func("dateparser.timezone_parser:_load_offsets")
    g = CFG(lo.node)
    gen = [s_ for s_ in iter_own_stmts(lo.node.body) if isinstance(s_, ast.Assign) and isinstance(s_.value, ast.Call)
           and any(isinstance(c_, ast.Call) and ast.unparse(c_.func) == "build_tz_offsets" and len(c_.args) == 1 and isinstance(c_.args[0], ast.Name)
                   for c_ in ast.walk(s_.value))]
    if len(gen) != 1:
        raise AnalysisError(rule, "_load_offsets: the call of build_tz_offsets(<parts list>) was not found")
    pv = [c_.args[0].id for c_ in ast.walk(gen[0].value) if isinstance(c_, ast.Call) and ast.unparse(c_.func) == "build_tz_offsets"][0]
    rd0 = g.reaching_defs(pv).get(next(iter(g.nodes_of(gen[0]))), set())
    comp = {}
    for s_ in iter_own_stmts(lo.node.body):
        if isinstance(s_, ast.Assign) and len(s_.targets) == 1 and isinstance(s_.targets[0], ast.Name) and s_.targets[0].id in ("_search_regex", "_search_regex_ignorecase") \
                and isinstance(s_.value, ast.Call) and ast.unparse(s_.value.func) in ("re.compile", "regex.compile"):
            comp[s_.targets[0].id] = s_
    if set(comp) != {"_search_regex", "_search_regex_ignorecase"}:
        raise AnalysisError(rule, "_load_offsets: the two re.compile statements of the rebuild were not found")
    for name, s_ in sorted(comp.items()):
        c_ = s_.value
        pat_e = c_.args[0] if c_.args else None
        fl_e = c_.args[1] if len(c_.args) > 1 else {k.arg: k.value for k in c_.keywords}.get("flags")
        ptxt = " ".join(ast.unparse(pat_e).split()) if pat_e is not None else ""
        from_parts = ptxt == "'|'.join(%s)" % pv
        from_other = ptxt in ("_search_regex.pattern", "_search_regex_ignorecase.pattern") and ptxt.split(".")[0] != name
        if not (from_parts or from_other):
            raise AnalysisError(rule, "_load_offsets: %s is compiled from %s" % (name, ptxt))
        flags = {x.strip().split(".")[-1] for x in (ast.unparse(fl_e) if fl_e is not None else "").split("|")} - {""}
        want_i = name.endswith("ignorecase")
        has_i = bool(flags & {"I", "IGNORECASE"})
        chk.ob(rule, "_load_offsets compiles %s %s" % (name, "case-insensitively" if want_i else "case-sensitively"), has_i == want_i and not (flags - {"I", "IGNORECASE"}),
               "`%s`: flags %s - a rebuilt cache then %s" % (" ".join(ast.unparse(s_).split())[:90], sorted(flags) or "none",
                                                             "no longer admits lower-case abbreviations ('10:00 est' keeps its zone word and is not parsed)" if want_i
                                                             else "treats every word spelled like an abbreviation as a zone"),
               key={"function": lo.key, "construct": "compile flags of " + name}, file=lo.file, function=lo.qual, line=s_.lineno)
        if from_parts:
            rd = g.reaching_defs(pv).get(next(iter(g.nodes_of(s_))), set())
            chk.ob(rule, "_load_offsets line %d compiles the parts exactly as the generator appended them" % s_.lineno, bool(rd0) and rd == rd0,
                   "`%s` is rebound between build_tz_offsets(%s) and the compile (%s): the rebuilt search regex differs from the one the "
                   "shipped cache holds" % (pv, pv, "; ".join(" ".join(ast.unparse(g.nodes[d].stmt).split())[:60] for d in sorted(rd - rd0) if g.nodes[d].stmt is not None)),
                   key={"function": lo.key, "construct": "parts list rebound"}, file=lo.file, function=lo.qual, line=s_.lineno)
    chk.sample({"rule": rule, "entries": len(entries), "pickle_protocol": proto, "opcodes": nops, "hash": want_h,
                "first": list(entries[0]), "mismatching_entries": bad})
    chk.assume("the compiled-code blob stored with each pickled regex corresponds to its (pattern, flags) pair (regex's own pickling)")


def r3(ctx, chk):
    rule = "C16.R3"
    ld = ctx.memo("langdata", lambda: LangData(ctx.repo))
    rel = "dateparser/data/languages_info.py"
    order = module_literal(ctx.repo, rel, "language_order")
    lld = module_literal(ctx.repo, rel, "language_locale_dict")
    lmap = module_literal(ctx.repo, rel, "language_map")
    mods = set(ld.languages())
    chk.extra["programs"] += 3
    chk.ob(rule, "language_order has no duplicates", len(order) == len(set(order)), "", key={"construct": "no duplicates"},
           file=rel, function="language_order", line=None)
    chk.ob(rule, "language_order == set of data modules (%d)" % len(mods), set(order) == mods,
           "only in language_order: %s; modules not listed: %s" % (sorted(set(order) - mods), sorted(mods - set(order))),
           key={"construct": "order == modules"}, file=rel, function="language_order", line=None)
    chk.ob(rule, "language_locale_dict keys == language_order", set(lld) == set(order),
           "differ: %s" % sorted(set(lld) ^ set(order)), key={"construct": "lld keys"}, file=rel,
           function="language_locale_dict", line=None)
    nloc = 0
    for lang in sorted(mods & set(lld)):
        have = lld[lang]
        want = ld.locales(lang)
        nloc += len(want)
        ok = set(have) == set(want) and len(have) == len(set(have))
        chk.ob(rule, "language_locale_dict[%s] == locale_specific keys (%d)" % (lang, len(want)), ok,
               "index lists %s, module defines %s" % (sorted(set(have) - set(want)), sorted(set(want) - set(have))),
               key={"construct": "locales", "language": lang}, file=rel, function="language_locale_dict", line=None,
               nontrivial=bool(want))
    chk.floor(rule, nloc, 200, "regional locales defined by the modules")
    for k, vals in lmap.items():
        ok = all(v in mods for v in vals)
        if not ok:
            chk.ob(rule, "language_map[%s] values are data modules" % k, ok, "unknown: %s" % [v for v in vals if v not in mods],
                   key={"construct": "language_map", "language": k}, file=rel, function="language_map", line=None)
    chk.ob(rule, "language_map values ⊆ modules (%d keys)" % len(lmap), True, "", key={"construct": "language_map"},
           file=rel, function="language_map", line=None)
    # language_map is what the repository's generator derives from language_order: base code -> [base, base-Script, ...]
    gm = Index(ctx.repo, roots=["dateparser_scripts"], extra=[]).modules.get("dateparser_scripts.order_languages")
    gf = gm.functions.get("generate_language_map") if gm else None
    ref = '''
def generate_language_map(language_order):
    data = {}
    for lang in sorted(language_order):
        if "-" not in lang:
            data[lang] = [lang]
        else:
            data[lang.split("-")[0]].append(lang)
    return data
'''
    if gf is None or _norm_fingerprint(gf.node) != _norm_fingerprint(ast.parse(ref).body[0]):
        raise AnalysisError(rule, "dateparser_scripts.order_languages.generate_language_map no longer has the modelled shape")
    want_map = {}
    for lang in sorted(order):
        if "-" not in lang:
            want_map[lang] = [lang]
        else:
            want_map.setdefault(lang.split("-")[0], []).append(lang)
    for k in sorted(set(lmap) | set(want_map)):
        ok = lmap.get(k) == want_map.get(k)
        if not ok:
            chk.ob(rule, "language_map[%s] is what generate_language_map derives from language_order" % k, False,
                   "shipped %s, generated %s" % (lmap.get(k), want_map.get(k)),
                   key={"construct": "language_map entry", "language": k}, file=rel, function="language_map", line=None)
    chk.ob(rule, "language_map == generate_language_map(language_order) (%d keys)" % len(want_map), lmap == want_map, "",
           key={"construct": "language_map generated"}, file=rel, function="language_map", line=None)
    # loader / validation consult exactly these tables
    ldr = ctx.ix.module("dateparser.languages.loader")
    ok = ldr.imports.get("language_order", (None,))[0] == "attr" and ldr.imports.get("language_locale_dict", (None,))[0] == "attr"
    chk.ob(rule, "the loader imports language_order / language_locale_dict from dateparser.data", ok, "",
           key={"construct": "loader imports"}, file=ldr.rel, function="<module>", line=None)

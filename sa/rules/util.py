"""Role-based lookups (robust to renaming of locals): find literals by their content, not by the variable they are bound to."""
import ast

from ..core.index import iter_own_nodes


def dict_literals(fn):
    return [n for n in iter_own_nodes(fn.node) if isinstance(n, ast.Dict)]


def dict_with_keys(fn, required, exact=False):
    """the dict literal of fn whose constant keys include `required` (largest match first)"""
    best = None
    for d in dict_literals(fn):
        keys = [k.value for k in d.keys if isinstance(k, ast.Constant)]
        if len(keys) != len(d.keys):
            continue
        if set(required) <= set(keys) and (not exact or set(required) == set(keys)):
            if best is None or len(d.keys) > len(best.keys):
                best = d
    return best


def name_bound_to(fn, value_node):
    for n in iter_own_nodes(fn.node):
        if isinstance(n, ast.Assign) and n.value is value_node and isinstance(n.targets[0], ast.Name):
            return n.targets[0].id
    return None


def string_list_literals(fn, min_len=2):
    out = []
    for n in iter_own_nodes(fn.node):
        if isinstance(n, (ast.List, ast.Tuple, ast.Set)) and len(n.elts) >= min_len and all(
                isinstance(e, ast.Constant) and isinstance(e.value, str) for e in n.elts):
            out.append(n)
    return out


def dict_keys_values(d):
    return {k.value: v for k, v in zip(d.keys, d.values) if isinstance(k, ast.Constant)}


def nsp_order_table(ctx):
    """{order key: set of literal prefixes its format list is sorted by} of _no_spaces_parser.date_formats, read from the dict literal
    (`"%m%d%y": sorted(self._all, key=lambda x: x.lower().startswith("%m%d%y"), ..)`) or from the loop / comprehension form that builds the
    same table through a helper (`for order in (<literal orders>): table[order] = self._helper(order)` with a helper that sorts by
    `.startswith(<its parameter>)`); None when neither form is recognised"""
    ix = ctx.ix
    nsp = ix.func("dateparser.parser:_no_spaces_parser.__init__")
    df = None
    for n in iter_own_nodes(nsp.node):
        if isinstance(n, ast.Assign) and any(isinstance(t, ast.Attribute) and t.attr == "date_formats" for t in n.targets):
            df = n.value
    if isinstance(df, ast.Dict) and all(isinstance(k, ast.Constant) for k in df.keys):
        return {k.value: {c.value for c in ast.walk(v) if isinstance(c, ast.Constant) and isinstance(c.value, str) and c.value.startswith("%")}
                for k, v in zip(df.keys, df.values)}, nsp
    # loop / comprehension form
    def helper_sorts_by_param(call):
        if not (isinstance(call, ast.Call) and isinstance(call.func, ast.Attribute) and isinstance(call.func.value, ast.Name) and call.func.value.id in ("self", "cls")
                and len(call.args) == 1 and isinstance(call.args[0], ast.Name)):
            return None
        h = nsp.cls.find_method(call.func.attr) if nsp.cls else None
        if h is None:
            return None
        p = [a for a in h.params() if a not in ("self", "cls")]
        t = " ".join(ast.unparse(h.node).split())
        import re as _re
        if len(p) == 1 and _re.search(r"\.startswith\(%s\)" % _re.escape(p[0]), t) and "sorted(self._all" in t.replace("cls._all", "self._all") and "reverse=True" in t:
            return call.args[0].id
        return None
    keys = None
    var = None
    for n in iter_own_nodes(nsp.node):
        it, tgt, val = None, None, None
        if isinstance(n, ast.DictComp) and len(n.generators) == 1 and isinstance(n.key, ast.Name):
            it, tgt, val = n.generators[0].iter, n.generators[0].target, n.value
            if not (isinstance(tgt, ast.Name) and tgt.id == n.key.id):
                continue
        elif isinstance(n, ast.For) and isinstance(n.target, ast.Name):
            it, tgt = n.iter, n.target
            calls = [c for c in ast.walk(n) if isinstance(c, ast.Call) and helper_sorts_by_param(c) == tgt.id]
            stores = [s_ for s_ in ast.walk(n) if isinstance(s_, ast.Assign) and isinstance(s_.targets[0], ast.Subscript)
                      and isinstance(s_.targets[0].slice, ast.Name) and s_.targets[0].slice.id == tgt.id]
            val = calls[0] if calls and stores else None
        if it is None or val is None:
            continue
        try:
            ks = list(ast.literal_eval(it))
        except Exception:
            continue
        v = helper_sorts_by_param(val) if isinstance(val, ast.Call) else None
        if v == tgt.id and all(isinstance(k, str) for k in ks):
            keys, var = ks, v
    if keys:
        return {k: {k} for k in keys}, nsp
    return None, nsp


def path_parts(e):
    """string components of a pathlib expression below the module's own directory, in order: Path(__file__).parent.joinpath("a", "b"),
    Path(__file__).parent / "a" / "b", os.path.join(os.path.dirname(__file__), "a", "b") -> ["a", "b"]; None when not understood"""
    if isinstance(e, ast.BinOp) and isinstance(e.op, ast.Div):
        l, r = path_parts(e.left), path_parts(e.right) if not isinstance(e.right, ast.Constant) else [e.right.value]
        if l is None or r is None:
            return None
        return l + r
    if isinstance(e, ast.Constant) and isinstance(e.value, str):
        return [e.value]
    if isinstance(e, ast.Call) and isinstance(e.func, ast.Attribute) and e.func.attr == "joinpath":
        base = path_parts(e.func.value)
        if base is None or not all(isinstance(a, ast.Constant) and isinstance(a.value, str) for a in e.args):
            return None
        return base + [a.value for a in e.args]
    if isinstance(e, ast.Call) and ast.unparse(e.func) == "os.path.join":
        base = path_parts(e.args[0]) if e.args else None
        if base is None or not all(isinstance(a, ast.Constant) and isinstance(a.value, str) for a in e.args[1:]):
            return None
        return base + [a.value for a in e.args[1:]]
    t = ast.unparse(e).replace(" ", "")
    if t in ("Path(__file__).parent", "pathlib.Path(__file__).parent", "os.path.dirname(__file__)", "Path(__file__).resolve().parent",
             "os.path.dirname(os.path.abspath(__file__))"):
        return []
    return None

"""Role-based lookups (robust to renaming of locals): find literals by their content, not by the variable they are bound to."""
import ast

from ..core.index import iter_own_nodes


def dict_literals(fn):
    return [n for n in iter_own_nodes(fn.node) if isinstance(n, ast.Dict)]


def dict_with_keys(fn, required, exact=False):
    """the dict literal of fn whose constant keys include `required` (largest match first)"""
    best = None
    for d in dict_literals(fn):
        keys = [k.value for k in d.keys if isinstance(k, ast.Constant)]
        if len(keys) != len(d.keys):
            continue
        if set(required) <= set(keys) and (not exact or set(required) == set(keys)):
            if best is None or len(d.keys) > len(best.keys):
                best = d
    return best


def name_bound_to(fn, value_node):
    for n in iter_own_nodes(fn.node):
        if isinstance(n, ast.Assign) and n.value is value_node and isinstance(n.targets[0], ast.Name):
            return n.targets[0].id
    return None


def string_list_literals(fn, min_len=2):
    out = []
    for n in iter_own_nodes(fn.node):
        if isinstance(n, (ast.List, ast.Tuple, ast.Set)) and len(n.elts) >= min_len and all(
                isinstance(e, ast.Constant) and isinstance(e.value, str) for e in n.elts):
            out.append(n)
    return out


def dict_keys_values(d):
    return {k.value: v for k, v in zip(d.keys, d.values) if isinstance(k, ast.Constant)}


def _store_carries(loop, store, call):
    """the value stored per key is the sorted list itself, a local holding it, or that local with something put in FRONT of it
    (`formats = preferred + formats`): the sorted formats always end up in the table entry"""
    v = store.value
    if v is call:
        return True
    if not isinstance(v, ast.Name):
        return False
    defs = [a for a in ast.walk(loop) if isinstance(a, ast.Assign) and len(a.targets) == 1 and isinstance(a.targets[0], ast.Name) and a.targets[0].id == v.id]
    if not defs or defs[0].value is not call:
        return False
    for a in defs[1:]:
        ok = isinstance(a.value, ast.BinOp) and isinstance(a.value.op, ast.Add) and isinstance(a.value.right, ast.Name) and a.value.right.id == v.id
        if not ok:
            return False
    return True


def nsp_order_table(ctx):
    """{order key: set of literal prefixes its format list is sorted by} of _no_spaces_parser.date_formats, read from the dict literal
    (`"%m%d%y": sorted(self._all, key=lambda x: x.lower().startswith("%m%d%y"), ..)`) or from the loop / comprehension form that builds the
    same table through a helper (`for order in (<literal orders>): table[order] = self._helper(order)` with a helper that sorts by
    `.startswith(<its parameter>)`); None when neither form is recognised"""
    ix = ctx.ix
    nsp = ix.func("dateparser.parser:_no_spaces_parser.__init__")
    df = None
    for n in iter_own_nodes(nsp.node):
        if isinstance(n, ast.Assign) and any(isinstance(t, ast.Attribute) and t.attr == "date_formats" for t in n.targets):
            df = n.value
    if isinstance(df, ast.Dict) and all(isinstance(k, ast.Constant) for k in df.keys):
        return {k.value: {c.value for c in ast.walk(v) if isinstance(c, ast.Constant) and isinstance(c.value, str) and c.value.startswith("%")}
                for k, v in zip(df.keys, df.values)}, nsp
    # loop / comprehension form
    def helper_sorts_by_param(call):
        if not (isinstance(call, ast.Call) and isinstance(call.func, ast.Attribute) and isinstance(call.func.value, ast.Name) and call.func.value.id in ("self", "cls")
                and len(call.args) == 1 and isinstance(call.args[0], ast.Name)):
            return None
        h = nsp.cls.find_method(call.func.attr) if nsp.cls else None
        if h is None:
            return None
        p = [a for a in h.params() if a not in ("self", "cls")]
        t = " ".join(ast.unparse(h.node).split())
        import re as _re
        if len(p) == 1 and _re.search(r"\.startswith\(%s\)" % _re.escape(p[0]), t) and "sorted(self._all" in t.replace("cls._all", "self._all") and "reverse=True" in t:
            return call.args[0].id
        return None
    def sorts_by(call, var_):
        """sorted(self._all, key=lambda x: x.lower().startswith(<var_>), reverse=True) written out in place"""
        if not (isinstance(call, ast.Call) and ast.unparse(call.func) == "sorted" and call.args and ast.unparse(call.args[0]) in ("self._all", "cls._all")):
            return False
        kw = {k.arg: k.value for k in call.keywords}
        k_ = kw.get("key")
        return (isinstance(k_, ast.Lambda) and len(k_.args.args) == 1 and isinstance(kw.get("reverse"), ast.Constant) and kw["reverse"].value is True
                and " ".join(ast.unparse(k_.body).split()) == "%s.lower().startswith(%s)" % (k_.args.args[0].arg, var_))
    keys = None
    var = None
    for n in iter_own_nodes(nsp.node):
        it, tgt, val = None, None, None
        if isinstance(n, ast.DictComp) and len(n.generators) == 1 and isinstance(n.key, ast.Name):
            it, tgt, val = n.generators[0].iter, n.generators[0].target, n.value
            if not (isinstance(tgt, ast.Name) and tgt.id == n.key.id):
                continue
        elif isinstance(n, ast.For) and isinstance(n.target, ast.Name):
            it, tgt = n.iter, n.target
            calls = [c for c in ast.walk(n) if isinstance(c, ast.Call) and (helper_sorts_by_param(c) == tgt.id or sorts_by(c, tgt.id))]
            stores = [s_ for s_ in ast.walk(n) if isinstance(s_, ast.Assign) and isinstance(s_.targets[0], ast.Subscript)
                      and isinstance(s_.targets[0].slice, ast.Name) and s_.targets[0].slice.id == tgt.id]
            val = calls[0] if len(calls) == 1 and len(stores) == 1 and _store_carries(n, stores[0], calls[0]) else None
        if it is None or val is None:
            continue
        try:
            ks = list(ast.literal_eval(it))
        except Exception:
            continue
        v = (tgt.id if sorts_by(val, tgt.id) else helper_sorts_by_param(val)) if isinstance(val, ast.Call) else None
        if v == tgt.id and all(isinstance(k, str) for k in ks):
            keys, var = ks, v
    if keys:
        return {k: {k} for k in keys}, nsp
    return None, nsp


def path_parts(e):
    """string components of a pathlib expression below the module's own directory, in order: Path(__file__).parent.joinpath("a", "b"),
    Path(__file__).parent / "a" / "b", os.path.join(os.path.dirname(__file__), "a", "b") -> ["a", "b"]; None when not understood"""
    if isinstance(e, ast.BinOp) and isinstance(e.op, ast.Div):
        l, r = path_parts(e.left), path_parts(e.right) if not isinstance(e.right, ast.Constant) else [e.right.value]
        if l is None or r is None:
            return None
        return l + r
    if isinstance(e, ast.Constant) and isinstance(e.value, str):
        return [e.value]
    if isinstance(e, ast.Call) and isinstance(e.func, ast.Attribute) and e.func.attr == "joinpath":
        base = path_parts(e.func.value)
        if base is None or not all(isinstance(a, ast.Constant) and isinstance(a.value, str) for a in e.args):
            return None
        return base + [a.value for a in e.args]
    if isinstance(e, ast.Call) and ast.unparse(e.func) == "os.path.join":
        base = path_parts(e.args[0]) if e.args else None
        if base is None or not all(isinstance(a, ast.Constant) and isinstance(a.value, str) for a in e.args[1:]):
            return None
        return base + [a.value for a in e.args[1:]]
    t = ast.unparse(e).replace(" ", "")
    if t in ("Path(__file__).parent", "pathlib.Path(__file__).parent", "os.path.dirname(__file__)", "Path(__file__).resolve().parent",
             "os.path.dirname(os.path.abspath(__file__))"):
        return []
    return None


def date_order_results(ctx):
    """what resolve_date_order answers for each key of date_order_chart, with and without `lst`: {key: (components | KeyError, directives |
    KeyError)}; decided by evaluating the function over the module's literal tables (the component table may be a local or a module
    constant, lists or tuples, copied or not).  Raises minieval.Unknown when the function does something else."""
    from ..core.minieval import Evaluator, Unknown
    from ..core.data import module_literal
    ix = ctx.ix
    rdo = ix.func("dateparser.parser:resolve_date_order")
    consts = {}
    for name, vals in rdo.module.assigns.items():
        if len(vals) == 1:
            try:
                consts[name] = ast.literal_eval(vals[0])
            except Exception:
                pass
    chart = consts.get("date_order_chart")
    if not isinstance(chart, dict):
        raise Unknown("date_order_chart is not a literal")

    def oracle(e, env):
        raise Unknown("")
    p = rdo.params()
    out = {}
    for k in chart:
        res = []
        for lst in (True, None):
            try:
                v = Evaluator(oracle, consts).call(rdo.node, {p[0]: k, p[1]: lst})
            except KeyError:
                v = KeyError
            res.append(list(v) if isinstance(v, tuple) else v)
        out[k] = tuple(res)
    return out, rdo, chart


def string_template(e):
    """(template with `{}` for each hole, [hole expressions]) of a string built by '..{}..'.format(a), f'..{a}..', '..%s..' % a or
    'x' + a + 'y'; None when it is none of these"""
    if isinstance(e, ast.Constant) and isinstance(e.value, str):
        return e.value.replace("{", "{{").replace("}", "}}"), []
    if isinstance(e, ast.Call) and isinstance(e.func, ast.Attribute) and e.func.attr == "format" and isinstance(e.func.value, ast.Constant) \
            and isinstance(e.func.value.value, str) and not e.keywords and e.func.value.value.count("{}") == len(e.args) \
            and e.func.value.value.replace("{}", "").count("{") == 0:
        return e.func.value.value, list(e.args)
    if isinstance(e, ast.JoinedStr):
        t, holes = "", []
        for v in e.values:
            if isinstance(v, ast.Constant) and isinstance(v.value, str):
                t += v.value.replace("{", "{{").replace("}", "}}")
            elif isinstance(v, ast.FormattedValue) and v.conversion in (-1, 115) and v.format_spec is None:
                t += "{}"
                holes.append(v.value)
            else:
                return None
        return t, holes
    if isinstance(e, ast.BinOp) and isinstance(e.op, ast.Mod) and isinstance(e.left, ast.Constant) and isinstance(e.left.value, str):
        args = list(e.right.elts) if isinstance(e.right, ast.Tuple) else [e.right]
        s_ = e.left.value
        if s_.count("%s") == len(args) and s_.replace("%s", "").count("%") == 0 and "{" not in s_ and "}" not in s_:
            return s_.replace("%s", "{}"), args
        return None
    if isinstance(e, ast.BinOp) and isinstance(e.op, ast.Add):
        l, r = string_template(e.left), string_template(e.right)
        if l is None:
            l = ("{}", [e.left])
        if r is None:
            r = ("{}", [e.right])
        if not l[1] and not r[1]:
            return l[0] + r[0], []
        return l[0] + r[0], l[1] + r[1]
    return None


def relative_pattern_model(ctx):
    """how Locale._generate_relative_translations turns the patterns of one `relative-type-regex` key into one compiled expression:
    {"template": '^(?:{})$', "flags": {"U", "I"}, "body": text of the expression that fills the hole with the locals of the loop body
    written out}; None when no single re.compile(<template with one hole>, <flags>) is found"""
    f = ctx.ix.func("dateparser.languages.locale:Locale._generate_relative_translations")
    found = None
    for parent in ast.walk(f.node):
        for fld in ("body", "orelse"):
            blk = getattr(parent, fld, None)
            if not isinstance(blk, list):
                continue
            for i, st in enumerate(blk):
                if not isinstance(st, (ast.Assign, ast.Expr, ast.Return)):
                    continue
                for c in ast.walk(st):
                    if isinstance(c, ast.Call) and ast.unparse(c.func) in ("re.compile", "regex.compile") and c.args:
                        if found is not None:
                            return None
                        found = (blk, i, c)
    if found is None:
        return None
    blk, i, c = found
    import copy
    arg0 = c.args[0]

    def subst(e, upto):
        e = copy.deepcopy(e)
        for st in reversed(blk[:upto]):
            if isinstance(st, ast.Assign) and len(st.targets) == 1 and isinstance(st.targets[0], ast.Name):
                nm = st.targets[0].id

                class S(ast.NodeTransformer):
                    def visit_Name(self, node):
                        return copy.deepcopy(st.value) if node.id == nm and isinstance(node.ctx, ast.Load) else node
                if any(isinstance(x, ast.Name) and x.id == nm for x in ast.walk(e)):
                    e = S().visit(e)
        return e
    tpl = string_template(subst(arg0, i)) if not isinstance(arg0, ast.Name) else string_template(subst(arg0, i))
    if tpl is None or len(tpl[1]) != 1:
        return None
    flags = set()
    fl = c.args[1] if len(c.args) > 1 else next((k.value for k in c.keywords if k.arg == "flags"), None)
    if fl is not None:
        for x in ast.walk(fl):
            if isinstance(x, ast.Attribute):
                flags.add({"UNICODE": "U", "IGNORECASE": "I"}.get(x.attr, x.attr))
            elif isinstance(x, ast.BinOp) and not isinstance(x.op, ast.BitOr):
                return None
    body = " ".join(ast.unparse(subst(tpl[1][0], i)).split())
    return {"template": tpl[0], "flags": flags, "body": body, "function": f}


def pipeline_body(body, p):
    """the statements of a string pipeline with a final `return <op>(p)` written as `p = <op>(p)` + `return p`"""
    out = []
    for s in body:
        if isinstance(s, ast.Return) and s.value is not None and not (isinstance(s.value, ast.Name) and s.value.id == p) \
                and any(isinstance(x, ast.Name) and x.id == p for x in ast.walk(s.value)):
            a = ast.copy_location(ast.Assign(targets=[ast.Name(id=p, ctx=ast.Store())], value=s.value), s)
            ast.fix_missing_locations(a)
            out += [a, ast.copy_location(ast.Return(value=ast.copy_location(ast.Name(id=p, ctx=ast.Load()), s)), s)]
        else:
            out.append(s)
    return out

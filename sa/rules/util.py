"""Role-based lookups (robust to renaming of locals): find literals by their content, not by the variable they are bound to."""
import ast

from ..core.index import iter_own_nodes


def dict_literals(fn):
    return [n for n in iter_own_nodes(fn.node) if isinstance(n, ast.Dict)]


def dict_with_keys(fn, required, exact=False):
    """the dict literal of fn whose constant keys include `required` (largest match first)"""
    best = None
    for d in dict_literals(fn):
        keys = [k.value for k in d.keys if isinstance(k, ast.Constant)]
        if len(keys) != len(d.keys):
            continue
        if set(required) <= set(keys) and (not exact or set(required) == set(keys)):
            if best is None or len(d.keys) > len(best.keys):
                best = d
    return best


def name_bound_to(fn, value_node):
    for n in iter_own_nodes(fn.node):
        if isinstance(n, ast.Assign) and n.value is value_node and isinstance(n.targets[0], ast.Name):
            return n.targets[0].id
    return None


def string_list_literals(fn, min_len=2):
    out = []
    for n in iter_own_nodes(fn.node):
        if isinstance(n, (ast.List, ast.Tuple, ast.Set)) and len(n.elts) >= min_len and all(
                isinstance(e, ast.Constant) and isinstance(e.value, str) for e in n.elts):
            out.append(n)
    return out


def dict_keys_values(d):
    return {k.value: v for k, v in zip(d.keys, d.values) if isinstance(k, ast.Constant)}

"""C12 — timezone settings preserve the instant; awareness follows the setting.

R1 awareness truth table (strip <=> False or ("default" and no zone in the string))
R2 typestate: a zone is attached (replace(tzinfo=Z) / Z.localize(d)) only to values that are provably naive;
   aware values change zone only through astimezone
R3 pipeline order: attach TIMEZONE -> convert TO_TIMEZONE (iff set) -> strip
"""
import ast

from ..core.cfg import CFG
from ..core.ctx import conjuncts, enclosing_tests
from ..core.index import iter_own_nodes, iter_own_stmts
from ..core.repo import AnalysisError

LEVEL = "other"
EXPLANATION = (
    "Guard truth tables, a naive/aware typestate rule and dominance on the CFG for the four timezone pipelines "
    "(absolute, relative, timestamp, custom formats): the tzinfo strip is enabled exactly for "
    "RETURN_AS_TIMEZONE_AWARE=False or (default and no zone in the string), evaluated concretely over the 6 "
    "(setting, zone-present) combinations; replace(tzinfo=Z)/Z.localize(d) occur only where d is provably naive "
    "(dominating tzinfo test, fresh naive constructor, or every caller passes a naive value) so that aware values "
    "change zone only via astimezone; TIMEZONE attachment dominates the TO_TIMEZONE conversion, which is guarded "
    "by exactly the setting's truthiness and dominates the strip. Does not decide DST gaps/ambiguity or pytz's tables."
)

PIPELINES = {
    "dateparser.date_parser:DateParser.parse": "absolute",
    "dateparser.freshness_date_parser:FreshnessDateDataParser.parse": "relative",
    "dateparser.utils:apply_timezone_from_settings": "timestamp/custom-format helper",
}
AWARE = "RETURN_AS_TIMEZONE_AWARE"


class _Unknown(Exception):
    pass


def _ev(e, env):
    """concrete evaluation of a test over env {'R': value of the setting, 'ptz': bool}"""
    if isinstance(e, ast.Constant):
        return e.value
    if isinstance(e, ast.Attribute) and e.attr == AWARE:
        return env["R"]
    if isinstance(e, ast.Name) and e.id in env.get("zone_names", ()):
        return env["ptz"]
    if isinstance(e, ast.UnaryOp) and isinstance(e.op, ast.Not):
        return not _ev(e.operand, env)
    if isinstance(e, ast.BoolOp):
        if isinstance(e.op, ast.And):
            v = True
            for x in e.values:
                v = _ev(x, env)
                if not v:
                    return v
            return v
        v = False
        for x in e.values:
            v = _ev(x, env)
            if v:
                return v
        return v
    if isinstance(e, ast.IfExp):
        return _ev(e.body, env) if _ev(e.test, env) else _ev(e.orelse, env)
    if isinstance(e, ast.Compare) and len(e.ops) == 1:
        a, b = _ev(e.left, env), _ev(e.comparators[0], env)
        op = e.ops[0]
        if isinstance(op, ast.Is):
            return a is b
        if isinstance(op, ast.IsNot):
            return a is not b
        if isinstance(op, ast.Eq):
            return a == b
        if isinstance(op, ast.NotEq):
            return a != b
    raise _Unknown(ast.unparse(e))


def _is_strip(n):
    return (isinstance(n, ast.Call) and isinstance(n.func, ast.Attribute) and n.func.attr == "replace"
            and len(n.keywords) == 1 and n.keywords[0].arg == "tzinfo"
            and isinstance(n.keywords[0].value, ast.Constant) and n.keywords[0].value.value is None and not n.args)


def awareness_table(ctx, chk, rule, only=None):
    for key, label in PIPELINES.items():
        if only and key not in only:
            continue
        f = ctx.ix.func(key)
        zone_names = set()
        for n in iter_own_nodes(f.node):
            if isinstance(n, ast.Assign) and isinstance(n.value, ast.Call) and ast.unparse(n.value.func) == "pop_tz_offset_from_string" \
                    and isinstance(n.targets[0], ast.Tuple):
                zone_names.add(n.targets[0].elts[1].id)
        strips = []
        for s in iter_own_stmts(f.node.body):
            if isinstance(s, ast.Assign) and _is_strip(s.value):
                tests = enclosing_tests(f.node, s)
                if any(AWARE in ast.unparse(t) for t, _ in tests):
                    strips.append((s, tests))
        if not strips:
            chk.ob(rule, "%s: a tzinfo strip guarded by %s exists" % (f.qual, AWARE), False,
                   "the %s pipeline never strips tzinfo, so RETURN_AS_TIMEZONE_AWARE=False returns aware values" % label,
                   key={"function": key, "construct": "strip exists"}, file=f.file, function=f.qual, line=f.node.lineno)
            continue
        for R in (True, False, "default"):
            for ptz in ((False, True) if zone_names else (False,)):
                env = {"R": R, "ptz": ptz, "zone_names": zone_names}
                enabled = False
                try:
                    for s, tests in strips:
                        v = True
                        for t, pol in tests:
                            if AWARE not in ast.unparse(t) and not (set(x.id for x in ast.walk(t) if isinstance(x, ast.Name)) & zone_names):
                                continue  # unrelated enclosing condition (e.g. `if date:`)
                            r = bool(_ev(t, env))
                            v = v and (r if pol else not r)
                        enabled = enabled or v
                except _Unknown as u:
                    raise AnalysisError(rule, "%s: awareness guard has an unrecognised atom: %s" % (f.qual, u))
                want = (R is False) or (R == "default" and R is not True and not ptz)
                chk.ob(rule, "%s: %s=%r, zone in string=%s -> tzinfo %s" % (f.qual, AWARE, R, ptz, "stripped" if want else "kept"),
                       enabled == want, "the strip is %s here" % ("enabled" if enabled else "disabled"),
                       key={"function": key, "construct": "awareness R=%r ptz=%s" % (R, ptz)}, file=f.file,
                       function=f.qual, line=strips[0][0].lineno)


# ---------------------------------------------------------------------------
NAIVE_CALLS = ("datetime", "strptime", "datetime.strptime", "datetime.today", "datetime.utcnow")


def _cfg(f):
    g = getattr(f, "_sa_cfg", None)
    if g is None:
        g = CFG(f.node)
        f._sa_cfg = g
    return g


def _naive_expr(e, f, ctx, depth=0, at=None, seen=None):
    """the expression certainly evaluates to a naive datetime (`at` = CFG node where it is read)"""
    seen = seen or set()
    if isinstance(e, ast.Call):
        fn = ast.unparse(e.func)
        if isinstance(e.func, ast.Attribute) and e.func.attr == "replace" and any(
                k.arg == "tzinfo" and isinstance(k.value, ast.Constant) and k.value.value is None for k in e.keywords):
            return True
        if fn in NAIVE_CALLS:
            return not any(k.arg in ("tzinfo", "tz") for k in e.keywords)
        if fn == "datetime.now" and not e.args and not e.keywords:
            return True
        if isinstance(e.func, ast.Attribute) and e.func.attr == "replace" and not any(k.arg == "tzinfo" for k in e.keywords):
            return _naive_expr(e.func.value, f, ctx, depth + 1, at, seen)
        if fn in ("set_correct_day_from_settings", "set_correct_month_from_settings") and e.args:
            return _naive_expr(e.args[0], f, ctx, depth + 1, at, seen)
        if fn == "parse_method":
            return _params_naive(ctx)
        return False
    if isinstance(e, ast.Name) and depth < 16:
        g = _cfg(f)
        if at is None:
            at = g.node_of_expr(f.node, e)
        if at is None:
            return False
        rd = g.reaching_defs(e.id).get(at, set())
        if not rd or g.entry.id in rd:
            return False
        for d in rd:
            if (d, e.id) in seen:
                continue
            st = g.nodes[d].stmt
            if not isinstance(st, ast.Assign):
                return False
            tgt = st.targets[0]
            if isinstance(tgt, ast.Tuple):
                # date_obj, period = parse_method(...)
                if not (isinstance(st.value, ast.Call) and tgt.elts and isinstance(tgt.elts[0], ast.Name)
                        and tgt.elts[0].id == e.id and _naive_expr(st.value, f, ctx, depth + 1, d, seen | {(d, e.id)})):
                    return False
            elif not _naive_expr(st.value, f, ctx, depth + 1, d, seen | {(d, e.id)}):
                return False
        return True
    return False


def _params_naive(ctx):
    from .escape_common import Exemptions
    return Exemptions(ctx, None, "C12.R2")._params_naive()


def _guarded_naive(f, node, subj):
    """a dominating test establishes <subj>.tzinfo is None/falsy"""
    for test, pol in enclosing_tests(f.node, node):
        for a, p in conjuncts(test, pol):
            t = ast.unparse(a)
            if t == subj + ".tzinfo" and not p:
                return True
            if isinstance(a, ast.Compare) and ast.unparse(a.left) == subj + ".tzinfo" and isinstance(a.comparators[0], ast.Constant) \
                    and a.comparators[0].value is None:
                if (p and isinstance(a.ops[0], (ast.Is, ast.Eq))) or (not p and isinstance(a.ops[0], (ast.IsNot, ast.NotEq))):
                    return True
    return False


def r2(ctx, chk):
    rule = "C12.R2"
    cg = ctx.cg
    reach = cg.reachable(["dateparser:parse", "dateparser.date:DateDataParser.get_date_data", "dateparser.search:search_dates"])
    n = 0
    for fk in sorted(reach):
        f = ctx.ix.funcs[fk]
        if f.file.startswith("dateparser/calendars") or f.qual.startswith("StaticTzInfo"):
            continue
        for node in iter_own_nodes(f.node):
            if not isinstance(node, ast.Call) or not isinstance(node.func, ast.Attribute):
                continue
            subj = None
            if node.func.attr == "replace" and len(node.keywords) >= 1 and any(k.arg == "tzinfo" for k in node.keywords):
                z = [k.value for k in node.keywords if k.arg == "tzinfo"][0]
                if isinstance(z, ast.Constant) and z.value is None:
                    continue  # strip
                if isinstance(z, ast.Attribute) and z.attr == "tzinfo":
                    continue  # restoring a saved tzinfo
                subj = node.func.value
            elif node.func.attr == "localize" and len(node.args) >= 1:
                subj = node.args[0]
            if subj is None:
                continue
            n += 1
            s = ast.unparse(subj)
            ok = _guarded_naive(f, node, s) or _naive_expr(subj, f, ctx)
            why = ""
            unproven = []
            if not ok and isinstance(subj, ast.Name) and subj.id in f.params():
                # every caller passes a naive value (a caller that hands on its own parameter is judged by ITS callers, two levels deep)
                def callers_naive(g_, pname, depth):
                    gk = g_.key
                    idx = g_.params().index(pname)
                    off = 1 if (g_.is_method() and g_.kind() != "static") else 0
                    sites = [(s2, ck) for ck in cg.callers.get(gk, ()) for s2 in cg.sites[ck]
                             if g_ in s2.callees and isinstance(s2.node, ast.Call)]
                    res_ = []
                    for s2, ck in sites:
                        arg = s2.node.args[idx - off] if 0 <= idx - off < len(s2.node.args) else None
                        for kw in s2.node.keywords:
                            if kw.arg == pname:
                                arg = kw.value
                        r_ = arg is not None and (_naive_expr(arg, s2.fn, ctx) or _guarded_naive(s2.fn, s2.node, ast.unparse(arg)))
                        if not r_ and depth < 2 and isinstance(arg, ast.Name) and arg.id in s2.fn.params() \
                                and not any(isinstance(x, ast.Assign) and any(isinstance(t_, ast.Name) and t_.id == arg.id for t_ in x.targets)
                                            and getattr(x, "lineno", 0) < s2.node.lineno for x in iter_own_nodes(s2.fn.node)):
                            r_ = callers_naive(s2.fn, arg.id, depth + 1)[0]
                        res_.append(r_)
                        if not r_:
                            unproven.append(ck)
                    return bool(res_) and all(res_), res_
                ok, res = callers_naive(f, subj.id, 0)
                why = "callers: %d, naive at all of them: %s" % (len(res), ok)
            chk.ob(rule, "%s: `%s` attaches a zone to a provably naive value" % (f.qual, ast.unparse(node)[:60]), ok,
                   "the value may already be aware here: attaching a zone to it changes the instant (an aware value "
                   "must change zone through astimezone). %s" % why,
                   key={"function": fk, "construct": " ".join(ast.unparse(node).split())[:100]}, file=f.file,
                   function=f.qual, line=node.lineno, path=sorted(set(unproven)) or None)
    chk.floor(rule, n, 8, "zone-attachment sites (replace(tzinfo=Z) / Z.localize(d))")
    # conversions of aware values use astimezone
    for key in ("dateparser.utils:apply_tzdatabase_timezone", "dateparser.utils:apply_dateparser_timezone"):
        f = ctx.ix.func(key)
        conv = [x for x in iter_own_nodes(f.node) if isinstance(x, ast.Call) and isinstance(x.func, ast.Attribute) and x.func.attr == "astimezone"]
        rets = [x for x in iter_own_nodes(f.node) if isinstance(x, ast.Return) and x.value is not None]
        ok = bool(conv) and all(ast.unparse(c.func.value) == f.params()[0] for c in conv)
        chk.ob(rule, "%s converts its first argument with astimezone" % f.qual, ok, "",
               key={"function": key, "construct": "astimezone"}, file=f.file, function=f.qual, line=f.node.lineno)
    # apply_timezone makes a naive input UTC-aware first, then converts
    f = ctx.ix.func("dateparser.utils:apply_timezone")
    t = ast.unparse(f.node)
    ok = "apply_dateparser_timezone(date_time, tz_string)" in t and "apply_tzdatabase_timezone(date_time, tz_string)" in t
    chk.ob(rule, "apply_timezone converts via the two astimezone helpers on the same value and zone string", ok, "",
           key={"function": f.key, "construct": "helpers"}, file=f.file, function=f.qual, line=f.node.lineno)


# ---------------------------------------------------------------------------
def _stmt_containing(f, pred):
    out = []
    for s in iter_own_stmts(f.node.body):
        if isinstance(s, (ast.If, ast.For, ast.While, ast.Try, ast.With)):
            continue
        if any(pred(n) for n in ast.walk(s)):
            out.append(s)
    return out


def r3(ctx, chk):
    rule = "C12.R3"
    for key, label in PIPELINES.items():
        f = ctx.ix.func(key)
        g = CFG(f.node)
        conv = _stmt_containing(f, lambda n: isinstance(n, ast.Call) and ast.unparse(n.func) == "apply_timezone"
                                and len(n.args) == 2 and ast.unparse(n.args[1]).endswith(".TO_TIMEZONE"))
        strips = [s for s in iter_own_stmts(f.node.body) if isinstance(s, ast.Assign) and _is_strip(s.value)
                  and any(AWARE in ast.unparse(t) for t, _ in enclosing_tests(f.node, s))]
        chk.ob(rule, "%s: exactly one TO_TIMEZONE conversion" % f.qual, len(conv) == 1, "found %d" % len(conv),
               key={"function": key, "construct": "one conversion"}, file=f.file, function=f.qual, line=f.node.lineno)
        if len(conv) != 1 or not strips:
            continue
        c = conv[0]
        # guarded by exactly settings.TO_TIMEZONE truthiness (plus unrelated outer conditions)
        gts = [(t, p) for t, p in enclosing_tests(f.node, c) if "TO_TIMEZONE" in ast.unparse(t)]
        ok = len(gts) == 1 and gts[0][1] and isinstance(gts[0][0], ast.Attribute) and gts[0][0].attr == "TO_TIMEZONE"
        chk.ob(rule, "%s: the conversion runs iff settings.TO_TIMEZONE is set" % f.qual, ok,
               "guard is %s" % [(ast.unparse(t), p) for t, p in gts],
               key={"function": key, "construct": "conversion guard"}, file=f.file, function=f.qual, line=c.lineno)
        # converts the value it assigns (X = apply_timezone(X, ...))
        ok = isinstance(c, ast.Assign) and ast.unparse(c.targets[0]) == ast.unparse(c.value.args[0])
        chk.ob(rule, "%s: conversion updates the value in place (X = apply_timezone(X, TO_TIMEZONE))" % f.qual, ok, "",
               key={"function": key, "construct": "conversion target"}, file=f.file, function=f.qual, line=c.lineno)
        for s in strips:
            # the conversion's guard node dominates the strip (conversion happens-before strip on every path that converts)
            dom = g.dominators()
            cids = set(g.nodes_of(c))
            sids = [x for x in g.nodes_of(s) if x in dom]
            before = all(not (g.reachable_from([x]) & cids) for x in sids)
            chk.ob(rule, "%s: the strip never runs before the TO_TIMEZONE conversion" % f.qual, before and bool(sids),
                   "a path strips tzinfo and converts afterwards (conversion of a naive value re-interprets it as UTC)",
                   key={"function": key, "construct": "convert before strip"}, file=f.file, function=f.qual, line=s.lineno)
        # attachment precedes conversion: every TIMEZONE-attachment statement cannot be reached from the conversion
        att = _stmt_containing(f, lambda n: isinstance(n, ast.Call) and (
            (ast.unparse(n.func) in ("localize_timezone",) and len(n.args) == 2 and ast.unparse(n.args[1]).endswith(".TIMEZONE"))
            or (ast.unparse(n.func) == "apply_timezone" and len(n.args) == 2 and ast.unparse(n.args[1]).endswith(".TIMEZONE"))))
        chk.ob(rule, "%s: TIMEZONE is applied (localize_timezone/apply_timezone with settings.TIMEZONE)" % f.qual, bool(att),
               "the pipeline never interprets/expresses the value in settings.TIMEZONE",
               key={"function": key, "construct": "TIMEZONE applied"}, file=f.file, function=f.qual, line=f.node.lineno)
        cids = set(g.nodes_of(c))
        for a in att:
            after = any(g.reachable_from([x]) & set(g.nodes_of(a)) for x in cids)
            chk.ob(rule, "%s: `%s` precedes the TO_TIMEZONE conversion" % (f.qual, ast.unparse(a)[:50]), not after,
                   "TIMEZONE is applied after TO_TIMEZONE",
                   key={"function": key, "construct": "attach before convert: " + " ".join(ast.unparse(a).split())[:60]},
                   file=f.file, function=f.qual, line=a.lineno)
    # timestamp pipeline: fromtimestamp(seconds, <TIMEZONE zone>) -> naive -> helper
    f = ctx.ix.func("dateparser.date:get_date_from_timestamp")
    t = ast.unparse(f.node)
    calls = [n for n in iter_own_nodes(f.node) if isinstance(n, ast.Call) and ast.unparse(n.func).endswith("fromtimestamp")]
    ok = len(calls) == 1 and len(calls[0].args) == 2
    zone = ast.unparse(calls[0].args[1]) if ok else None
    zdefs = [ast.unparse(n.value) for n in iter_own_nodes(f.node) if isinstance(n, ast.Assign) and zone and ast.unparse(n.targets[0]) == zone]
    ok = ok and any("get_timezone_from_tz_string(settings.TIMEZONE)" in d for d in zdefs) and any("get_localzone()" in d for d in zdefs)
    chk.ob(rule, "timestamp: the instant is expressed in settings.TIMEZONE (or the local zone) by fromtimestamp(seconds, zone)", ok,
           "zone argument defs: %s" % zdefs, key={"function": f.key, "construct": "fromtimestamp zone"}, file=f.file,
           function=f.qual, line=f.node.lineno)
    import re as _re
    ok = _re.search(r"(\w+) = apply_timezone_from_settings\(\1, settings\)", " ".join(t.split())) is not None \
        or _re.search(r"return apply_timezone_from_settings\(\w+, settings\)", " ".join(t.split())) is not None
    chk.ob(rule, "timestamp: result goes through apply_timezone_from_settings", ok, "",
           key={"function": f.key, "construct": "helper call"}, file=f.file, function=f.qual, line=f.node.lineno)
    pf = ctx.ix.func("dateparser.date:parse_with_formats")
    ok = _re.search(r"(\w+) = apply_timezone_from_settings\(\1, settings\)", " ".join(ast.unparse(pf.node).split())) is not None
    chk.ob(rule, "custom formats: result goes through apply_timezone_from_settings", ok, "",
           key={"function": pf.key, "construct": "helper call"}, file=pf.file, function=pf.qual, line=pf.node.lineno)
    relative_now_rule(ctx, chk, rule)
    relative_base_order_rule(ctx, chk, rule)
    local_zone_rule(ctx, chk, rule)


def local_zone_rule(ctx, chk, rule):
    """TIMEZONE='local' means the process-local zone with its rules: every zone attached under a `"local" in ...`
    guard comes from tzlocal.get_localzone() (a fixed offset taken from the clock is wrong in the other DST phase)"""
    n = 0
    reach = ctx.cg.reachable(["dateparser:parse", "dateparser.date:DateDataParser.get_date_data"])
    for fk in sorted(reach):
        f = ctx.ix.funcs[fk]
        if not f.file.startswith("dateparser/") or f.file.startswith("dateparser/calendars"):
            continue
        for node in iter_own_nodes(f.node):
            if not (isinstance(node, ast.Call) and isinstance(node.func, ast.Attribute)):
                continue
            z = None
            if node.func.attr == "replace":
                zs = [k.value for k in node.keywords if k.arg == "tzinfo"]
                z = zs[0] if zs else None
            elif node.func.attr == "localize" and node.args:
                z = node.func.value
            if z is None or isinstance(z, ast.Constant):
                continue
            local_guard = False
            for test, pol in enclosing_tests(f.node, node):
                for a, p in conjuncts(test, pol):
                    if isinstance(a, ast.Compare) and isinstance(a.left, ast.Constant) and a.left.value == "local" and (
                            (p and isinstance(a.ops[0], ast.In)) or (not p and isinstance(a.ops[0], ast.NotIn))):
                        local_guard = True
            # freshness: `if not now.tzinfo: now = now.replace(tzinfo=self.get_local_tz())` is the local fallback as well
            src = ast.unparse(z)
            if not local_guard and "local" not in src:
                continue
            n += 1
            ok = _is_localzone(ctx, f, z)
            chk.ob(rule, "%s: the local zone `%s` is tzlocal.get_localzone()" % (f.qual, src[:40]), ok,
                   "under TIMEZONE='local' the attached zone is not the process-local zone object (e.g. a fixed offset taken "
                   "from the current clock): dates in the other DST phase get the wrong offset",
                   key={"function": fk, "construct": "local zone source " + " ".join(ast.unparse(node).split())[:60]},
                   file=f.file, function=f.qual, line=node.lineno)
    chk.floor(rule + ".local", n, 3, "zone attachments under a 'local' guard")
    # get_date_from_timestamp: the local zone for fromtimestamp
    f = ctx.ix.func("dateparser.date:get_date_from_timestamp")
    for node in iter_own_nodes(f.node):
        if isinstance(node, ast.Assign) and isinstance(node.targets[0], ast.Name):
            for test, pol in enclosing_tests(f.node, node):
                from ..core.ctx import signed_atoms
                under_local = any(isinstance(a, ast.Compare) and isinstance(a.left, ast.Constant) and a.left.value == "local" and (
                    (p and isinstance(a.ops[0], ast.In)) or (not p and isinstance(a.ops[0], ast.NotIn))) for a, p in signed_atoms(test, pol))
                if under_local and isinstance(node.value, ast.Call):
                    chk.ob(rule, "timestamp: the zone used for TIMEZONE='local' is get_localzone()", ast.unparse(node.value) == "get_localzone()",
                           "is %s" % ast.unparse(node.value), key={"function": f.key, "construct": "timestamp local zone"},
                           file=f.file, function=f.qual, line=node.lineno)


def _is_localzone(ctx, f, z, depth=0):
    if depth > 3:
        return False
    if isinstance(z, ast.Call):
        fn = ast.unparse(z.func)
        if fn == "get_localzone":
            return True
        for s in ctx.cg.sites.get(f.key, ()):
            if s.node is z and s.callees:
                return all(any(isinstance(r, ast.Return) and r.value is not None and _is_localzone(ctx, c, r.value, depth + 1)
                               for r in iter_own_nodes(c.node)) for c in s.callees)
        return False
    if isinstance(z, ast.Name):
        defs = [n.value for n in iter_own_nodes(f.node) if isinstance(n, ast.Assign) and any(isinstance(t, ast.Name) and t.id == z.id for t in n.targets)]
        return bool(defs) and all(_is_localzone(ctx, f, d, depth + 1) for d in defs)
    return False


def relative_base_order_rule(ctx, chk, rule):
    """relative parser with RELATIVE_BASE: the decision to interpret the naive base in TIMEZONE is taken before the
    base is attached to / re-expressed in the zone named in the string"""
    f = ctx.ix.func("dateparser.freshness_date_parser:FreshnessDateDataParser.parse")
    g = CFG(f.node)
    zone_names = {n.targets[0].elts[1].id for n in iter_own_nodes(f.node) if isinstance(n, ast.Assign) and isinstance(n.value, ast.Call)
                  and ast.unparse(n.value.func) == "pop_tz_offset_from_string" and isinstance(n.targets[0], ast.Tuple)}
    starts = [s for s in iter_own_stmts(f.node.body) if isinstance(s, ast.Assign) and ast.unparse(s.value).endswith(".RELATIVE_BASE")]
    if not starts or not zone_names:
        raise AnalysisError(rule, "freshness parse: RELATIVE_BASE assignment / string zone not found")
    nowv = ast.unparse(starts[0].targets[0])
    tz_tests = [s for s in iter_own_stmts(f.node.body) if isinstance(s, ast.If) and "local" in ast.unparse(s.test)
                and any(isinstance(x, ast.Call) and ast.unparse(x.func) == "localize_timezone" and ast.unparse(x.args[0]) == nowv
                        and ast.unparse(x.args[1]).endswith(".TIMEZONE") for x in ast.walk(s))]
    chk.ob(rule, "relative: a RELATIVE_BASE is interpreted in TIMEZONE (localize_timezone) unless TIMEZONE is local", bool(tz_tests), "",
           key={"function": f.key, "construct": "base localized in TIMEZONE"}, file=f.file, function=f.qual, line=starts[0].lineno)
    targets = []
    for s in iter_own_stmts(f.node.body):
        if isinstance(s, ast.Assign) and ast.unparse(s.targets[0]) == nowv and isinstance(s.value, ast.Call):
            t = ast.unparse(s.value)
            if any(("%s.localize(%s)" % (z, nowv)) in t or ("tzinfo=%s" % z) in t or (".astimezone(%s)" % z) in t for z in zone_names):
                targets.append(s)
    avoid = set()
    for t_ in tz_tests:
        avoid |= set(g.nodes_of(t_))
    sids = set()
    for s_ in starts:
        for n_ in g.nodes_of(s_):
            sids |= {m for m, _ in g.succ[n_]}
    for tg in targets:
        path = g.path_avoiding(sids, set(g.nodes_of(tg)), avoid)
        chk.ob(rule, "relative: `%s` happens only after the TIMEZONE interpretation of the base" % ast.unparse(tg)[:50], path is None,
               "the base reaches the string's zone without having been interpreted in TIMEZONE first: a naive RELATIVE_BASE is then "
               "read as a wall clock of the zone named in the string (the later localize_timezone is a no-op on an aware value)",
               key={"function": f.key, "construct": "TIMEZONE before string zone: " + " ".join(ast.unparse(tg).split())[:50]},
               file=f.file, function=f.qual, line=tg.lineno)
    chk.floor(rule + ".order", len(targets), 2, "attachments/re-expressions of the base in the string's zone")


def relative_now_rule(ctx, chk, rule):
    import re as _re
    # relative pipeline: implicit now is taken in TIMEZONE
    fr = ctx.ix.func("dateparser.freshness_date_parser:FreshnessDateDataParser.parse")
    # the local that is handed to _parse_date as the base
    pd_calls = [n for n in iter_own_nodes(fr.node) if isinstance(n, ast.Call) and ast.unparse(n.func) == "self._parse_date" and len(n.args) >= 2]
    nowv = ast.unparse(pd_calls[0].args[1]) if pd_calls else "now"
    holders = {nowv}            # the base and the locals it is copied from (`now = base` at the end of a written-out helper)
    for _ in range(3):
        for n in iter_own_nodes(fr.node):
            if isinstance(n, ast.Assign) and len(n.targets) == 1 and isinstance(n.targets[0], ast.Name) and n.targets[0].id in holders \
                    and isinstance(n.value, ast.Name):
                holders.add(n.value.id)
    nows = [n for n in iter_own_nodes(fr.node) if isinstance(n, ast.Assign) and ast.unparse(n.targets[0]) in holders]
    srcs = {" ".join(ast.unparse(n.value).split()) for n in nows}
    need = {r"apply_timezone\(\w+, settings\.TIMEZONE\)": "current instant expressed in TIMEZONE",
            r"settings\.RELATIVE_BASE": "RELATIVE_BASE",
            r"localize_timezone\((?:%s), settings\.TIMEZONE\)" % "|".join(sorted(_re.escape(h_) for h_ in holders)): "RELATIVE_BASE interpreted in TIMEZONE"}
    missing = [w for pat, w in need.items() if not any(_re.fullmatch(pat, s_) for s_ in srcs)]
    utc_ok = any(_re.fullmatch(r"apply_timezone\((\w+), settings\.TIMEZONE\)", s_) and any(
        isinstance(n, ast.Assign) and ast.unparse(n.targets[0]) == _re.fullmatch(r"apply_timezone\((\w+), settings\.TIMEZONE\)", s_).group(1)
        and "datetime.now(" in ast.unparse(n.value) and "utc" in ast.unparse(n.value).lower() for n in iter_own_nodes(fr.node)) for s_ in srcs)
    if not utc_ok:
        missing.append("the implicit now is datetime.now(UTC) converted to TIMEZONE")
    chk.ob(rule, "relative: now is RELATIVE_BASE interpreted in TIMEZONE, or the current instant expressed in TIMEZONE",
           not missing, "missing %s" % missing, key={"function": fr.key, "construct": "now sources"},
           file=fr.file, function=fr.qual, line=fr.node.lineno)


TZ_APPLIERS = ("apply_timezone_from_settings", "apply_timezone", "localize_timezone")
FIELD_SETTERS = ("set_correct_day_from_settings", "set_correct_month_from_settings")
CAL_KW = {"year", "month", "day", "hour", "minute", "second", "microsecond"}


def r4(ctx, chk):
    """the zone is applied to the final wall clock: after a value has been interpreted in / converted to a zone, its calendar
    fields are not edited any more (a pytz zone attached to 1900-..-.. keeps that year's offset when the year is replaced)"""
    rule = "C12.R4"
    n_app = 0
    for key in ("dateparser.date:parse_with_formats", "dateparser.date:get_date_from_timestamp", "dateparser.date_parser:DateParser.parse"):
        f = ctx.ix.func(key)
        g = CFG(f.node)
        apps = []
        for s_ in iter_own_stmts(f.node.body):
            if isinstance(s_, ast.Assign) and isinstance(s_.value, ast.Call) and isinstance(s_.targets[0], ast.Name):
                fn = ast.unparse(s_.value.func)
                if fn in TZ_APPLIERS or fn.endswith(".localize") or (fn.endswith(".replace") and any(
                        k.arg == "tzinfo" and ast.unparse(k.value) != "None" for k in s_.value.keywords)):
                    apps.append(s_)
        n_app += len(apps)
        for a in apps:
            var = a.targets[0].id
            # nodes reachable from the application without passing a fresh binding of the variable
            kills = set()
            for s_ in iter_own_stmts(f.node.body):
                if isinstance(s_, ast.Assign) and s_ is not a and any(isinstance(t, ast.Name) and t.id == var for t in s_.targets) \
                        and var not in {x.id for x in ast.walk(s_.value) if isinstance(x, ast.Name)}:
                    kills |= set(g.nodes_of(s_))
                elif isinstance(s_, ast.Assign) and any(isinstance(t, ast.Tuple) and any(isinstance(e, ast.Name) and e.id == var for e in t.elts) for t in s_.targets):
                    kills |= set(g.nodes_of(s_))
            after = set()
            work = [q for x in g.nodes_of(a) for q, lbl in g.succ[x]]
            while work:
                x = work.pop()
                if x in after:
                    continue
                after.add(x)
                if x in kills:
                    continue
                work.extend(q for q, lbl in g.succ[x])
            after -= kills
            for s_ in iter_own_stmts(f.node.body):
                if s_ is a or not (set(g.nodes_of(s_)) & after) or not isinstance(s_, (ast.Assign, ast.AugAssign)):
                    continue
                tg = s_.targets[0] if isinstance(s_, ast.Assign) else s_.target
                if not (isinstance(tg, ast.Name) and tg.id == var):
                    continue
                v = s_.value
                edits = None
                if isinstance(s_, ast.AugAssign):
                    edits = "arithmetic on the zoned value"
                elif isinstance(v, ast.Call) and ast.unparse(v.func) in FIELD_SETTERS:
                    edits = ast.unparse(v.func)
                elif isinstance(v, ast.Call) and isinstance(v.func, ast.Attribute) and v.func.attr == "replace" \
                        and {k.arg for k in v.keywords} & CAL_KW:
                    edits = "replace(%s=...)" % ", ".join(sorted({k.arg for k in v.keywords} & CAL_KW))
                elif isinstance(v, ast.BinOp) and isinstance(v.op, (ast.Add, ast.Sub)) and var in {x.id for x in ast.walk(v) if isinstance(x, ast.Name)}:
                    edits = "arithmetic on the zoned value"
                if edits:
                    chk.ob(rule, "%s: no calendar field of `%s` is edited after the zone was applied at line %d" % (f.qual, var, a.lineno), False,
                           "%s runs after `%s`: the zone (and its offset) was chosen for the earlier wall clock, so the result is not the "
                           "instant the string denotes in that zone" % (edits, " ".join(ast.unparse(a).split())[:70]),
                           key={"function": key, "construct": "field edit after zone application: " + edits}, file=f.file, function=f.qual,
                           line=s_.lineno, text=" ".join(ast.unparse(s_).split())[:100])
            chk.ob(rule, "%s: `%s` is the last edit of the value's wall clock" % (f.qual, " ".join(ast.unparse(a).split())[:60]), True)
    chk.floor(rule, n_app, 4, "zone applications in the helper, timestamp and absolute pipelines")


def run(ctx, chk):
    r4(ctx, chk)
    from .c11 import first_match_rule
    first_match_rule(ctx, chk, "C12.R5")
    awareness_table(ctx, chk, "C12.R1")
    chk.floor("C12.R1", chk.instances.get("C12.R1", 0), 15, "awareness truth-table rows")
    r2(ctx, chk)
    r3(ctx, chk)
    aware_value_untouched_rule(ctx, chk, "C12.R6")
    conversion_must_happen_rule(ctx, chk, "C12.R7")
    from .c11 import dropped_words_rule
    dropped_words_rule(ctx, chk, "C12.R8")          # a zone that translation deletes cannot be converted from



def aware_value_untouched_rule(ctx, chk, rule):
    """`localize_timezone(dt, TIMEZONE)` says in which zone a NAIVE value is to be read; an aware value (an aware RELATIVE_BASE, a date whose
    string named a zone) already says so itself and must come back as it went in - same instant AND same wall clock, since the relative
    arithmetic ('1 month ago', 'yesterday at 10:30') is done on the wall clock of the base.  So: every change made to the value on its way to
    a return happens under the knowledge that it is naive, and is nothing but attaching the zone (tz.localize(dt) / dt.replace(tzinfo=tz):
    pytz's normalize(), astimezone() or arithmetic would move a wall clock that falls into a DST gap)."""
    f = ctx.ix.func("dateparser.utils:localize_timezone")
    p = f.params()[0]
    g = CFG(f.node)
    rets = [s for s in iter_own_stmts(f.node.body) if isinstance(s, ast.Return)]
    chk.floor(rule, len(rets), 1, "returns of localize_timezone")

    def facts_at(node):
        facts = set()
        for t, pol in enclosing_tests(f.node, node):
            for a, q in conjuncts(t, pol):
                txt = " ".join(ast.unparse(a).split())
                if txt in (p + ".tzinfo", p + ".tzinfo is not None"):
                    facts.add("aware" if q else "naive")
                if txt in (p + ".tzinfo is None", "not " + p + ".tzinfo"):
                    facts.add("naive" if q else "aware")
        return facts

    def attach_only(v, pn=None, depth=0):
        pn = pn or p
        if isinstance(v, ast.Call) and isinstance(v.func, ast.Attribute) and (
                (v.func.attr == "localize" and len(v.args) == 1 and ast.unparse(v.args[0]) == pn and not v.keywords)
                or (v.func.attr == "replace" and ast.unparse(v.func.value) == pn and [k.arg for k in v.keywords] == ["tzinfo"] and not v.args)):
            return True
        # a helper that does nothing but attach: h(dt, tz) all of whose returns are attach-only on its own first parameter
        if isinstance(v, ast.Call) and isinstance(v.func, ast.Name) and v.args and ast.unparse(v.args[0]) == pn and depth < 2:
            h = ctx.ix.lookup_module_attr(f.module, v.func.id)
            if h is not None and hasattr(h, "node") and isinstance(h.node, ast.FunctionDef) and h.params():
                hr = [s_ for s_ in iter_own_stmts(h.node.body) if isinstance(s_, ast.Return)]
                hp = h.params()[0]
                no_rebind = not any(isinstance(x, (ast.Assign, ast.AugAssign)) and any(
                    isinstance(t_, ast.Name) and t_.id == hp for t_ in (x.targets if isinstance(x, ast.Assign) else [x.target])) for x in iter_own_nodes(h.node))
                return bool(hr) and no_rebind and all(r_.value is not None and attach_only(r_.value, hp, depth + 1) for r_ in hr)
        return False
    tested = any(facts_at(n) for n in iter_own_nodes(f.node) if isinstance(n, (ast.Return, ast.Assign)))
    for r in rets:
        rf = facts_at(r)
        at = next(iter(g.nodes_of(r)), None)
        v = r.value
        aware_bad, naive_bad = [], []
        if isinstance(v, ast.Name) and v.id == p:
            for d in sorted(g.reaching_defs(p).get(at, set()) - {g.entry.id}):
                st = g.nodes[d].stmt
                txt = " ".join(ast.unparse(st).split())[:70]
                if "naive" not in rf and "naive" not in facts_at(st):
                    aware_bad.append(txt)           # an aware argument may pass through this assignment
                val = getattr(st, "value", None)
                if not (isinstance(st, ast.Assign) and attach_only(val) and g.reaching_defs(p).get(d, set()) <= {g.entry.id}):
                    naive_bad.append(txt)
        else:
            txt = " ".join(ast.unparse(r).split())[:70]
            if "naive" not in rf:
                aware_bad.append(txt)
            if not attach_only(v):
                naive_bad.append(txt)
        chk.ob(rule, "localize_timezone line %d: an aware value is returned as it came" % r.lineno, not aware_bad,
               "an aware argument reaches `%s`: the value is re-expressed / rebuilt instead of handed back, so an aware RELATIVE_BASE is "
               "no longer the base the relative arithmetic starts from" % "; ".join(aware_bad),
               key={"function": f.key, "construct": "aware passthrough"}, file=f.file, function=f.qual, line=r.lineno,
               text=" ".join(ast.unparse(r).split()))
        chk.ob(rule, "localize_timezone line %d: a naive value only gets the zone attached (localize / replace(tzinfo=)) - its wall clock is not moved" % r.lineno,
               not naive_bad, "the returned value also goes through `%s`: wall clocks inside a DST gap of TIMEZONE come back shifted" % "; ".join(naive_bad),
               key={"function": f.key, "construct": "naive attach only"}, file=f.file, function=f.qual, line=r.lineno)
    chk.ob(rule, "localize_timezone distinguishes aware from naive arguments", tested, "nothing in it is decided on `%s.tzinfo`" % p,
           key={"function": f.key, "construct": "aware test"}, file=f.file, function=f.qual, line=f.node.lineno)


def conversion_must_happen_rule(ctx, chk, rule):
    """apply_timezone(dt, name) is the one place that re-expresses an instant in the zone a setting names.  Whatever the value looks like on
    entry (its own tzname() may spell the same abbreviation for a different offset: Asia/Shanghai calls itself 'CST', the library's CST is
    -06:00), what it returns must be the result of one of the two converters applied to that name."""
    f = ctx.ix.func("dateparser.utils:apply_timezone")
    ps = f.params()
    g = CFG(f.node)
    conv = ("apply_dateparser_timezone", "apply_tzdatabase_timezone")
    rets = [s for s in iter_own_stmts(f.node.body) if isinstance(s, ast.Return)]
    chk.floor(rule, len(rets), 1, "returns of apply_timezone")

    def is_conv(e):
        return isinstance(e, ast.Call) and ast.unparse(e.func) in conv and len(e.args) == 2 and ast.unparse(e.args[1]) == ps[1]
    def judge(e, at, depth=0):
        """(True, '') a converter's result on every path; (False, why) certainly something else (the argument itself); (None, why) not decidable"""
        if e is None:
            return False, "returns None"
        if is_conv(e):
            return True, ""
        if isinstance(e, ast.BoolOp) and isinstance(e.op, ast.Or) or isinstance(e, ast.IfExp):
            parts = e.values if isinstance(e, ast.BoolOp) else [e.body, e.orelse]
            res = [judge(x, at, depth + 1) for x in parts]
            for r_, w_ in res:
                if r_ is not True:
                    return r_, w_
            return True, ""
        if isinstance(e, ast.Name) and depth < 6:
            if e.id in ps and not any(isinstance(x, ast.Name) and x.id == e.id and isinstance(x.ctx, ast.Store) for x in ast.walk(f.node)):
                return False, "`%s` is the argument" % e.id
            rd = g.reaching_defs(e.id).get(at, set())
            if not rd:
                return None, "`%s` has no definition here" % e.id
            for d in rd:
                if d == g.entry.id:
                    return False, "`%s` may still be the argument" % e.id
                st_ = g.nodes[d].stmt
                if not (isinstance(st_, ast.Assign) and len(st_.targets) == 1 and isinstance(st_.targets[0], ast.Name)):
                    return None, "`%s` is bound by `%s`" % (e.id, " ".join(ast.unparse(st_).split())[:60])
                r_, w_ = judge(st_.value, d, depth + 1)
                if r_ is not True:
                    return r_, w_ or "`%s` may still be `%s`" % (e.id, " ".join(ast.unparse(st_).split())[:60])
            return True, ""
        if isinstance(e, ast.Name) or isinstance(e, ast.Constant):
            return False, "returns `%s`" % ast.unparse(e)
        return None, "returns `%s`" % " ".join(ast.unparse(e).split())[:80]
    for r in rets:
        at = next(iter(g.nodes_of(r)), None)
        ok, why = judge(r.value, at)
        if ok is None:
            chk.error(rule, "apply_timezone line %d: %s - not a form this rule can follow" % (r.lineno, why))
            continue
        chk.ob(rule, "apply_timezone line %d returns a converter's result for the requested zone" % r.lineno, ok,
               "%s: the value goes back without having been re-expressed in `%s`, so TIMEZONE / TO_TIMEZONE is silently not applied" % (why, ps[1]),
               key={"function": f.key, "construct": "return converted"}, file=f.file, function=f.qual, line=r.lineno,
               text=" ".join(ast.unparse(r).split()))

"""C07 — DATE_ORDER and the locale's own order decide numeric dates.

R1 the order tables agree (letters <-> components <-> directives) in every place that spells them; every locale's
   date_order is one of the six orders
R2 the locale's order replaces DATE_ORDER only when the caller did not supply one, and falls back to the caller's
R3 def-use: settings.DATE_ORDER -> resolve_date_order -> ordered directives -> the assignment loop; a four-digit
   token pins the year
"""
import ast

from ..core.ctx import conjuncts, enclosing_tests, if_arms
from ..core.data import LangData, module_literal
from ..core.index import iter_own_nodes, iter_own_stmts
from ..core.repo import AnalysisError

LEVEL = "other"
EXPLANATION = (
    "Table-agreement and def-use rules: for each of the six orders, chart_list spells the components of its letters "
    "in order and date_order_chart concatenates the matching %d/%m/%y; the no-spaces parser's per-order tables are "
    "keyed and sorted by the same strings; the numeric directive table has exactly day/month/year; all 504 locales "
    "carry a valid date_order (or none). In _try_parser the locale's order is stored only under "
    "PREFER_LOCALE_DATE_ORDER and 'DATE_ORDER not supplied by the caller', with the caller's value as fallback. The "
    "order read from settings reaches the loop that assigns numeric tokens through resolve_date_order(..., lst=True), "
    "and the component is skipped only for a four-digit token already taken as the year. Does not decide which field "
    "a concrete token lands in."
)
LETTER = {"D": "day", "M": "month", "Y": "year"}
DIRECTIVE = {"D": "%d", "M": "%m", "Y": "%y"}


def run(ctx, chk):
    r1(ctx, chk)
    r2(ctx, chk)
    r3(ctx, chk)
    r4(ctx, chk)


def r4(ctx, chk):
    """the year field reaches the parser: DateParser.parse first removes whatever the timezone table matches at the end of
    the string, so a four-digit year written after '-' must not be matched by one of the table's numeric-offset spellings
    (table analysis: every year 0001..9999 in 'DD-MM-YYYY' against the end-anchored table patterns, as the code compiles them)"""
    import regex
    from .c16 import tz_model
    rule = "C07.R4"
    tl, entries, parts = tz_model(ctx, rule)
    # the pop happens on the string handed to the absolute parser
    dp = ctx.ix.func("dateparser.date_parser:DateParser.parse")
    pops = [n for n in iter_own_nodes(dp.node) if isinstance(n, ast.Call) and ast.unparse(n.func) == "pop_tz_offset_from_string"]
    if len(pops) != 1:
        raise AnalysisError(rule, "DateParser.parse: the timezone pop is not found")
    numeric = [(name, pat) for name, pat, off in entries if any(ch.isdigit() for ch in pat)]   # patterns that spell digits
    chk.floor(rule, len(numeric), 100, "numeric-offset patterns of the timezone table")
    big = regex.compile("|".join("(?:%s)" % p for _, p in numeric), regex.I)
    shadowed = []
    for y in range(1, 10000):
        s_ = "01-02-%04d" % y
        if big.search(s_):
            who = next(name for name, p in numeric if regex.search(p, s_, regex.I))
            shadowed.append((y, who))
    for y, who in shadowed:
        chk.ob(rule, "the year %04d in 'DD-MM-%04d' is not taken for a UTC offset" % (y, y), False,
               "the table entry %s matches '-%04d' at the end of the string: the year is removed as a timezone before the date is parsed and "
               "the current year is used instead" % (who, y),
               key={"year": "%04d" % y, "construct": "year shadowed by a numeric offset spelling"}, file="dateparser/timezones.py",
               function="timezone_info_list", line=None)
    chk.ob(rule, "of the years 0001..9999 written as 'DD-MM-YYYY', %d are not matched by the timezone table" % (9999 - len(shadowed)), True)
    chk.extra["years_shadowed_by_offsets"] = ["%04d" % y for y, _ in shadowed]


def _local_dict(fn, name):
    for n in iter_own_nodes(fn.node):
        if isinstance(n, ast.Assign) and isinstance(n.targets[0], ast.Name) and n.targets[0].id == name and isinstance(n.value, ast.Dict):
            return n.value
    return None


def r1(ctx, chk):
    rule = "C07.R1"
    ix = ctx.ix
    chart = module_literal(ctx.repo, "dateparser/parser.py", "date_order_chart")
    from .util import date_order_results
    from ..core.minieval import Unknown
    try:
        answers, rdo, _chart = date_order_results(ctx)
    except Unknown as e_:
        raise AnalysisError(rule, "resolve_date_order: the answer is computed by something this rule cannot evaluate (%s)" % e_)
    import itertools
    six = {"".join(p) for p in itertools.permutations("DMY")}
    chk.ob(rule, "date_order_chart has exactly the six orders", set(chart) == six, "keys: %s" % sorted(chart),
           key={"table": "date_order_chart", "construct": "keys"}, file="dateparser/parser.py", function="<module>", line=None)
    for k in sorted(six & set(chart)):
        want = "".join(DIRECTIVE[c] for c in k)
        chk.ob(rule, "date_order_chart[%s] == %s" % (k, want), chart[k] == want, "is %r" % chart[k],
               key={"table": "date_order_chart", "construct": k}, file="dateparser/parser.py", function="<module>", line=None)
        wl = [LETTER[c] for c in k]
        got_l, got_s = answers.get(k, (None, None))
        chk.ob(rule, "chart_list[%s] == %s" % (k, wl), got_l == wl, "resolve_date_order(%r, lst=True) gives %r" % (k, got_l),
               key={"table": "chart_list", "construct": k}, file=rdo.file, function=rdo.qual, line=rdo.node.lineno)
    # resolve_date_order returns the components for lst, else the directive string of the same order
    bad = sorted(k for k in chart if answers[k][1] != chart[k])
    chk.ob(rule, "resolve_date_order(order, lst) returns chart_list[order] / date_order_chart[order]", not bad,
           "without lst the answer is not date_order_chart[order] for %s" % bad,
           key={"table": "resolve_date_order", "construct": "return"}, file=rdo.file, function=rdo.qual, line=rdo.node.lineno)
    # numeric directive table
    P = ix.cls("dateparser.parser:_parser")
    nd = P.attrs.get("num_directives")
    try:
        if isinstance(nd, ast.Call) and ast.unparse(nd.func).split(".")[-1] in ("OrderedDict", "dict") and len(nd.args) == 1 and not nd.keywords:
            nd = dict(ast.literal_eval(nd.args[0]))      # OrderedDict([(k, v), ...]) spells the same table
        else:
            nd = ast.literal_eval(nd)
    except Exception:
        raise AnalysisError(rule, "_parser.num_directives is not a literal")
    want = {"month": ["%m"], "day": ["%d"], "year": ["%y", "%Y"]}
    chk.ob(rule, "_parser.num_directives == %s" % want, nd == want, "is %s" % nd,
           key={"table": "num_directives", "construct": "value"}, file="dateparser/parser.py", function="_parser", line=None)
    # no-spaces parser: key and the literal inside its sorting lambda agree; keys == chart values
    from .util import nsp_order_table
    tbl, nsp = nsp_order_table(ctx)
    if tbl is None:
        raise AnalysisError(rule, "_no_spaces_parser.date_formats dict not found")
    for k_, lits in tbl.items():
        chk.ob(rule, "_no_spaces_parser.date_formats[%s] prefers formats starting with the same order" % k_,
               lits == {k_}, "sort key uses %s" % sorted(lits), key={"table": "nsp.date_formats", "construct": k_},
               file=nsp.file, function=nsp.qual, line=nsp.node.lineno)
    NS = ix.cls("dateparser.parser:_no_spaces_parser")
    dflt = NS.attrs.get("_default_order")
    chk.ob(rule, "_no_spaces_parser default order is MDY", dflt is not None and ast.unparse(dflt) == "resolve_date_order('MDY')",
           "is %s" % (ast.unparse(dflt) if dflt is not None else None), key={"table": "nsp", "construct": "default order"},
           file="dateparser/parser.py", function="_no_spaces_parser", line=None)
    dset = module_literal(ctx.repo, "dateparser_data/settings.py", "settings")
    chk.ob(rule, "default DATE_ORDER is MDY and PREFER_LOCALE_DATE_ORDER is on", dset.get("DATE_ORDER") == "MDY" and dset.get("PREFER_LOCALE_DATE_ORDER") is True,
           "defaults: %s / %s" % (dset.get("DATE_ORDER"), dset.get("PREFER_LOCALE_DATE_ORDER")),
           key={"table": "settings", "construct": "defaults"}, file="dateparser_data/settings.py", function="settings", line=None)
    # data
    ld = ctx.memo("langdata", lambda: LangData(ctx.repo))
    n = with_order = 0
    for lang, loc in ld.all_locales():
        info = ld.locale_info(lang, loc)
        n += 1
        o = info.get("date_order")
        if o is not None:
            with_order += 1
        chk.ob(rule, "locale %s date_order %r is a chart key" % (loc, o), o is None or o in chart,
               "resolve_date_order raises KeyError for this locale",
               key={"table": "date_order", "construct": loc}, file="dateparser/data/date_translation_data/%s.py" % lang,
               function="info", line=None, nontrivial=o is not None)
    chk.floor(rule, with_order, 300, "locales with a date_order")
    # the MDY fallback for "the locale has none" is meant for the languages CLDR gives no short date pattern for: the reviewed
    # list is {tl}; another language or locale without an order silently reads its users' dates as MDY
    NO_ORDER_REVIEWED = {"tl": "CLDR data for Tagalog carries no date order in the generated table (pinned tree)"}
    for lang, loc in ld.all_locales():
        if ld.locale_info(lang, loc).get("date_order") is None and loc not in NO_ORDER_REVIEWED:
            chk.ob(rule, "locale %s has an order of its own (only %s fall back to MDY)" % (loc, sorted(NO_ORDER_REVIEWED)), False,
                   "no date_order in the table: numeric dates of this locale are read month-first",
                   key={"table": "date_order", "construct": "missing order " + loc}, file="dateparser/data/date_translation_data/%s.py" % lang,
                   function="info", line=None)
    chk.ob(rule, "every locale but the reviewed %s defines its date order" % sorted(NO_ORDER_REVIEWED), True)


def r2(ctx, chk):
    rule = "C07.R2"
    f = ctx.ix.func("dateparser.date:_DateLocaleParser._try_parser")
    stores = [n for n in iter_own_nodes(f.node) if isinstance(n, ast.Assign) and isinstance(n.targets[0], ast.Attribute)
              and n.targets[0].attr == "DATE_ORDER"]
    saved = {n.targets[0].id for n in iter_own_nodes(f.node) if isinstance(n, ast.Assign) and isinstance(n.targets[0], ast.Name)
             and isinstance(n.value, ast.Attribute) and n.value.attr == "DATE_ORDER"}
    mods = [s for s in stores if not (isinstance(s.value, ast.Name) and s.value.id in saved)]
    chk.floor(rule, len(mods), 1, "stores of a locale order into settings.DATE_ORDER")
    for m in mods:
        facts = set()
        for test, pol in enclosing_tests(f.node, m):
            for a, p in conjuncts(test, pol):
                t = ast.unparse(a)
                if p and t.endswith("PREFER_LOCALE_DATE_ORDER"):
                    facts.add("prefer")
                if isinstance(a, ast.Compare) and isinstance(a.left, ast.Constant) and a.left.value == "DATE_ORDER" \
                        and ast.unparse(a.comparators[0]).endswith("_mod_settings") and (
                        (p and isinstance(a.ops[0], ast.NotIn)) or (not p and isinstance(a.ops[0], ast.In))):
                    facts.add("not-supplied")
        chk.ob(rule, "the locale order is stored only under PREFER_LOCALE_DATE_ORDER and when the caller supplied no DATE_ORDER",
               facts == {"prefer", "not-supplied"},
               "guards found: %s - an explicitly supplied DATE_ORDER would be overridden by the locale's" % sorted(facts),
               key={"function": f.key, "construct": "locale order guard"}, file=f.file, function=f.qual, line=m.lineno)
        v = m.value
        ok = isinstance(v, ast.Call) and ast.unparse(v.func).endswith("locale.info.get") and len(v.args) == 2 \
            and isinstance(v.args[0], ast.Constant) and v.args[0].value == "date_order" and isinstance(v.args[1], ast.Name) and v.args[1].id in saved
        chk.ob(rule, "the stored value is the locale's date_order, falling back to the saved caller/default order", ok,
               "value is %s" % ast.unparse(v), key={"function": f.key, "construct": "locale order value"}, file=f.file,
               function=f.qual, line=m.lineno)
    # the parse call sits between override and restore and receives the same settings object
    calls = [n for n in iter_own_nodes(f.node) if isinstance(n, ast.Call) and ast.unparse(n.func) == "date_parser.parse"]
    ok = len(calls) == 1 and {k.arg: ast.unparse(k.value) for k in calls[0].keywords}.get("settings") == "self._settings" \
        and mods and all(m.lineno < calls[0].lineno for m in mods)
    chk.ob(rule, "date_parser.parse runs after the override with the same settings object", ok, "",
           key={"function": f.key, "construct": "parse after override"}, file=f.file, function=f.qual, line=f.node.lineno)


def r3(ctx, chk):
    rule = "C07.R3"
    ix = ctx.ix
    init = ix.func("dateparser.parser:_parser.__init__")
    ok = False
    for n in iter_own_nodes(init.node):
        if isinstance(n, ast.Assign) and ast.unparse(n.targets[0]) == "self.ordered_num_directives":
            scan, ordered = [n.value], "OrderedDict" in ast.unparse(n.value) or isinstance(n.value, (ast.Dict, ast.DictComp))
            if isinstance(n.value, ast.Name):
                # the table is filled under a local name: d = OrderedDict() / {}; for k in <order>: d[k] = self.num_directives[k]
                v_ = n.value.id
                inits = [m for m in iter_own_nodes(init.node) if isinstance(m, ast.Assign) and len(m.targets) == 1 and isinstance(m.targets[0], ast.Name)
                         and m.targets[0].id == v_]
                fills = [m for m in iter_own_nodes(init.node) if isinstance(m, ast.For) and any(
                    isinstance(x, ast.Assign) and isinstance(x.targets[0], ast.Subscript) and ast.unparse(x.targets[0].value) == v_
                    and isinstance(m.target, ast.Name) and ast.unparse(x.targets[0].slice) == m.target.id for x in ast.walk(m))]
                if len(inits) != 1 or len(fills) != 1:
                    raise AnalysisError(rule, "_parser.__init__: cannot follow how `%s` (stored as ordered_num_directives) is filled" % v_)
                ordered = ast.unparse(inits[0].value) in ("OrderedDict()", "{}", "dict()", "collections.OrderedDict()")
                scan = [fills[0]]
            rc = [c for e_ in scan for c in ast.walk(e_) if isinstance(c, ast.Call) and ast.unparse(c.func) == "resolve_date_order"]
            lk = [c for e_ in scan for c in ast.walk(e_) if isinstance(c, ast.Subscript) and ast.unparse(c.value) == "self.num_directives"]
            for c in rc:
                lst = [k.value for k in c.keywords if k.arg == "lst"] + c.args[1:2]
                if c.args and isinstance(c.args[0], ast.Attribute) and c.args[0].attr == "DATE_ORDER" and lst \
                        and isinstance(lst[0], ast.Constant) and lst[0].value is True and lk:
                    ok = ordered
    chk.ob(rule, "ordered_num_directives is num_directives in the order of resolve_date_order(settings.DATE_ORDER, lst=True)", ok,
           "the numeric directives are no longer ordered by the DATE_ORDER setting",
           key={"function": init.key, "construct": "ordered_num_directives"}, file=init.file, function=init.qual, line=init.node.lineno)
    pr = ix.func("dateparser.parser:_parser._parse")
    pn = pr.children.get("parse_number")
    if pn is None:
        raise AnalysisError(rule, "_parser._parse.parse_number not found")
    loops = [n for n in iter_own_nodes(pn.node) if isinstance(n, ast.For)]
    ok = bool(loops) and ast.unparse(loops[0].iter) == "self.ordered_num_directives.items()"
    chk.ob(rule, "parse_number tries the components in the order of ordered_num_directives", ok,
           "iterates %s" % (ast.unparse(loops[0].iter) if loops else None),
           key={"function": pn.key, "construct": "component loop"}, file=pn.file, function=pn.qual, line=pn.node.lineno)
    skip = [n for n in iter_own_nodes(pn.node) if isinstance(n, ast.If) and "skip_component" in ast.unparse(n.test)
            and any(isinstance(x, ast.Continue) for x in n.body)]
    chk.ob(rule, "parse_number skips only the pinned component", len(skip) == 1 and ast.unparse(skip[0].test) == "skip_component == component", "",
           key={"function": pn.key, "construct": "skip test"}, file=pn.file, function=pn.qual, line=pn.node.lineno)
    # skip_component is set only for a 4-character token that was taken as the year
    pcalls0 = [c for c in iter_own_nodes(init.node) if isinstance(c, ast.Call) and ast.unparse(c.func) == "self._parse"]
    pin = None
    for c in pcalls0:
        for k in c.keywords:
            if k.arg == "skip_component" and isinstance(k.value, ast.Name):
                pin = k.value.id
        if pin is None and len(c.args) >= 3 and isinstance(c.args[2], ast.Name):
            pin = c.args[2].id
    if pin is None:
        raise AnalysisError(rule, "_parser.__init__: no local is handed to self._parse as skip_component")
    sets = [n for n in iter_own_nodes(init.node) if isinstance(n, ast.Assign) and ast.unparse(n.targets[0]) == pin
            and not (isinstance(n.value, ast.Constant) and n.value.value is None)]
    ok = len(sets) == 1 and isinstance(sets[0].value, ast.Constant) and sets[0].value.value == "year"
    if ok:
        facts = set()
        for test, pol in enclosing_tests(init.node, sets[0]):
            for a, p in conjuncts(test, pol):
                if p:
                    facts.add(" ".join(ast.unparse(a).split()))
        import re as _re
        ok = any(_re.fullmatch(r"len\((\w+)\) == 4", x) for x in facts) and any(x.endswith("== 'year'") for x in facts)
    chk.ob(rule, "a four-digit token taken as the year pins the year for the remaining tokens", ok, "",
           key={"function": init.key, "construct": "skip_component"}, file=init.file, function=init.qual, line=init.node.lineno)
    pcalls = [c for c in iter_own_nodes(init.node) if isinstance(c, ast.Call) and ast.unparse(c.func) == "self._parse"]
    ok = bool(pcalls) and all({k.arg: ast.unparse(k.value) for k in c.keywords}.get("skip_component") == pin
                              or (len(c.args) >= 3 and ast.unparse(c.args[2]) == pin) for c in pcalls)
    chk.ob(rule, "the pin is handed to _parse for every later token", ok, "", key={"function": init.key, "construct": "skip passed"},
           file=init.file, function=init.qual, line=init.node.lineno)
    nsp = ix.func("dateparser.parser:_no_spaces_parser.parse")
    ok = False
    for n in iter_own_nodes(nsp.node):
        if not isinstance(n, ast.If):
            continue
        t_, then_, else_ = if_arms(n)
        if isinstance(t_, ast.Attribute) and t_.attr == "DATE_ORDER":
            a = [x for x in then_ if isinstance(x, ast.Assign) and isinstance(x.value, ast.Call)
                 and ast.unparse(x.value.func) == "resolve_date_order" and x.value.args
                 and isinstance(x.value.args[0], ast.Attribute) and x.value.args[0].attr == "DATE_ORDER"]
            b = [x for x in else_ if isinstance(x, ast.Assign) and "_default_order" in ast.unparse(x.value)]
            if a and b and ast.unparse(a[0].targets[0]) == ast.unparse(b[0].targets[0]):
                var = ast.unparse(a[0].targets[0])
                ok = any(isinstance(l, ast.For) and isinstance(l.iter, ast.Subscript) and ast.unparse(l.iter.slice) == var
                         and ast.unparse(l.iter.value).endswith("date_formats") for l in iter_own_nodes(nsp.node))
    chk.ob(rule, "the no-spaces parser selects its format list by resolve_date_order(settings.DATE_ORDER)", ok, "",
           key={"function": nsp.key, "construct": "nsp order"}, file=nsp.file, function=nsp.qual, line=nsp.node.lineno)

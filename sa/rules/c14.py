"""C14 — custom date_formats round-trip what the format expresses (structural clauses).

R1 the given formats are tried on the raw string first and a match is returned
R2 parse_with_formats: formats in order, a strptime mismatch moves on, the first match returns; completion and year default
   only for parts the format leaves open (directive table: C08.R3)
R3 the localized path translates with keep_formatting=True, the other parsers with keep_formatting=False
"""
import ast

from ..core.cfg import CFG
from ..core.ctx import conjuncts, enclosing_tests
from ..core.index import iter_own_nodes, iter_own_stmts
from ..core.repo import AnalysisError
from .c08 import DIRECTIVE_PARTS, format_part_table

LEVEL = "other"
EXPLANATION = (
    "Dominance and plumbing rules: in get_date_data the call parse_with_formats(<unsanitised argument>, date_formats or "
    "[], settings) dominates sanitize_date and the locale loop and its non-empty result is returned; parse_with_formats "
    "walks the formats in order with datetime.strptime, continues on ValueError and returns at the first match; the "
    "month/day completion and the current-year default are each guarded by 'that part is missing from the format' "
    "and the table deciding that agrees with strptime's directives; _try_given_formats translates the localized "
    "string with keep_formatting=True while the heuristic parsers use keep_formatting=False. Does not decide the "
    "strptime round trip itself."
)


def run(ctx, chk):
    ix = ctx.ix
    rule = "C14.R1"
    f = ix.func("dateparser.date:DateDataParser.get_date_data")
    p0 = f.params()[1]
    g = CFG(f.node)
    pw = [s for s in iter_own_stmts(f.node.body) if isinstance(s, ast.Assign) and isinstance(s.value, ast.Call)
          and ast.unparse(s.value.func) == "parse_with_formats"]
    if len(pw) != 1:
        raise AnalysisError(rule, "get_date_data: call of parse_with_formats not found")
    call = pw[0].value
    args = [ast.unparse(a) for a in call.args]
    ok = len(args) == 3 and args[0] == p0 and args[1] in ("date_formats or []", "date_formats") and args[2] == "self._settings"
    chk.ob(rule, "get_date_data tries the given formats on the raw argument with the parser's settings", ok, "args %s" % args,
           key={"function": f.key, "construct": "parse_with_formats args"}, file=f.file, function=f.qual, line=pw[0].lineno)
    san = [s for s in iter_own_stmts(f.node.body) if isinstance(s, ast.Assign) and isinstance(s.value, ast.Call)
           and ast.unparse(s.value.func) == "sanitize_date"]
    loops = [s for s in iter_own_stmts(f.node.body) if isinstance(s, ast.For) and "_get_applicable_locales" in ast.unparse(s.iter)]
    for later, what in [(x, "sanitize_date") for x in san] + [(x, "the locale loop") for x in loops]:
        chk.ob(rule, "the raw-format attempt dominates %s" % what, g.dominates(pw[0], later),
               "a heuristic reading can be produced without trying the given formats on the raw string first",
               key={"function": f.key, "construct": "formats before " + what}, file=f.file, function=f.qual, line=later.lineno)
    res = ast.unparse(pw[0].targets[0])
    rets = [s for s in iter_own_stmts(f.node.body) if isinstance(s, ast.Return) and s.value is not None and ast.unparse(s.value) == res]
    ok = False
    for r in rets:
        for t, pol in enclosing_tests(f.node, r):
            for a, p in conjuncts(t, pol):
                if p and ast.unparse(a) in ("%s['date_obj']" % res, "%s.date_obj" % res):
                    ok = g.dominates(r, san[0]) is False and all(r.lineno < x.lineno for x in san + loops)
    chk.ob(rule, "a raw-format match is returned before any heuristic parsing", ok, "",
           key={"function": f.key, "construct": "return format result"}, file=f.file, function=f.qual, line=pw[0].lineno)

    rule = "C14.R2"
    pf = ix.func("dateparser.date:parse_with_formats")
    params = pf.params()
    loops = [n for n in pf.node.body if isinstance(n, ast.For)]
    ok = len(loops) == 1 and ast.unparse(loops[0].iter) == params[1]
    chk.ob(rule, "parse_with_formats walks the formats in the given order", ok, "", key={"function": pf.key, "construct": "format loop"},
           file=pf.file, function=pf.qual, line=pf.node.lineno)
    if not ok:
        return
    lp = loops[0]
    fmt = ast.unparse(lp.target)
    tries = [n for n in lp.body if isinstance(n, ast.Try)]
    ok = False
    if tries:
        t = tries[0]
        sp = [n for n in ast.walk(ast.Module(body=t.body, type_ignores=[])) if isinstance(n, ast.Call) and ast.unparse(n.func) == "datetime.strptime"]
        ok = len(sp) == 1 and [ast.unparse(a) for a in sp[0].args] == [params[0], fmt] and \
            any(h.type is not None and "ValueError" in ast.unparse(h.type) and any(isinstance(x, ast.Continue) for x in h.body) for h in t.handlers)
    chk.ob(rule, "each format is applied with datetime.strptime(date_string, format); a mismatch moves to the next format", ok, "",
           key={"function": pf.key, "construct": "strptime + continue"}, file=pf.file, function=pf.qual, line=lp.lineno)
    rets = [n for n in ast.walk(lp) if isinstance(n, ast.Return)]
    import re as _re
    ok = any(isinstance(r.value, ast.Call) and _re.search(r"date_obj=\w+", ast.unparse(r.value)) for r in rets)
    chk.ob(rule, "the first matching format returns its datetime", ok, "", key={"function": pf.key, "construct": "first match returns"},
           file=pf.file, function=pf.qual, line=lp.lineno)
    # completion guarded by the missing part
    table, where = format_part_table(ctx, rule)
    for n in ast.walk(lp):
        if isinstance(n, ast.Call) and ast.unparse(n.func) in ("set_correct_month_from_settings", "set_correct_day_from_settings"):
            part = "month" if "month" in ast.unparse(n.func) else "day"
            from .c08 import missing_flags
            fl = missing_flags(pf)
            facts = {"missing_" + fl.get(ast.unparse(a), ast.unparse(a)) if ast.unparse(a) in fl else ast.unparse(a)
                     for t_, pol in enclosing_tests(pf.node, n) for a, p in conjuncts(t_, pol) if p}
            # the membership test written out (`'day' in missing_parts`) says the same as a flag bound to it
            for x in list(facts):
                m_ = __import__("re").fullmatch(r"'(month|day)' in \w+", " ".join(x.split()))
                if m_:
                    facts.add("missing_" + m_.group(1))
            chk.ob(rule, "the %s is completed only when the format lacks it" % part, ("missing_" + part) in facts,
                   "guards: %s" % sorted(facts), key={"function": pf.key, "construct": "completion guard " + part + " L-" + str(len(facts))},
                   file=pf.file, function=pf.qual, line=n.lineno)
        if isinstance(n, ast.Call) and isinstance(n.func, ast.Attribute) and n.func.attr == "replace" and any(k.arg == "year" for k in n.keywords):
            facts = {" ".join(ast.unparse(a).split()) for t_, pol in enclosing_tests(pf.node, n) for a, p in conjuncts(t_, pol) if p}
            neg = {" ".join(ast.unparse(a).split()) for t_, pol in enclosing_tests(pf.node, n) for a, p in conjuncts(t_, pol) if not p}
            import re as _re
            ok = any(_re.fullmatch(r"'year' in \w+", x) for x in facts) or \
                (any(x.startswith("'%y' in ") for x in neg) and any(x.startswith("'%Y' in ") for x in neg))
            chk.ob(rule, "the current year is used only when the format has no year directive", ok, "guards %s / not %s" % (sorted(facts), sorted(neg)),
                   key={"function": pf.key, "construct": "year default guard"}, file=pf.file, function=pf.qual, line=n.lineno)
            ysrc = ast.unparse([k.value for k in n.keywords if k.arg == "year"][0])
            tnames = {x.targets[0].id for x in iter_own_nodes(pf.node) if isinstance(x, ast.Assign) and isinstance(x.targets[0], ast.Name)
                      and ast.unparse(x.value) in ("datetime.today()", "datetime.now()")}
            chk.ob(rule, "the default year is the current year (today.year)", ysrc == "datetime.today().year" or any(ysrc == t_ + ".year" for t_ in tnames), "is %s" % ysrc,
                   key={"function": pf.key, "construct": "year default value"}, file=pf.file, function=pf.qual, line=n.lineno)
    for d, parts in sorted(DIRECTIVE_PARTS.items()):
        for part in parts:
            chk.ob(rule, "directive %s counts as stating the %s" % (d, part), d in table.get(part, set()),
                   "a format using %s has its %s overwritten" % (d, part), key={"table": "format parts", "directive": d, "part": part},
                   file=where.file, function=where.qual, line=where.node.lineno)

    rule = "C14.R3"
    D = ix.cls("dateparser.date:_DateLocaleParser")
    for getter, want in (("_get_translated_date", "False"), ("_get_translated_date_with_formatting", "True")):
        m = D.methods.get(getter)
        if m is None:
            raise AnalysisError(rule, "%s not found" % getter)
        tc = [n for n in iter_own_nodes(m.node) if isinstance(n, ast.Call) and ast.unparse(n.func).endswith("locale.translate")]
        ok = len(tc) == 1 and {k.arg: ast.unparse(k.value) for k in tc[0].keywords}.get("keep_formatting") == want \
            and ast.unparse(tc[0].args[0]) == "self.date_string"
        chk.ob(rule, "%s translates self.date_string with keep_formatting=%s" % (getter, want), ok, "",
               key={"function": m.key, "construct": "keep_formatting"}, file=m.file, function=m.qual, line=m.node.lineno)
    users = {"_try_given_formats": "_get_translated_date_with_formatting", "_try_freshness_parser": "_get_translated_date",
             "_try_parser": "_get_translated_date"}
    for meth, getter in users.items():
        m = D.methods.get(meth)
        calls = {ast.unparse(n.func).split(".")[-1] for n in iter_own_nodes(m.node) if isinstance(n, ast.Call)
                 and ast.unparse(n.func).startswith("self._get_translated")} if m else set()
        chk.ob(rule, "%s uses %s" % (meth, getter), calls == {getter}, "uses %s" % sorted(calls),
               key={"function": D.key + "." + meth, "construct": "translation getter"}, file="dateparser/date.py", function=meth, line=None)
    gf = D.methods["_try_given_formats"]
    pc = [n for n in iter_own_nodes(gf.node) if isinstance(n, ast.Call) and ast.unparse(n.func) == "parse_with_formats"]
    ok = len(pc) == 1 and ast.unparse(pc[0].args[1]) == "self.date_formats" and {k.arg: ast.unparse(k.value) for k in pc[0].keywords}.get("settings") == "self._settings"
    chk.ob(rule, "_try_given_formats applies the caller's formats with the parser's settings", ok, "",
           key={"function": gf.key, "construct": "formats plumbing"}, file=gf.file, function=gf.qual, line=gf.node.lineno)
    # keep_formatting keeps separators: fallback keeps non-alphabetic skipped tokens, join without extra spaces
    tr = ix.func("dateparser.languages.locale:Locale.translate")
    t = " ".join(ast.unparse(tr.node).split())
    # the separator expression inline in the _join call, or hoisted into a local that is then passed as separator=
    sep_inline = "separator='' if keep_formatting else ' '" in t
    m_sep = _re.search(r"(\w+) = '' if keep_formatting else ' '", t)
    sep_local = m_sep is not None and ("separator=%s" % m_sep.group(1)) in t
    sep_neg = "separator=' ' if not keep_formatting else ''" in t
    ok = (sep_inline or sep_local or sep_neg) and _re.search(r"\w+\.split\(date_string, keep_formatting\)", t) is not None
    chk.ob(rule, "translate(keep_formatting=True) splits with formatting and joins without inserting spaces", ok, "",
           key={"function": tr.key, "construct": "keep_formatting join"}, file=tr.file, function=tr.qual, line=tr.node.lineno)

"""C06 — every locale's relative phrases mean what their English canon means (grammar + shadowing).

R1 every canonical key (relative-type and relative-type-regex, \\1 instantiated) is accepted by the freshness
   parser's own word filter and yields at least one (count, unit) pair under its PATTERN
R2 counted patterns are well-formed: they compile the way the code compiles them and the number is group 1
R3 a fixed phrase listed with one meaning is not shadowed after rewriting (exact dictionary lookup)
R4 no counted pattern of the locale matches a proper part of a fixed phrase (it would be split before lookup)
"""
import ast
import os
from concurrent.futures import ProcessPoolExecutor

import regex

from ..core.data import LangData
from ..core.effects import fold_list, fold_str
from ..core.index import iter_own_nodes
from ..core.repo import AnalysisError, Repo
from .c05 import _CTX_CACHE, check_templates, relative_split_regex
from .vocab import LocaleModel, extracted, normalize_unicode

LEVEL = "other"
EXPLANATION = (
    "Grammar membership and shadowing analysis over the relative vocabulary of all 504 locales. The freshness parser's "
    "acceptance test (word filter list and PATTERN) is extracted from its source and applied to every canonical key "
    "(with \\1 replaced by a number): a key the filter rejects, or in which PATTERN finds no (count, unit), can never "
    "produce a date. Every counted pattern is compiled exactly as _generate_relative_translations and the split/match "
    "regex builders do, and its numeric group must be group 1 (the replacement uses \\1). Fixed phrases with a single "
    "meaning are pushed through the extracted pre-lookup rewriting and must not land on a key of another meaning, and "
    "no counted pattern may match a proper part of them. Findings on today's tree were confirmed against the real "
    "parser and are listed as known. Does not decide the equality of the resulting datetimes."
)
FP = "dateparser.freshness_date_parser"


def freshness_acceptor(ctx):
    """(word-filter regex, PATTERN regex) extracted from FreshnessDateDataParser"""
    ix = ctx.ix
    f = ix.func(FP + ":FreshnessDateDataParser._are_all_words_units")
    skip = None
    sname = None
    for n in iter_own_nodes(f.node):
        if isinstance(n, ast.Assign) and isinstance(n.value, ast.List) and len(n.value.elts) >= 2 and isinstance(n.targets[0], ast.Name):
            v = fold_list(n.value, f, ix)
            if v is not None and any("ago" in x for x in v):
                skip, sname = v, n.targets[0].id
    import re as _re
    if skip is None:
        raise AnalysisError("C06.model", "_are_all_words_units.skip is not constant")
    # structural reading (statement or expression form alike): the words are the non-empty pieces of re.split(r"\W", <string>); a word is
    # acceptable iff re.match("|".join(skip), word); the answer is "no word is unacceptable"
    want_pat = "|".join(skip)
    calls = [n for n in iter_own_nodes(f.node) if isinstance(n, ast.Call)]
    splits = [c for c in calls if ast.unparse(c.func) in ("re.split", "regex.split") and c.args and fold_str(c.args[0], f, ix) == "\\W"]
    matches = [c for c in calls if ast.unparse(c.func) in ("re.match", "regex.match") and len(c.args) == 2 and not c.keywords]

    def pattern_of(e):
        v = fold_str(e, f, ix)
        if v is not None:
            return v
        if isinstance(e, ast.Name):      # local bound once to "|".join(<skip list>)
            defs = [n.value for n in iter_own_nodes(f.node) if isinstance(n, ast.Assign) and len(n.targets) == 1 and isinstance(n.targets[0], ast.Name)
                    and n.targets[0].id == e.id]
            if len(defs) == 1:
                return pattern_of(defs[0])
        if isinstance(e, ast.Call) and isinstance(e.func, ast.Attribute) and e.func.attr == "join" and isinstance(e.func.value, ast.Constant) \
                and len(e.args) == 1 and isinstance(e.args[0], ast.Name) and e.args[0].id == sname:
            return e.func.value.value.join(skip)
        if isinstance(e, ast.BinOp) and isinstance(e.op, ast.Mod) and isinstance(e.left, ast.Constant) and e.left.value == "%s":
            return pattern_of(e.right)
        return None
    t = " ".join(ast.unparse(f.node).split())
    negated = all(any(isinstance(a_, ast.UnaryOp) and isinstance(a_.op, ast.Not) and a_.operand is m_ for a_ in ast.walk(f.node)) for m_ in matches)
    verdict = _re.search(r"return not (\w+)", t) is not None or ("return False" in t and "return True" in t) or _re.search(r"return (not any|all)\(", t) is not None
    if len(splits) != 1 or len(matches) != 1 or pattern_of(matches[0].args[0]) != want_pat or not verdict \
            or not (negated or _re.search(r"return all\(", t)):
        raise AnalysisError("C06.model", "_are_all_words_units shape changed (split on \\W: %d, re.match of the joined skip list: %s, verdict form: %s)" % (
            len(splits), [pattern_of(m_.args[0]) == want_pat for m_ in matches], verdict))
    if skip is None:
        raise AnalysisError("C06.model", "_are_all_words_units.skip is not constant")
    from ..core.rx import module_regex
    ptxt, flags = module_regex(ix, FP, "PATTERN")
    fl = 0
    for part in flags.replace(" ", "").split("|"):
        fl |= {"re.I": regex.I, "re.S": regex.S, "re.U": regex.U, "": 0}.get(part, 0)
    pd = ix.func(FP + ":FreshnessDateDataParser._parse_date")
    t2 = " ".join(ast.unparse(pd.node).split())
    if "if not self._are_all_words_units(date_string): return (None, None)" not in t2 or not _re.search(r"(\w+) = self\.get_kwargs\(date_string\) if not \1: return \(None, None\)", t2):
        raise AnalysisError("C06.model", "_parse_date acceptance tests changed")
    return regex.compile("|".join(skip)), regex.compile(ptxt, fl)


def accepts(acc, key):
    wf, pat = acc
    s = regex.sub(r"\s+", " ", key.strip())
    words = [x for x in regex.split(r"\W", s) if x]
    rejected = [x for x in words if not wf.match(x)]
    if rejected:
        return "the word filter rejects %s" % rejected
    if not pat.findall(key):
        return "PATTERN finds no (count, unit) pair"
    return None


def analyse_locale(args):
    root, overlay, lang, locale, acc_src = args
    from ..core.context import Ctx
    key = (root, tuple(sorted((k, hash(v)) for k, v in (overlay or {}).items())))
    ctx = _CTX_CACHE.get(key)
    if ctx is None:
        _CTX_CACHE.clear()
        ctx = _CTX_CACHE[key] = Ctx(Repo(root, overlay))
    acc = (regex.compile(acc_src[0]), regex.compile(acc_src[1], acc_src[2]))
    out = []
    try:
        m = LocaleModel(ctx, lang, locale)
        known = set(m.ex.known_words)
        info = m.info
        # R1
        for k in info.get("relative-type", {}):
            why = None if k in known else accepts(acc, k)
            out.append(("R1", locale, k, None, why))
        for k in info.get("relative-type-regex", {}):
            inst = k.replace("\\1", "3")
            why = None if inst in known else accepts(acc, inst)
            out.append(("R1", locale, k, None, why))
            if "\\1" in k:
                for n in ("1.5", "45"):
                    w2 = accepts(acc, k.replace("\\1", n))
                    if w2 and not why:
                        out.append(("R1", locale, k, n, w2))
        # R2
        for k, pats in info.get("relative-type-regex", {}).items():
            for normalize in (False, True):
                vals = [normalize_unicode(p) for p in pats] if normalize else list(pats)
                body = "|".join(sorted(vals, key=len, reverse=True)).replace(r"(\d+", r"(?P<n>\d+")
                try:
                    rx_ = regex.compile(r"^(?:{})$".format(body), regex.U | regex.I)
                except regex.error as e:
                    out.append(("R2", locale, k, "compile", "does not compile as _generate_relative_translations builds it: %s" % e))
                    continue
                if "\\1" in k:
                    gi = dict(rx_.groupindex)
                    if gi.get("n") != 1:
                        out.append(("R2", locale, k, "group", "the number is not capturing group 1 (groupindex %s): \\1 in the replacement picks another group" % gi))
                    else:
                        out.append(("R2", locale, k, "group", None))
                for p in vals:
                    try:
                        regex.compile(regex.sub(r"[\(\)]", "", p), regex.U | regex.I)
                    except regex.error as e:
                        out.append(("R2", locale, k, p, "parenthesis-stripped form does not compile: %s" % e))
        # R6: a counted phrase, instantiated, still reads as its canon after the pre-lookup rewriting
        from ..core import rx as _rx
        for k, pats in info.get("relative-type-regex", {}).items():
            if "\\1" not in k or m.no_word_spacing:
                continue
            for pat in pats:
                # single meaning only: a pattern listed under several keys is decided by the table order, not by this rule
                if sum(1 for ps_ in info.get("relative-type-regex", {}).values() if pat in ps_) != 1:
                    continue
                ok_int = {}
                for num in ("45", "2", "2,5"):
                    phrase = _rx.sample(pat, num)
                    if not phrase or num not in phrase:
                        continue
                    try:
                        if not regex.fullmatch(pat, phrase, regex.U | regex.I):
                            continue        # the pattern does not admit this spelling of the number
                    except regex.error:
                        continue
                    want = k.replace("\\1", num)
                    for normalize in (True, False):
                        t = m.rewrite(phrase, normalize).strip()
                        hit = None
                        for k2, pats2 in info.get("relative-type-regex", {}).items():
                            vals2 = [normalize_unicode(p2) for p2 in pats2] if normalize else list(pats2)
                            body = "|".join(sorted(vals2, key=len, reverse=True)).replace(r"(\d+", r"(?P<n>\d+")
                            try:
                                mm = regex.fullmatch(r"(?:{})".format(body), t, regex.U | regex.I)
                            except regex.error:
                                mm = None
                            if mm:
                                hit = k2.replace("\\1", mm.groupdict().get("n") or "")
                                break
                        if num == "2,5":
                            # decimal-specific: only where the integer spelling was fine and the phrase no longer matches a counted
                            # pattern as a whole - the word-by-word path splits '2,5' into '2' and '5' (the comma is dropped)
                            if ok_int.get(normalize) and hit is None and regex.search(r"\d,\d", t):
                                out.append(("R6", locale, k, (phrase, normalize),
                                            "after the rewriting the phrase reads %r, which no counted pattern matches as a whole: on the word-by-word "
                                            "path the decimal comma is dropped and the count is read as two numbers" % t))
                            continue
                        if hit is not None:
                            ok = " ".join(hit.split()) == " ".join(want.split())
                            if num == "2":
                                ok_int[normalize] = ok
                            out.append(("R6", locale, k, (phrase, normalize), None if ok else
                                        "after the rewriting the phrase reads %r and is taken for %r instead of %r" % (t, hit, want)))
                            continue
                        # word-by-word path: every word must be known; the translation must spell the canon
                        d = m.dictionary(normalize)
                        words, unknown = [], []
                        for w in t.split():
                            w0 = w.strip("()\"'{}[],.،:;")
                            if regex.fullmatch(r"\d+(?:[.,]\d+)?", w0):
                                words.append(w0)
                            elif w0 in d or w in d:
                                v = d.get(w0, d.get(w))
                                if v is not None:
                                    words.append(v)
                            else:
                                unknown.append(w0)
                        if unknown:
                            out.append(("R6", locale, k, (phrase, normalize),
                                        "after the rewriting the phrase reads %r: no counted pattern matches it and %s is unknown to the locale" % (t, unknown)))
                        elif " ".join(" ".join(words).split()) != " ".join(want.split()):
                            out.append(("R6", locale, k, (phrase, normalize),
                                        "after the rewriting the phrase reads %r, which translates word by word to %r instead of %r" % (t, " ".join(words), want)))
                        else:
                            if num == "2":
                                ok_int[normalize] = True
                            out.append(("R6", locale, k, (phrase, normalize), None))
        # R3 / R4
        meanings = m.meanings(())
        for normalize in (True, False):
            d = m.dictionary(normalize)
            split_rx = relative_split_regex(m, normalize)
            for k, phrases in info.get("relative-type", {}).items():
                for p in phrases:
                    if meanings.get(p.lower(), set()) != {k}:
                        continue
                    t = m.rewrite(p, normalize).strip()
                    if t in d and d[t] != k and d[t] is not None:
                        out.append(("R3", locale, k, (p, normalize), "the rewritten phrase %r is a dictionary key meaning %r" % (t, d[t])))
                    elif t not in d and not m.no_word_spacing and _lost_words(m, t, d, info, normalize):
                        out.append(("R3", locale, k, (p, normalize), "rewriting (sanitising, numerals, normalisation, simplifications) turns the phrase into %r, which is "
                                    "no dictionary key, matches no counted pattern as a whole, and contains the unknown word(s) %s: the locale rejects the string"
                                    % (t, _lost_words(m, t, d, info, normalize))))
                    elif split_rx is not None:
                        mm = split_rx.search(t)
                        torn = next((x for x in split_rx.finditer(t) if not x.group(0) and 0 < x.start() < len(t)), None)
                        if mm and mm.group(0) and mm.span() != (0, len(t)):
                            out.append(("R4", locale, k, (p, normalize), "the counted pattern matches the part %r of %r and splits it before lookup" % (mm.group(0), t)))
                        elif torn is not None:
                            out.append(("R4", locale, k, (p, normalize), "the (empty) relative split expression tears %r apart at position %d" % (t, torn.start())))
                        else:
                            out.append(("R3", locale, k, (p, normalize), None))
                    else:
                        out.append(("R3", locale, k, (p, normalize), None))
    except AnalysisError as e:
        return [("error", locale, None, None, "%s: %s" % (e.rule, e.reason))]
    return out


def _lost_words(m, t, d, info, normalize):
    """words of the rewritten phrase t that nothing in the locale knows, unless t as a whole is a counted phrase"""
    for k, pats in info.get("relative-type-regex", {}).items():
        vals = [normalize_unicode(p) for p in pats] if normalize else list(pats)
        body = "|".join(sorted(vals, key=len, reverse=True))
        try:
            if regex.fullmatch(body, t, regex.U | regex.I):
                return []
        except regex.error:
            return []
    unknown = []
    for w in t.split():
        w0 = w.strip("()\"'{}[],.،:;")
        if not w0 or w0 in d or w in d or regex.fullmatch(r"\d+(?:[.,:]\d+)*", w0):
            continue
        unknown.append(w0)
    # multi-word dictionary keys contained in t cover their words
    if unknown:
        for key in d:
            if " " in key and key in t:
                unknown = [u for u in unknown if u not in key.split()]
    return unknown


def run(ctx, chk):
    ld = ctx.memo("langdata", lambda: LangData(ctx.repo))
    extracted(ctx)
    check_templates(ctx)
    acc = freshness_acceptor(ctx)
    acc_src = (acc[0].pattern, acc[1].pattern, acc[1].flags)
    # _generate_relative_translations conformance
    from .util import relative_pattern_model
    import re as _re
    m_ = relative_pattern_model(ctx)
    if m_ is None:
        raise AnalysisError("C06.model", "_generate_relative_translations: no single re.compile(<wrapper around the joined patterns>, <flags>) found")
    if m_["template"] != "^(?:{})$" or m_["flags"] != {"U", "I"}:
        raise AnalysisError("C06.model", "_generate_relative_translations compiles %r with flags %s; the model has '^(?:{})$' with U|I"
                            % (m_["template"], sorted(m_["flags"])))
    if not _re.fullmatch(r"'\|'\.join\(sorted\((\w+), key=len, reverse=True\)\)\.replace\('\(\\\\d\+', '\(\?P<n>\\\\d\+'\)", m_["body"]):
        raise AnalysisError("C06.model", "_generate_relative_translations shape changed: the wrapper is filled with %s" % m_["body"][:120])
    todo = [(ctx.repo.root, ctx.repo.overlay, lang, loc, acc_src) for lang, loc in ld.all_locales()]
    jobs = int(os.environ.get("VERIF_JOBS", "16"))
    results = []
    with ProcessPoolExecutor(max_workers=jobs) as ex:
        for r in ex.map(analyse_locale, todo, chunksize=8):
            results.extend(r)
    counts = {}
    lang_of = {}
    for l in ld.languages():
        lang_of[l] = l
        for loc in ld.locales(l):
            lang_of[loc] = l
    for rule_, locale, k, extra, why in results:
        if rule_ == "error":
            chk.error("C06.model", why)
            continue
        rule = "C06." + rule_
        counts[rule] = counts.get(rule, 0) + 1
        if why is None:
            chk.instances[rule] = chk.instances.get(rule, 0) + 1
            chk.obligations.append((rule, "%s %r %s" % (locale, k, extra if extra else ""), True, ""))
            chk.nontrivial.add((rule, locale, k, str(extra)))
            continue
        key = {"locale": locale, "key": k}
        if isinstance(extra, tuple):
            key["phrase"], key["normalize"] = extra
        elif extra:
            key["detail"] = extra
        chk.ob(rule, "%s: canonical key %r %s" % (locale, k, ("phrase %r" % (extra[0],)) if isinstance(extra, tuple) else ""), False, why,
               key=key, file="dateparser/data/date_translation_data/%s.py" % lang_of.get(locale, locale),
               function="info['relative-type%s']" % ("-regex" if "\\1" in k else ""), line=None)
    chk.floor("C06.R1", counts.get("C06.R1", 0), 4000, "canonical relative keys examined")
    chk.floor("C06.R2", counts.get("C06.R2", 0), 2000, "counted patterns examined")
    chk.floor("C06.R3", counts.get("C06.R3", 0) + counts.get("C06.R4", 0), 3000, "fixed phrases x NORMALIZE modes examined")
    from .c05 import code_rules
    code_rules(ctx, chk, rule="C06.R5")
    chk.assume("the simplification-erasure rule (C05 S-A) is not applied to relative phrases: a simplification may rewrite a fixed phrase into an equivalent counted form")

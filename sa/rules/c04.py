"""C04 — relative expressions are exact calendar arithmetic (structural clauses only).

R1 unit tables agree in the five places that spell them        R2 overflow => None
R3 direction truth table (in / ago / future)                   R4 unit->relativedelta key mapping, decade folding
R5 period selection order                                      R6 clock-time override plumbing
R7 English fixed words sit under the canonical key with the documented shift
"""
import ast
import inspect

from ..core import guards as G
from ..core.data import LangData, module_literal
from ..core.effects import fold_list, fold_str
from ..core.index import iter_own_nodes, iter_own_stmts
from ..core.repo import AnalysisError
from .escape_common import build_effects

LEVEL = "other"
EXPLANATION = (
    "Table-agreement, handler-coverage, sign and plumbing rules on the freshness parser: the unit vocabulary is "
    "the same in the regex, the word filter, the dictionary's known words, the future-word table and the "
    "relativedelta keyword set; decades are folded into years with factor 10 before relativedelta; the handler "
    "around the freshness parser covers its whole may-raise set and yields None; the add/subtract decision equals "
    "in OR (future AND NOT ago); the period loop prefers weeks<months<years only without days; the parsed clock "
    "time replaces exactly hour/minute/second/microsecond; English today/yesterday/tomorrow/last/next words map "
    "to the documented canonical shifts. Does not decide relativedelta's arithmetic or period choice for arbitrary strings."
)
FP = "dateparser.freshness_date_parser"


def run(ctx, chk):
    r1(ctx, chk)
    r2(ctx, chk)
    r3(ctx, chk)
    r4(ctx, chk)
    r5(ctx, chk)
    r6(ctx, chk)
    r7(ctx, chk)
    from .c12 import relative_now_rule
    relative_now_rule(ctx, chk, "C04.R8")
    from .c12 import aware_value_untouched_rule
    aware_value_untouched_rule(ctx, chk, "C04.R9")
    unit_spelling_rule(ctx, chk, "C04.R10")


def _units(ctx):
    m = ctx.ix.module(FP)
    u = fold_str(ast.Name(id="_UNITS", ctx=ast.Load()), m.toplevel, ctx.ix)
    if not u:
        raise AnalysisError("C04.R1", "freshness_date_parser._UNITS is not a constant string")
    return u.split("|")


def r1(ctx, chk):
    rule = "C04.R1"
    ix = ctx.ix
    units = _units(ctx)
    chk.floor(rule + ".units", len(units), 6, "units in _UNITS")
    known = module_literal(ctx.repo, "dateparser/languages/dictionary.py", "KNOWN_WORD_TOKENS")
    for u in units:
        chk.ob(rule, "unit %s ∈ dictionary.KNOWN_WORD_TOKENS" % u, u in known,
               "the unit is parsed by the freshness regex but no locale word can translate to it",
               key={"table": "KNOWN_WORD_TOKENS", "unit": u}, file="dateparser/languages/dictionary.py",
               function="<module>", line=None)
    for w in ("ago", "in"):
        chk.ob(rule, "direction word %s ∈ KNOWN_WORD_TOKENS" % w, w in known, "",
               key={"table": "KNOWN_WORD_TOKENS", "unit": w}, file="dateparser/languages/dictionary.py",
               function="<module>", line=None)
    # the English vocabulary (the canon every other language is translated to) spells every unit in the singular and the plural as WORDS:
    # in a phrase of several units only the last count sits next to ago/in and is covered by a counted pattern; '30 seconds' inside
    # 'in 1 minute 30 seconds' is translated word by word
    ld = ctx.memo("langdata", lambda: LangData(ctx.repo))
    en = ld.locale_info("en", "en")
    for u in units:
        words = en.get(u, [])
        for form in (u, u + "s"):
            chk.ob(rule, "English lists the word %r under %s" % (form, u), form in words,
                   "en.py info[%r] is %r: a multi-unit phrase using %r ('in 1 minute 30 %s') is not translated and parses to None" % (u, words, form, form),
                   key={"table": "en words", "unit": form}, file="dateparser/data/date_translation_data/en.py", function="info[%r]" % u, line=None)
    # the word filter accepts every unit and the direction words
    f = ix.func(FP + ":FreshnessDateDataParser._are_all_words_units")
    skip = None
    for n in iter_own_nodes(f.node):
        if isinstance(n, ast.Assign) and isinstance(n.value, ast.List) and len(n.value.elts) >= 2:
            v = fold_list(n.value, f, ix)
            if v is not None and any("ago" in x for x in v):
                skip = v
    if skip is None:
        raise AnalysisError(rule, "_are_all_words_units.skip is not a list of constant patterns")
    import regex as re
    pat = re.compile("|".join(skip))
    for u in units + ["ago", "in", "15"]:
        chk.ob(rule, "word filter accepts %r" % u, bool(pat.match(u)),
               "a canonical word is rejected by _are_all_words_units, so phrases using it parse to None",
               key={"table": "skip", "unit": u}, file=f.file, function=f.qual, line=f.node.lineno)
    # PATTERN is built from _UNITS, case-insensitively, with a word boundary after the unit
    from ..core.rx import module_regex
    ptxt, flags = module_regex(ix, FP, "PATTERN")
    ok = ("(" + "|".join(units) + ")\\b") in ptxt and ("re.I" in flags or "IGNORECASE" in flags)
    chk.ob(rule, "PATTERN = <number>\\s*(<_UNITS>)\\b, IGNORECASE", ok,
           "the count/unit regex no longer spells exactly the unit table followed by a word boundary",
           key={"table": "PATTERN", "unit": "*"}, file="dateparser/freshness_date_parser.py", function="<module>",
           line=None, text=ptxt)
    # relativedelta accepts unit+'s' for every unit except those deleted before the call
    try:
        from dateutil.relativedelta import relativedelta
        rd_kw = set(inspect.signature(relativedelta.__init__).parameters) - {"self"}
    except Exception:  # pragma: no cover
        rd_kw = {"years", "months", "days", "leapdays", "weeks", "hours", "minutes", "seconds", "microseconds"}
        chk.assume("dateutil not importable: relativedelta keyword set taken from its documentation")
    gk = ix.func(FP + ":FreshnessDateDataParser.get_kwargs")
    deleted = set()
    for n in iter_own_nodes(gk.node):
        if isinstance(n, ast.Delete):
            for t in n.targets:
                if isinstance(t, ast.Subscript) and isinstance(t.slice, ast.Constant):
                    deleted.add(t.slice.value)
        elif isinstance(n, ast.Call) and isinstance(n.func, ast.Attribute) and n.func.attr == "pop" and n.args and isinstance(n.args[0], ast.Constant):
            deleted.add(n.args[0].value)          # kwargs.pop("decades") removes the key as well
    for u in units:
        k = u + "s"
        ok = k in rd_kw or k in deleted
        chk.ob(rule, "relativedelta accepts %s (or it is folded away first)" % k, ok,
               "relativedelta(**kwargs) raises TypeError for this unit",
               key={"table": "relativedelta", "unit": u}, file=gk.file, function=gk.qual, line=gk.node.lineno)
    # the future-word table that decides whether a translated 'in' is kept
    cf = ix.func("dateparser.languages.locale:Locale._clear_future_words")
    fw = None
    for n in iter_own_nodes(cf.node):
        if isinstance(n, ast.Assign) and isinstance(n.value, (ast.Set, ast.List, ast.Tuple)):
            try:
                fw = set(ast.literal_eval(n.value))
            except Exception:
                pass
    if fw is None:
        raise AnalysisError(rule, "Locale._clear_future_words: word set literal not found")
    for u in units:
        chk.ob(rule, "unit %s ∈ Locale._clear_future_words' table" % u, u in fw,
               "a translated 'in' next to this unit is dropped, flipping 'in N %ss' to the past "
               "whenever the phrase is not matched by a whole-phrase pattern" % u,
               key={"table": "freshness_words", "unit": u}, file=cf.file, function=cf.qual, line=cf.node.lineno)


def r2(ctx, chk):
    rule = "C04.R2"
    ix = ctx.ix
    ef, ex = build_effects(ctx, chk, rule)
    tf = ix.func("dateparser.date:_DateLocaleParser._try_freshness_parser")
    tries = [s for s in iter_own_stmts(tf.node.body) if isinstance(s, ast.Try)]
    call_in_try = None
    for t in tries:
        for n in ast.walk(ast.Module(body=t.body, type_ignores=[])):
            if isinstance(n, ast.Call) and ast.unparse(n.func).endswith("get_date_data"):
                call_in_try = t
    chk.ob(rule, "_try_freshness_parser calls the freshness parser inside a try", call_in_try is not None,
           "the freshness parser runs without the handler that turns overflow into None",
           key={"function": tf.key, "construct": "call inside try"}, file=tf.file, function=tf.qual,
           line=tf.node.lineno)
    if call_in_try is None:
        return
    names = []
    for h in call_in_try.handlers:
        names += ef.handler_names(h, tf)
    target = ix.func(FP + ":FreshnessDateDataParser.get_date_data")
    classes = sorted({e for e, _ in ef.escapes(target.key)})
    chk.floor(rule + ".mayraise", len(classes), 2, "exception classes in the freshness parser's may-raise set")
    for c in classes:
        ok = any(nm is None or ef.h.issub(c, nm) for nm in names)
        w = [o for (e, o) in ef.escapes(target.key) if e == c][:1]
        chk.ob(rule, "handler of _try_freshness_parser covers %s" % c, ok,
               "%s (e.g. from %s) is not turned into None" % (c, w),
               key={"function": tf.key, "construct": "handler covers " + c}, file=tf.file, function=tf.qual,
               line=call_in_try.lineno)
    for h in call_in_try.handlers:
        body_ok = all(isinstance(s, (ast.Pass,)) or (isinstance(s, ast.Return) and (
            s.value is None or (isinstance(s.value, ast.Constant) and s.value.value is None))) for s in h.body)
        chk.ob(rule, "handler `except %s` yields None" % (ast.unparse(h.type) if h.type else ""), body_ok,
               "the handler does something other than returning None",
               key={"function": tf.key, "construct": "handler returns None"}, file=tf.file, function=tf.qual,
               line=h.lineno)


def r3(ctx, chk):
    rule = "C04.R3"
    f = ctx.ix.func(FP + ":FreshnessDateDataParser._parse_date")
    params = f.params()

    def atom(e):
        # re.search(r"\bWORD\b", subject)
        if isinstance(e, ast.Call) and ast.unparse(e.func) in ("re.search", "regex.search") and len(e.args) == 2:
            p = fold_str(e.args[0], f, ctx.ix)
            subj = ast.unparse(e.args[1])
            if p and p.startswith("\\b") and p.endswith("\\b"):
                w = p[2:-2]
                if w in ("in", "ago") and subj == params[1]:
                    return w
                if w in ("future", "past") and subj == params[3]:
                    return w
        return None

    from ..core.ctx import _resolve_flag
    found = 0
    decisions = []          # (test expression, sign of the then-arm, sign of the else-arm, node)
    for s in iter_own_stmts(f.node.body):
        if not isinstance(s, ast.If):
            continue
        def sign(block):
            for b in block:
                v_ = None
                if isinstance(b, ast.Assign):
                    v_ = b.value
                elif isinstance(b, ast.Return) and b.value is not None:
                    v_ = b.value.elts[0] if isinstance(b.value, ast.Tuple) and b.value.elts else b.value
                if isinstance(v_, ast.BinOp) and isinstance(v_.op, (ast.Add, ast.Sub)) and ast.unparse(v_.left) == params[2]:
                    return "+" if isinstance(v_.op, ast.Add) else "-"
            return None
        other = s.orelse
        if not other and s.body and isinstance(s.body[-1], ast.Return) and sign(s.body) is not None:
            blk = f.node.body
            other = blk[blk.index(s) + 1:] if s in blk else []          # `if T: return now + d, p` followed by `return now - d, p`
        sa, sb = sign(s.body), sign(other)
        if sa is None and sb is None:
            continue
        decisions.append((s.test, sa, sb, s))
    # the same decision as a conditional expression: `now + d if <test> else now - d` (the test possibly through a flag local)
    for e_ in iter_own_nodes(f.node):
        if isinstance(e_, ast.IfExp):
            def esign(x):
                if isinstance(x, ast.BinOp) and isinstance(x.op, (ast.Add, ast.Sub)) and ast.unparse(x.left) == params[2]:
                    return "+" if isinstance(x.op, ast.Add) else "-"
                return None
            sa, sb = esign(e_.body), esign(e_.orelse)
            if sa is not None or sb is not None:
                decisions.append((_resolve_flag(f.node, e_.test), sa, sb, e_))
    for test_, sa, sb, s in decisions:
        found += 1
        form = G.to_formula(test_, atom)
        free = G.atoms_of(form, ("free",))
        spec = ("or", ("atom", "in"), ("and", ("atom", "future"), ("not", ("atom", "ago"))))
        if sa == "-" and sb == "+":
            form = G.neg(form)
            sa, sb = sb, sa
        ok = sa == "+" and sb == "-" and not free
        diff = None
        if ok:
            diff = G.equivalent(form, spec, {"in", "ago", "future"})
            ok = diff is None
        chk.ob(rule, "_parse_date adds the delta iff in ∨ (future ∧ ¬ago), else subtracts; test = %s" % G.show(form), ok,
               "direction decision differs from the specification%s" % (
                   " under " + str({k: v for k, v in diff.items()}) if diff else
                   " (branches %s/%s, unrecognised atoms %s)" % (sa, sb, sorted(free))),
               key={"function": f.key, "construct": "direction truth table"}, file=f.file, function=f.qual,
               line=s.lineno, text=ast.unparse(test_))
    chk.floor(rule, found, 1, "direction branches in _parse_date")
    # the delta is relativedelta(**kwargs) of get_kwargs(date_string)
    txt = {ast.unparse(n) for n in iter_own_nodes(f.node) if isinstance(n, ast.Call)}
    ok = any(t.startswith("relativedelta(**") for t in txt) and any("get_kwargs(%s)" % params[1] in t for t in txt)
    chk.ob(rule, "delta = relativedelta(**get_kwargs(date_string))", ok, "",
           key={"function": f.key, "construct": "relativedelta(**kwargs)"}, file=f.file, function=f.qual,
           line=f.node.lineno)


def _linear(e, syms):
    """coefficients {symbol: c, 1: const} of a +,-,* expression, or None"""
    txt = " ".join(ast.unparse(e).split())
    for name, forms in syms.items():
        if txt in forms:
            return {name: 1}
    if isinstance(e, ast.Constant) and isinstance(e.value, (int, float)):
        return {1: e.value}
    if isinstance(e, ast.BinOp):
        a, b = _linear(e.left, syms), _linear(e.right, syms)
        if a is None or b is None:
            return None
        if isinstance(e.op, (ast.Add, ast.Sub)):
            s = 1 if isinstance(e.op, ast.Add) else -1
            out = dict(a)
            for k, v in b.items():
                out[k] = out.get(k, 0) + s * v
            return out
        if isinstance(e.op, ast.Mult):
            if set(a) <= {1}:
                return {k: a.get(1, 0) * v for k, v in b.items()}
            if set(b) <= {1}:
                return {k: b.get(1, 0) * v for k, v in a.items()}
    return None


def r4(ctx, chk):
    rule = "C04.R4"
    f = ctx.ix.func(FP + ":FreshnessDateDataParser.get_kwargs")
    # kwargs[unit + "s"] = float(num...) for the (num, unit) pairs of PATTERN.findall
    ok_key = False
    for n in iter_own_nodes(f.node):
        if isinstance(n, ast.Assign) and isinstance(n.targets[0], ast.Subscript):
            k = n.targets[0].slice
            if isinstance(k, ast.BinOp) and isinstance(k.op, ast.Add) and isinstance(k.right, ast.Constant) and k.right.value == "s" \
                    and isinstance(k.left, ast.Name) and ast.unparse(n.value).startswith("float("):
                ok_key = True
            if isinstance(k, ast.JoinedStr) and len(k.values) == 2 and isinstance(k.values[0], ast.FormattedValue) and isinstance(k.values[0].value, ast.Name) \
                    and isinstance(k.values[1], ast.Constant) and k.values[1].value == "s" and ast.unparse(n.value).startswith("float("):
                ok_key = True
    # the same in one dict comprehension: {unit + "s": float(num...) for num, unit in <matches>}
    comps = [n for n in iter_own_nodes(f.node) if isinstance(n, ast.DictComp) and len(n.generators) == 1]
    for n in comps:
        k = n.key
        if isinstance(k, ast.BinOp) and isinstance(k.op, ast.Add) and isinstance(k.right, ast.Constant) and k.right.value == "s" \
                and isinstance(k.left, ast.Name) and ast.unparse(n.value).startswith("float("):
            ok_key = True
    chk.ob(rule, "get_kwargs stores float(count) under unit+'s'", ok_key,
           "the count is not stored under the plural relativedelta key of its own unit",
           key={"function": f.key, "construct": "kwargs[unit + 's'] = float(num)"}, file=f.file, function=f.qual,
           line=f.node.lineno)
    # decade folding: years := 10*decades + years ; del decades
    # the dict that is returned (robust to its local name)
    rets = [n.value.id for n in iter_own_nodes(f.node) if isinstance(n, ast.Return) and isinstance(n.value, ast.Name)]
    if not rets:
        raise AnalysisError(rule, "get_kwargs does not return a local dict")
    kw = rets[-1]
    syms = {"D": {"%s['decades']" % kw, "%s.pop('decades')" % kw}, "Y": {"%s.get('years', 0)" % kw, "%s['years']" % kw}}
    # every way the decades count is read from the dict: kw['decades'], kw.pop('decades'[, default]), kw.get('decades'[, default])
    for n in iter_own_nodes(f.node):
        if isinstance(n, ast.Call) and isinstance(n.func, ast.Attribute) and n.func.attr in ("pop", "get") and ast.unparse(n.func.value) == kw \
                and n.args and isinstance(n.args[0], ast.Constant) and n.args[0].value == "decades":
            syms["D"] = syms["D"] | {ast.unparse(n)}
    for n in iter_own_nodes(f.node):        # a local that holds the decades count stands for it
        if isinstance(n, ast.Assign) and len(n.targets) == 1 and isinstance(n.targets[0], ast.Name) and ast.unparse(n.value) in syms["D"]:
            syms["D"] = syms["D"] | {n.targets[0].id}
    fold = None
    stores = 0
    for n in iter_own_nodes(f.node):
        if isinstance(n, ast.Assign) and ast.unparse(n.targets[0]) == "%s['years']" % kw:
            fold = _linear(n.value, syms)
            line = n.lineno
            stores += 1
        elif isinstance(n, ast.AugAssign) and ast.unparse(n.target) == "%s['years']" % kw and isinstance(n.op, ast.Add):
            fold = _linear(n.value, syms)
            if fold is not None:
                fold["Y"] = fold.get("Y", 0) + 1
            line = n.lineno
            stores += 1
    if stores and fold is None:
        # the years entry IS written, from something this rule cannot read as a sum of decades and years: undecided, not a violation
        raise AnalysisError(rule, "get_kwargs: the value stored under 'years' is not a form this rule can read")
    ok = fold is not None and fold.get("D") == 10 and fold.get("Y") == 1 and not fold.get(1)
    chk.ob(rule, "decades are folded as years = 10*decades + years", ok,
           "folding is %s" % fold,
           key={"function": f.key, "construct": "years = 10*decades + years"}, file=f.file, function=f.qual,
           line=f.node.lineno)
    dels = [ast.unparse(t) for n in iter_own_nodes(f.node) if isinstance(n, ast.Delete) for t in n.targets]
    pops = [n for n in iter_own_nodes(f.node) if isinstance(n, ast.Call) and ast.unparse(n.func) == "%s.pop" % kw and n.args
            and isinstance(n.args[0], ast.Constant) and n.args[0].value == "decades"]
    chk.ob(rule, "the decades key is deleted before relativedelta", "%s['decades']" % kw in dels or bool(pops), "",
           key={"function": f.key, "construct": "del kwargs['decades']"}, file=f.file, function=f.qual,
           line=f.node.lineno)
    # ... on every path on which the key exists: the deletion is guarded by key MEMBERSHIP only (a test on the value
    # skips the count 0 and hands decades=0.0 to relativedelta -> TypeError), or it is an unconditional pop with a default
    from ..core.ctx import conjuncts as _cj, enclosing_tests as _et
    for n in iter_own_nodes(f.node):
        if (isinstance(n, ast.Delete) and any(ast.unparse(t) == "%s['decades']" % kw for t in n.targets)) or (n in pops and len(n.args) == 1):
            guards = [(" ".join(ast.unparse(a).split()), p_) for t_, pol in _et(f.node, n) for a, p_ in _cj(t_, pol)]
            import re as _re2
            about_kw = [(g, p_) for g, p_ in guards if _re2.search(r"\b%s\b" % _re2.escape(kw), g)]
            ok = all((g == "'decades' in %s" % kw and p_) or (g == "'decades' not in %s" % kw and not p_) for g, p_ in about_kw)
            chk.ob(rule, "the decades key is removed whenever it is present (guard: key membership only)", ok,
                   "guards %s: for some counts the key survives and reaches relativedelta(**kwargs), which rejects it" % guards,
                   key={"function": f.key, "construct": "decades removal guard"}, file=f.file, function=f.qual, line=n.lineno)
    # every (num, unit) match contributes (several units add up): a loop over PATTERN.findall
    loops = [n for n in iter_own_nodes(f.node) if isinstance(n, ast.For)]
    ok = (any("findall" in ast.unparse(n.iter) or isinstance(n.iter, ast.Name) for n in loops)
          or any("findall" in ast.unparse(c_.generators[0].iter) or isinstance(c_.generators[0].iter, ast.Name) for c_ in comps)) and \
        any("PATTERN.findall" in ast.unparse(n) for n in iter_own_nodes(f.node) if isinstance(n, ast.Call))
    chk.ob(rule, "get_kwargs loops over all PATTERN.findall matches", ok, "",
           key={"function": f.key, "construct": "for num, unit in PATTERN.findall(...)"}, file=f.file,
           function=f.qual, line=f.node.lineno)


def r5(ctx, chk):
    """which period is reported: decided by evaluating the statements of _parse_date that set the period, for all 16 combinations of
    which of days/weeks/months/years the phrase counts (a loop with break, a next() over a generator, a lookup table and an if-chain all
    say the same thing when they give the same 16 answers)"""
    rule = "C04.R5"
    f = ctx.ix.func(FP + ":FreshnessDateDataParser._parse_date")
    pname = _period_name(f)
    kwname = None
    for n in iter_own_nodes(f.node):
        if isinstance(n, ast.Assign) and isinstance(n.value, ast.Call) and ast.unparse(n.value.func).endswith("get_kwargs") and isinstance(n.targets[0], ast.Name):
            kwname = n.targets[0].id
    if kwname is None:
        chk.error(rule, "_parse_date: the local holding get_kwargs(..) was not found")
        return

    class Unknown(Exception):
        pass

    class Brk(Exception):
        pass

    def const_seq(e):
        try:
            return ast.literal_eval(e)
        except Exception:
            pass
        if isinstance(e, ast.Name):
            vals = f.module.assigns.get(e.id)
            if vals:
                try:
                    return ast.literal_eval(vals[-1])
                except Exception:
                    pass
        if isinstance(e, ast.Call) and isinstance(e.func, ast.Attribute) and e.func.attr == "items" and not e.args:
            d = const_seq(e.func.value)
            if isinstance(d, dict):
                return list(d.items())
        raise Unknown(ast.unparse(e)[:40])

    def ev(e, env, present):
        if isinstance(e, ast.Constant):
            return e.value
        if isinstance(e, ast.Name):
            if e.id in env:
                return env[e.id]
            vals = f.module.assigns.get(e.id)
            if vals and len(vals) == 1:
                try:
                    return ast.literal_eval(vals[0])
                except Exception:
                    pass
            raise Unknown(e.id)
        if isinstance(e, ast.Subscript):
            v = ev(e.value, env, present) if not (isinstance(e.value, ast.Name) and e.value.id not in env) else const_seq(e.value)
            if isinstance(e.slice, ast.Slice):
                lo = ev(e.slice.lower, env, present) if e.slice.lower is not None else None
                hi = ev(e.slice.upper, env, present) if e.slice.upper is not None else None
                return v[lo:hi]
            return v[ev(e.slice, env, present)]
        if isinstance(e, ast.UnaryOp) and isinstance(e.op, ast.USub):
            return -ev(e.operand, env, present)
        if isinstance(e, ast.UnaryOp) and isinstance(e.op, ast.Not):
            return not ev(e.operand, env, present)
        if isinstance(e, ast.BoolOp):
            vals = [ev(v, env, present) for v in e.values]
            return all(vals) if isinstance(e.op, ast.And) else any(vals)
        if isinstance(e, ast.Compare) and len(e.ops) == 1 and isinstance(e.ops[0], (ast.In, ast.NotIn)) and ast.unparse(e.comparators[0]) == kwname:
            r = ev(e.left, env, present) in present
            return r if isinstance(e.ops[0], ast.In) else not r
        if isinstance(e, ast.IfExp):
            return ev(e.body, env, present) if ev(e.test, env, present) else ev(e.orelse, env, present)
        if isinstance(e, ast.Call) and ast.unparse(e.func) == "next" and len(e.args) == 2 and isinstance(e.args[0], ast.GeneratorExp) \
                and len(e.args[0].generators) == 1:
            gen = e.args[0].generators[0]
            for item in const_seq(gen.iter):
                e2 = dict(env)
                bind(gen.target, item, e2)
                if all(ev(c, e2, present) for c in gen.ifs):
                    return ev(e.args[0].elt, e2, present)
            return ev(e.args[1], env, present)
        raise Unknown(ast.unparse(e)[:40])

    def bind(t, v, env):
        if isinstance(t, ast.Name):
            env[t.id] = v
        elif isinstance(t, ast.Tuple) and len(t.elts) == len(v):
            for a_, b_ in zip(t.elts, v):
                bind(a_, b_, env)
        else:
            raise Unknown("target")

    def touches(st):
        return any(isinstance(x, ast.Name) and x.id == pname and isinstance(x.ctx, ast.Store) for x in ast.walk(st))

    def run(stmts, env, present):
        for st in stmts:
            if not touches(st) and not isinstance(st, ast.Break):
                continue
            if isinstance(st, ast.Assign) and ast.unparse(st.targets[0]) == pname:
                env[pname] = ev(st.value, env, present)
            elif isinstance(st, ast.If):
                run(st.body if ev(st.test, env, present) else st.orelse, env, present)
            elif isinstance(st, ast.For):
                try:
                    for item in const_seq(st.iter):
                        bind(st.target, item, env)
                        run(st.body, env, present)
                    run(st.orelse, env, present)
                except Brk:
                    pass
            elif isinstance(st, ast.Break):
                raise Brk()
            else:
                raise Unknown(ast.unparse(st)[:40])
        return env
    import itertools
    keys = ("days", "weeks", "months", "years")
    wrong = []
    n = 0
    try:
        for bits in itertools.product((False, True), repeat=4):
            present = {k for k, b_ in zip(keys, bits) if b_}
            def run_with_breaks(stmts, env):
                for st in stmts:
                    if isinstance(st, ast.For) and touches(st):
                        try:
                            for item in const_seq(st.iter):
                                bind(st.target, item, env)
                                inner(st.body, env)
                            run(st.orelse, env, present)
                        except Brk:
                            pass
                    elif isinstance(st, ast.If) and touches(st):
                        run_with_breaks(st.body if ev(st.test, env, present) else st.orelse, env)
                    elif touches(st):
                        run([st], env, present)
                return env

            def inner(stmts, env):
                for st in stmts:
                    if isinstance(st, ast.Break):
                        raise Brk()
                    if isinstance(st, ast.If):
                        inner(st.body if ev(st.test, env, present) else st.orelse, env)
                    elif touches(st):
                        run([st], env, present)
            env = run_with_breaks(f.node.body, {})
            got = env.get(pname)
            want = "day" if "days" in present else "week" if "weeks" in present else "month" if "months" in present else "year" if "years" in present else "day"
            n += 1
            if got != want:
                wrong.append((sorted(present), got, want))
    except (Unknown, KeyError, IndexError, TypeError) as e_:
        chk.error(rule, "_parse_date: the period is decided by something this rule cannot evaluate (%s)" % e_)
        return
    chk.ob(rule, "period: day if days are counted, else the finest of week/month/year that is counted, else day (16 combinations evaluated)", not wrong,
           "counted units -> (period, expected): %s" % wrong[:4],
           key={"function": f.key, "construct": "period decision"}, file=f.file, function=f.qual, line=f.node.lineno)
    chk.floor(rule, n, 16, "combinations of counted units")


def _period_name(f):
    """the local returned as the second element of `return <date>, <period>`"""
    for n in iter_own_nodes(f.node):
        if isinstance(n, ast.Return) and isinstance(n.value, ast.Tuple) and len(n.value.elts) == 2 and isinstance(n.value.elts[1], ast.Name):
            return n.value.elts[1].id
    return "period"


def r6(ctx, chk):
    rule = "C04.R6"
    f = ctx.ix.func(FP + ":FreshnessDateDataParser.parse")
    # the place where the clock time of the phrase is put onto the date: a replace(hour=T.hour, minute=T.minute, second=T.second,
    # microsecond=T.microsecond) with all four fields from ONE time value - in the closure of parse, in a method or function parse calls,
    # or inline in parse itself
    want_fields = ("hour", "minute", "second", "microsecond")
    cands = [f] + [c for s_ in ctx.cg.sites.get(f.key, ()) for c in s_.callees if c.module is f.module] + list(f.children.values())
    at, ok, saw = f, False, 0
    for g_ in cands:
        for n in iter_own_nodes(g_.node):
            if isinstance(n, ast.Call) and isinstance(n.func, ast.Attribute) and n.func.attr == "replace" \
                    and any(k.arg in want_fields for k in n.keywords):
                saw += 1
                kw = {k.arg: ast.unparse(k.value) for k in n.keywords}
                srcs = {v.rsplit(".", 1)[0] for v in kw.values() if "." in v}
                if set(kw) == set(want_fields) and len(srcs) == 1 and all(kw[x] == "%s.%s" % (next(iter(srcs)), x) for x in want_fields):
                    ok, at = True, g_
    if not saw:
        chk.error(rule, "freshness parse: no replace(hour=.., ..) found in parse, its closures or the functions it calls")
        return
    chk.ob(rule, "apply_time replaces exactly hour/minute/second/microsecond with the parsed time's fields", ok,
           "the clock time of the phrase does not replace the time of day field by field",
           key={"function": at.key, "construct": "replace(hour=..,minute=..,second=..,microsecond=..)"},
           file=at.file, function=at.qual, line=at.node.lineno)
    # the time comes from the phrase with counted units and ago/in removed
    pt = ctx.ix.func(FP + ":FreshnessDateDataParser._parse_time")
    t = ast.unparse(pt.node)
    ok = "PATTERN.sub('', " in t and "time_parser(" in t
    chk.ob(rule, "_parse_time strips the counted units and parses the rest with time_parser", ok, "",
           key={"function": pt.key, "construct": "PATTERN.sub + time_parser"}, file=pt.file, function=pt.qual,
           line=pt.node.lineno)
    # RETURN_TIME_AS_PERIOD: period 'time' only when the time changed the date
    ok = False
    for n in iter_own_nodes(f.node):
        if isinstance(n, ast.If) and "RETURN_TIME_AS_PERIOD" in ast.unparse(n.test):
            if any(isinstance(x, ast.Assign) and ast.unparse(x.targets[0]) == _period_name(f) and isinstance(x.value, ast.Constant)
                   and x.value.value == "time" for x in n.body):
                ok = True
    chk.ob(rule, "period becomes 'time' only under RETURN_TIME_AS_PERIOD", ok, "",
           key={"function": f.key, "construct": "period time"}, file=f.file, function=f.qual, line=f.node.lineno)


EN_CANON = {
    # word: (direction, count, unit) as the property states them
    "now": (0, 0, "second"), "today": (0, 0, "day"),
    "yesterday": (-1, 1, "day"), "tomorrow": (+1, 1, "day"),
    "last week": (-1, 1, "week"), "next week": (+1, 1, "week"),
    "last month": (-1, 1, "month"), "next month": (+1, 1, "month"),
    "last year": (-1, 1, "year"), "next year": (+1, 1, "year"),
}


def parse_canon(key, units):
    """'in 1 day' / '2 week ago' -> (direction, count, unit) or None"""
    toks = key.split()
    d = 0
    if toks and toks[0] == "in":
        d = 1
        toks = toks[1:]
    if toks and toks[-1] == "ago":
        if d:
            return None
        d = -1
        toks = toks[:-1]
    if len(toks) != 2 or toks[1] not in units:
        return None
    try:
        n = float(toks[0])
    except ValueError:
        return None
    return (0 if n == 0 else d, n, toks[1])


def r7(ctx, chk):
    rule = "C04.R7"
    ld = ctx.memo("langdata", lambda: LangData(ctx.repo))
    info = ld.locale_info("en")
    units = _units(ctx)
    where = {}
    for k, words in info.get("relative-type", {}).items():
        for w in words:
            where.setdefault(w.lower(), []).append(k)
    for w, (d, n, u) in EN_CANON.items():
        keys = where.get(w, [])
        got = [parse_canon(k, units) for k in keys]
        ok = len(keys) == 1 and got[0] == (d, float(n), u)
        chk.ob(rule, "en: %r is listed under a key meaning %+d x %d %s (found %s)" % (w, d, n, u, keys), ok,
               "English fixed word maps to %s" % keys,
               key={"locale": "en", "word": w}, file="dateparser/data/date_translation_data/en.py",
               function="info['relative-type']", line=None)
    # counted English patterns: 'N <unit> ago' / 'in N <unit>' exist for every unit, under their own key
    rx = info.get("relative-type-regex", {})
    import regex as re
    for u in units:
        for canon, probe in (("\\1 %s ago" % u, "3 %ss ago" % u), ("in \\1 %s" % u, "in 3 %ss" % u)):
            pats = rx.get(canon, [])
            ok = any(re.fullmatch(p, probe, re.I) for p in pats)
            chk.ob(rule, "en: %r is matched by a pattern listed under %r" % (probe, canon), ok,
                   "no English counted pattern for this unit/direction",
                   key={"locale": "en", "word": canon}, file="dateparser/data/date_translation_data/en.py",
                   function="info['relative-type-regex']", line=None)


def unit_spelling_rule(ctx, chk, rule):
    """`get_kwargs` turns the TEXT matched by the unit group of PATTERN into a relativedelta keyword (`unit + 's'`).  PATTERN is compiled
    case-insensitively, so on its own it also accepts 'SECOND' or 'ſecond' (U+017F folds to s) - and relativedelta(**{'ſeconds': 1}) is a
    TypeError.  What makes the keyword a real unit name is the word filter `_are_all_words_units`, which `_parse_date` consults first and
    which matches each word case-SENSITIVELY against the same unit list.  Keep at least one of the two exact."""
    from ..core.cfg import CFG
    from ..core.rx import module_regex
    ix = ctx.ix
    m = ix.module(FP)
    try:
        pat, fl = module_regex(ix, m.name, "PATTERN")
    except AnalysisError:
        raise AnalysisError(rule, "freshness_date_parser.PATTERN is not a compile of a foldable pattern")
    def folds(txt):
        parts = {x.strip().split(".")[-1] for x in (txt or "").split("|")}
        return bool(parts & {"I", "IGNORECASE"})
    pattern_folds = folds(fl) or "(?i" in pat
    f = ix.func(FP + ":FreshnessDateDataParser._are_all_words_units")
    calls = [n for n in iter_own_nodes(f.node) if isinstance(n, ast.Call) and ast.unparse(n.func) in ("re.match", "re.fullmatch", "regex.match", "regex.fullmatch")]
    if len(calls) != 1:
        raise AnalysisError(rule, "_are_all_words_units: expected one re.match over the skip list, found %d" % len(calls))
    c = calls[0]
    flags = c.args[2] if len(c.args) > 2 else {k.arg: k.value for k in c.keywords}.get("flags")
    ftxt = ast.unparse(flags) if flags is not None else ""
    filter_folds = folds(ftxt) or "(?i" in (fold_str(c.args[0], f, ix) or "")
    gk = ix.func(FP + ":FreshnessDateDataParser.get_kwargs")
    lowered = any(isinstance(n, ast.Call) and isinstance(n.func, ast.Attribute) and n.func.attr in ("lower", "casefold") for n in iter_own_nodes(gk.node))
    chk.ob(rule, "the text that becomes a relativedelta keyword is spelled exactly like a unit (PATTERN %s, word filter %s)" % (
        "folds case" if pattern_folds else "is exact", "folds case" if filter_folds else "is exact"),
        (not pattern_folds) or (not filter_folds) or lowered,
        "PATTERN (%s) and the word filter (`%s`) both ignore case: a unit written with other-case or case-folding letters ('1 ſecond') "
        "passes the filter and its text is used as a relativedelta keyword -> TypeError escapes parse()" % (fl, " ".join(ast.unparse(c).split())[:70]),
        key={"function": f.key, "construct": "unit keyword spelling"}, file=f.file, function=f.qual, line=c.lineno,
        text=" ".join(ast.unparse(c).split())[:100])
    # ... and the filter is consulted before the keywords are built
    pd = ix.func(FP + ":FreshnessDateDataParser._parse_date")
    g = CFG(pd.node)
    guards = [s_ for s_ in iter_own_stmts(pd.node.body) if isinstance(s_, ast.If) and "_are_all_words_units" in ast.unparse(s_.test)
              and s_.body and isinstance(s_.body[-1], ast.Return)]
    uses = [s_ for s_ in iter_own_stmts(pd.node.body) if not isinstance(s_, (ast.If, ast.For, ast.While, ast.Try, ast.With))
            and any(isinstance(n, ast.Call) and ast.unparse(n.func).endswith("get_kwargs") for n in ast.walk(s_))]
    ok = bool(guards) and bool(uses) and all(g.dominates(guards[0], u) for u in uses) and isinstance(guards[0].test, ast.UnaryOp)
    chk.ob(rule, "_parse_date gives up before get_kwargs when a word is not a unit", ok, "",
           key={"function": pd.key, "construct": "filter before keywords"}, file=pd.file, function=pd.qual, line=pd.node.lineno)

"""C09 — PREFER_DATES_FROM picks past/future, keeping the named parts.

R1 no later stage overwrites a field that an earlier shift may have changed (guard conjunction unsatisfiable)
R2 sign of every shift agrees with the preference that enables it
R3 year/day shifts of non-weekday strings are enabled only under an explicit past/future preference
R4 same-weekday step: a full week under past/future, zero under current_period
"""
import ast

from ..core import guards as G
from ..core.ctx import ancestors
from ..core.index import iter_own_nodes
from ..core.repo import AnalysisError
from . import pipeline as P

LEVEL = "other"
EXPLANATION = (
    "On the guard formulas of the absolute parser's correction pipeline (see C08): for every shift effect (adds a "
    "timedelta or changes the year) and every later absolute set of month/day, the conjunction of their guards must "
    "be unsatisfiable, otherwise the later stage clobbers a month/day the shift just moved (today's tree: weekday and "
    "time-only shifts vs the month completion - known finding, pinned by a test). Sign analysis ({-,0,+}, counters "
    "non-negative by construction) shows every shift enabled under 'past' is <= 0 and under 'future' >= 0; "
    "non-weekday shifts are enabled only under an explicit past/future; the same-weekday step is 7 under past/future "
    "and 0 otherwise. Does not decide nearest-occurrence arithmetic or the Feb-29 repair."
)
CHANGES = {"days": {"day", "month", "year"}, "year": {"year"}}


def run(ctx, chk):
    order, effs = P.effects(ctx)
    shifts = [e for e in effs if e.kind == "shift"]
    sets = [e for e in effs if e.kind == "set"]
    chk.floor("C09.R1", len(shifts), 6, "shift effects in _correct_for_time_frame")
    # R1
    for e1 in shifts:
        for e2 in sets:
            if order.index(e2.stage) <= order.index(e1.stage):
                continue
            if e2.field not in CHANGES[e1.field]:
                continue
            w = G.satisfiable(G.conj(e1.guard, e2.guard), P.ATOMS, P.constraint)
            kind = "weekday" if "tok_weekday" in _positive_atoms(e1.guard) else "time" if "tok_time" in _positive_atoms(e1.guard) else "other"
            chk.ob("C09.R1", "%s L%d `%s` is never followed by `%s` of %s" % (e1.stage, e1.node.lineno, e1.text[:34], e2.field, e2.stage),
                   w is None,
                   "both enabled under %s: the %s set by %s overwrites what the shift moved (e.g. a %s-only string near a "
                   "month boundary lands in the wrong month)" % ({k: v for k, v in (w or {}).items() if v and not isinstance(k, tuple)},
                                                                  e2.field, e2.stage, kind),
                   key={"function": e2.fn.key, "construct": "set %s after shift=%s" % (e2.field, kind)},
                   file=e2.fn.file, function=e2.fn.qual, line=e2.node.lineno, text=e2.text)
    # R2 / R3
    for e in shifts:
        g = e.guard
        if e.sign == "?":
            # the Feb-29 repair picks a leap year through _get_correct_leap_year(PREFER_DATES_FROM, ...): direction delegated
            ok = "_get_correct_leap_year" in ast.unparse(e.fn.node) and "valid_year" in e.text
            chk.ob("C09.R2", "%s L%d `%s`: direction delegated to _get_correct_leap_year(PREFER_DATES_FROM, year)" % (e.stage, e.node.lineno, e.text[:40]),
                   ok, "shift of unknown sign", key={"function": e.fn.key, "construct": "sign of " + " ".join(e.text.split())[:50]},
                   file=e.fn.file, function=e.fn.qual, line=e.node.lineno)
            continue
        bad_pref = "past" if e.sign == "+" else "future" if e.sign == "-" else None
        if bad_pref:
            w = G.satisfiable(G.conj(g, ("atom", bad_pref)), P.ATOMS, P.constraint)
            chk.ob("C09.R2", "%s L%d `%s` (sign %s) is disabled under PREFER_DATES_FROM=%s" % (e.stage, e.node.lineno, e.text[:40], e.sign, bad_pref),
                   w is None, "a %s shift is enabled under '%s': %s" % ("forward" if e.sign == "+" else "backward", bad_pref,
                                                                        {k: v for k, v in (w or {}).items() if v and not isinstance(k, tuple)}),
                   key={"function": e.fn.key, "construct": "sign of " + " ".join(e.text.split())[:50]},
                   file=e.fn.file, function=e.fn.qual, line=e.node.lineno, text=e.text)
        if "tok_weekday" not in _positive_atoms(g):
            w = G.satisfiable(G.conj(g, G.neg(("atom", "past")), G.neg(("atom", "future"))), P.ATOMS, P.constraint)
            chk.ob("C09.R3", "%s L%d `%s` needs an explicit past/future preference" % (e.stage, e.node.lineno, e.text[:40]),
                   w is None, "enabled under current_period: %s" % ({k: v for k, v in (w or {}).items() if v and not isinstance(k, tuple)}),
                   key={"function": e.fn.key, "construct": "explicit preference for " + " ".join(e.text.split())[:50]},
                   file=e.fn.file, function=e.fn.qual, line=e.node.lineno, text=e.text)
    r4(ctx, chk)
    r5(ctx, chk)
    from .c08 import r5 as recovery_rule
    recovery_rule(ctx, chk, "C09.R6")
    leap_direction_rule(ctx, chk, "C09.R7")
    dotted_time_rule(ctx, chk, "C09.R8")


def _positive_atoms(f, pol=True):
    out = set()
    k = f[0]
    if k == "atom" and pol:
        out.add(f[1])
    elif k == "not":
        out |= _positive_atoms(f[1], not pol)
    elif k == "and" and pol:
        for x in f[1:]:
            out |= _positive_atoms(x, pol)
    elif k == "or" and not pol:
        for x in f[1:]:
            out |= _positive_atoms(x, pol)
    return out


def r4(ctx, chk):
    rule = "C09.R4"
    fn = ctx.ix.func(P.PARSER + "._correct_for_time_frame")
    atom_fn = P.make_atom_fn(fn, P._aliases(fn))
    consts = []

    def step_of(v):
        """the whole-day constant a statement stores: `steps = 7`, or the shift itself written out (`delta = timedelta(days=-7)`)"""
        if isinstance(v, ast.Constant) and isinstance(v.value, int) and not isinstance(v.value, bool):
            return v.value
        if isinstance(v, ast.Call) and ast.unparse(v.func).split(".")[-1] == "timedelta" and not v.args and len(v.keywords) == 1 and v.keywords[0].arg == "days":
            d = v.keywords[0].value
            if isinstance(d, ast.UnaryOp) and isinstance(d.op, ast.USub):
                d = d.operand
            if isinstance(d, ast.Constant) and isinstance(d.value, int):
                return d.value
        return None
    for n in iter_own_nodes(fn.node):
        if isinstance(n, ast.Assign) and isinstance(n.targets[0], ast.Name) and step_of(n.value) in (0, 7):
            # only the assignments nested under the same-weekday test
            g = P.full_guard(fn, n, atom_fn)
            if any("==" in fr for fr in G.atoms_of(g, ("free",))):
                consts.append((n, g))
    chk.floor(rule, len(consts), 2, "same-weekday step assignments")
    for n, g in consts:
        if step_of(n.value) == 7:
            w = G.satisfiable(G.conj(g, G.neg(("atom", "past")), G.neg(("atom", "future"))), P.ATOMS, P.constraint)
            chk.ob(rule, "L%d same weekday: a full week (7) only under past/future" % n.lineno, w is None,
                   "a week is added/subtracted under current_period", key={"function": fn.key, "construct": "same-weekday 7"},
                   file=fn.file, function=fn.qual, line=n.lineno)
        else:
            w = G.satisfiable(G.conj(g, ("or", ("atom", "past"), ("atom", "future"))), P.ATOMS, P.constraint)
            chk.ob(rule, "L%d same weekday: step 0 only under current_period" % n.lineno, w is None,
                   "the same weekday stays today under past/future", key={"function": fn.key, "construct": "same-weekday 0"},
                   file=fn.file, function=fn.qual, line=n.lineno)
    # the stepping loops move one day at a time towards the named weekday
    loops = [n for n in iter_own_nodes(fn.node) if isinstance(n, ast.While)]
    ok = len(loops) == 2 and all(any(isinstance(x, ast.AugAssign) and isinstance(x.op, ast.Add) and isinstance(x.value, ast.Constant)
                                     and x.value.value == 1 for x in ast.walk(l)) for l in loops)
    chk.ob(rule, "weekday stepping counts single days until the names match", ok, "",
           key={"function": fn.key, "construct": "stepping loops"}, file=fn.file, function=fn.qual, line=fn.node.lineno)


def r5(ctx, chk):
    """the time-only comparison uses the reference instant vs the candidate minus its zone offset, in the right direction"""
    rule = "C09.R5"
    fn = ctx.ix.func(P.PARSER + "._correct_for_time_frame")
    found = 0
    for n in iter_own_nodes(fn.node):
        if isinstance(n, ast.If) and isinstance(n.test, ast.Compare) and "tz_offset" in ast.unparse(n.test):
            found += 1
            op = n.test.ops[0]
            left = ast.unparse(n.test.left)
            body = ast.unparse(n.body[0]) if n.body else ""
            minus = "days=-1" in body
            plus = "days=1" in body
            ok = left == "self.now" and ((minus and isinstance(op, ast.Lt)) or (plus and isinstance(op, ast.Gt)))
            chk.ob(rule, "time-only: `%s` moves %s" % (ast.unparse(n.test), "a day back" if minus else "a day forward"), ok,
                   "the comparison direction does not match the shift: the result can land on the wrong side of the reference time",
                   key={"function": fn.key, "construct": "time-only comparison " + ("past" if minus else "future")},
                   file=fn.file, function=fn.qual, line=n.lineno)
    chk.floor(rule, found, 2, "time-only comparisons against the reference instant")
    # month-without-year and two-digit-year: the shift is decided by comparing the whole reference instant with the
    # whole candidate (comparing only a component, e.g. the years, mis-orders dates inside the same year)
    order, effs = P.effects(ctx)
    dv = fn.params()[1]
    n2 = 0
    for e in effs:
        if e.kind != "shift" or e.field != "year" or e.sign == "?":
            continue
        cmp_atoms = [a for a in G.atoms_of(e.guard, ("free",)) if "self.now" in a and dv in a]
        n2 += 1
        ok = bool(cmp_atoms)
        bad = []
        for a in cmp_atoms:
            try:
                c = ast.parse(a, mode="eval").body
            except SyntaxError:
                ok = False
                continue
            sides = [c.left] + list(c.comparators) if isinstance(c, ast.Compare) else []
            txt = sorted(ast.unparse(x) for x in sides)
            if txt != sorted(["self.now", dv]):
                ok = False
                bad.append(a)
        chk.ob(rule, "L%d `%s` is decided by comparing self.now with the whole candidate" % (e.node.lineno, e.text[:40]), ok,
               "the deciding comparison is %s: it looks at a component only (or is missing), so a candidate later in the same "
               "year than the reference is not recognised as lying in the future" % (bad or cmp_atoms or "absent"),
               key={"function": fn.key, "construct": "full-instant comparison for " + " ".join(e.text.split())[:50]},
               file=fn.file, function=fn.qual, line=e.node.lineno)
        # direction: past shifts happen when the candidate is after the reference, future shifts otherwise
        for a in cmp_atoms:
            c = ast.parse(a, mode="eval").body
            if isinstance(c, ast.Compare) and len(c.ops) == 1 and ast.unparse(c.left) == "self.now" and isinstance(c.ops[0], ast.Lt):
                pos = _polarity_of(e.guard, a)
                want = True if e.sign == "-" else False
                chk.ob(rule, "L%d `%s`: moves %s exactly when the candidate lies %s the reference" % (
                    e.node.lineno, e.text[:30], "back" if e.sign == "-" else "forward", "after" if want else "not after"),
                    pos == want, "branch polarity of `%s` is %s" % (a, pos),
                    key={"function": fn.key, "construct": "comparison direction for " + " ".join(e.text.split())[:50]},
                    file=fn.file, function=fn.qual, line=e.node.lineno)
    chk.floor(rule + ".year", n2, 4, "year/century shifts with a reference comparison")


def _polarity_of(f, atom, pol=True):
    """True/False if the free atom occurs positively/negatively in the conjunction, None if absent/both"""
    k = f[0]
    if k == "free":
        return pol if f[1] == atom else None
    if k == "not":
        return _polarity_of(f[1], atom, not pol)
    if k in ("and", "or"):
        res = {_polarity_of(x, atom, pol) for x in f[1:]} - {None}
        return res.pop() if len(res) == 1 else None
    return None



def leap_direction_rule(ctx, chk, rule):
    """29 February without a year: the year is moved to a leap year in the direction of the preference.  The direction is spelled three
    times on the way (preference -> next/previous helper -> `future` flag -> sign of the step) and the search starts strictly beside
    the current year; the four spellings must agree."""
    from ..core.ctx import conjuncts, enclosing_tests
    ix = ctx.ix
    f = ix.func("dateparser.parser:_parser._get_correct_leap_year")
    pref = f.params()[1]
    seen = {}
    for r in [n for n in iter_own_nodes(f.node) if isinstance(n, ast.Return)]:
        eqs = [ast.unparse(a) for t, pol in enclosing_tests(f.node, r) for a, p in conjuncts(t, pol) if p]
        for want, helper in (("future", "get_next_leap_year"), ("past", "get_previous_leap_year")):
            if any("".join(e.split()) in ("%s=='%s'" % (pref, want), "'%s'==%s" % (want, pref)) for e in eqs):
                seen[want] = ast.unparse(r.value.func) if isinstance(r.value, ast.Call) else ast.unparse(r.value)
                chk.ob(rule, "_get_correct_leap_year: '%s' -> %s" % (want, helper), seen[want] == helper, "returns %s" % seen[want],
                       key={"function": f.key, "construct": "preference %s" % want}, file=f.file, function=f.qual, line=r.lineno)
    chk.floor(rule + ".prefs", len(seen), 2, "preference branches of _get_correct_leap_year")
    # closer-year default: compares (next - current) with (current - previous)
    cmp_ = [n for n in iter_own_nodes(f.node) if isinstance(n, ast.Compare) and len(n.ops) == 1 and isinstance(n.left, ast.BinOp)]
    for c in cmp_:
        l, r_ = "".join(ast.unparse(c.left).split()), "".join(ast.unparse(c.comparators[0]).split())
        cur = f.params()[2]
        names = {x.id for x in ast.walk(c) if isinstance(x, ast.Name)} - {cur}

        def bound_to(helper):
            return [n_ for n_ in sorted(names) if any(
                isinstance(a_, ast.Assign) and any(isinstance(t_, ast.Name) and t_.id == n_ for t_ in a_.targets) and isinstance(a_.value, ast.Call)
                and ast.unparse(a_.value.func).split(".")[-1] == helper for a_ in iter_own_nodes(f.node))]
        nxt = bound_to("get_next_leap_year")
        prv = bound_to("get_previous_leap_year")
        ok = bool(nxt and prv) and l == "%s-%s" % (nxt[0], cur) and r_ == "%s-%s" % (cur, prv[0]) and isinstance(c.ops[0], (ast.Lt, ast.LtE))
        chk.ob(rule, "_get_correct_leap_year: without a preference the closer leap year is taken (distance ahead vs distance behind; a tie is not the property's business)", ok,
               "compares `%s`" % ast.unparse(c), key={"function": f.key, "construct": "closer leap year"}, file=f.file, function=f.qual, line=c.lineno)
    for helper, flag in (("get_next_leap_year", True), ("get_previous_leap_year", False)):
        h = ix.func("dateparser.utils:" + helper)
        calls = [n for n in iter_own_nodes(h.node) if isinstance(n, ast.Call) and ast.unparse(n.func) == "_get_leap_year"]
        ok = len(calls) == 1
        if ok:
            c = calls[0]
            v = {k.arg: k.value for k in c.keywords}.get("future", c.args[1] if len(c.args) > 1 else None)
            ok = isinstance(v, ast.Constant) and v.value is flag and bool(c.args) and ast.unparse(c.args[0]) == h.params()[0]
        chk.ob(rule, "%s searches with future=%s from the given year" % (helper, flag), ok, "", key={"function": h.key, "construct": "future flag"},
               file=h.file, function=h.qual, line=h.node.lineno)
    g = ix.func("dateparser.utils:_get_leap_year")
    yr, fut = g.params()[:2]
    # the step chosen by the flag: `step = 1 if future else -1`, or the same as a two-armed if statement
    cands = [(n.value.test, n.value.body, n.value.orelse, n.targets[0]) for n in iter_own_nodes(g.node)
             if isinstance(n, ast.Assign) and isinstance(n.value, ast.IfExp)]
    for n in iter_own_nodes(g.node):
        if isinstance(n, ast.If) and len(n.body) == 1 and len(n.orelse) == 1 and all(
                isinstance(x, ast.Assign) and len(x.targets) == 1 and isinstance(x.targets[0], ast.Name) for x in (n.body[0], n.orelse[0])) \
                and n.body[0].targets[0].id == n.orelse[0].targets[0].id:
            cands.append((n.test, n.body[0].value, n.orelse[0].value, n.body[0].targets[0]))
    ok_step = False
    stepv = None
    for t, a, b, tg_ in cands:
        while isinstance(t, ast.UnaryOp) and isinstance(t.op, ast.Not):
            t, a, b = t.operand, b, a
        def val(x):
            if isinstance(x, ast.UnaryOp) and isinstance(x.op, ast.USub) and isinstance(x.operand, ast.Constant):
                return -x.operand.value
            return x.value if isinstance(x, ast.Constant) else None
        if ast.unparse(t) == fut and val(a) == 1 and val(b) == -1:
            ok_step, stepv = True, ast.unparse(tg_)
    chk.ob(rule, "_get_leap_year steps +1 year when future, -1 otherwise", ok_step, "", key={"function": g.key, "construct": "step sign"},
           file=g.file, function=g.qual, line=g.node.lineno)
    t_ = " ".join(ast.unparse(g.node).split())
    import re as _re
    sv = stepv or "step"
    m = _re.search(r"(\w+) = %s \+ %s while not calendar\.isleap\(\1\): \1 \+= %s return \1" % (yr, sv, sv), t_) \
        or _re.search(r"(\w+) = %s \+ %s while True: if calendar\.isleap\(\1\): return \1 \1 \+= %s" % (yr, sv, sv), t_)
    if m is None and not _re.search(r"(\w+) = %s\b(?! \+)" % yr, t_) and not _re.search(r"\+= (?!%s)" % sv, t_) and "isleap" in t_ and ("%s + %s" % (yr, sv)) in t_:
        chk.error(rule, "_get_leap_year: the search loop is written in a form this rule does not know")
        return
    chk.ob(rule, "_get_leap_year starts one step beside the given year and walks until calendar.isleap", m is not None,
           "the search includes the given year itself, skips a year, or tests something else", key={"function": g.key, "construct": "search loop"},
           file=g.file, function=g.qual, line=g.node.lineno)



def dotted_time_rule(ctx, chk, rule):
    """'09.30' / '13.20' alone is a clock time, not a date: the absolute parser joins `H`, `.`, `MM` into `H:MM` when the joined text matches
    HOUR_MINUTE_REGEX, otherwise the two numbers are read as day and month and the past/future placement is applied to a DATE.  The pattern
    is a module constant; its language is decided here by trying it on every H:MM string of one or two digits each: it must accept exactly
    the hours 0..23 (with or without a leading zero) and the minutes 00..59."""
    import regex
    from ..core.rx import module_regex
    try:
        pat, fl = module_regex(ctx.ix, "dateparser.parser", "HOUR_MINUTE_REGEX")
    except AnalysisError:
        raise AnalysisError(rule, "dateparser.parser.HOUR_MINUTE_REGEX is not a compile of a literal pattern")
    if (fl or "").strip():
        raise AnalysisError(rule, "HOUR_MINUTE_REGEX flags %s not modelled" % fl)
    rx_ = regex.compile(pat)
    hours = [str(h) for h in range(0, 100)] + ["%02d" % h for h in range(0, 10)]
    minutes = ["%02d" % m for m in range(0, 100)] + [str(m) for m in range(0, 10)]
    wrong_rej, wrong_acc = [], []
    n = 0
    for h in hours:
        for m in minutes:
            n += 1
            want = int(h) <= 23 and len(m) == 2 and int(m) <= 59
            got = rx_.match(h + ":" + m) is not None          # the code uses re.match(HOUR_MINUTE_REGEX, text)
            if want and not got:
                wrong_rej.append(h + ":" + m)
            elif got and not want:
                wrong_acc.append(h + ":" + m)
    f = ctx.ix.module("dateparser.parser").toplevel
    chk.ob(rule, "HOUR_MINUTE_REGEX accepts every H:MM with H in 0..23 (one or two digits) and MM in 00..59 (%d strings tried)" % n, not wrong_rej,
           "rejects %d valid times, e.g. %s: written alone with a period ('%s') they are read as day.month and lose the time of day" % (
               len(wrong_rej), wrong_rej[:4], wrong_rej[0].replace(":", ".") if wrong_rej else ""),
           key={"function": f.key, "construct": "HOUR_MINUTE_REGEX accepts"}, file="dateparser/parser.py", function="HOUR_MINUTE_REGEX", line=None, text=pat)
    chk.ob(rule, "HOUR_MINUTE_REGEX accepts nothing else", not wrong_acc,
           "accepts %d impossible times, e.g. %s" % (len(wrong_acc), wrong_acc[:4]),
           key={"function": f.key, "construct": "HOUR_MINUTE_REGEX rejects"}, file="dateparser/parser.py", function="HOUR_MINUTE_REGEX", line=None, text=pat)
    # the constant is what the joining code consults
    uses = [(g, nd) for g in ctx.ix.funcs.values() if g.module.name == "dateparser.parser" for nd in iter_own_nodes(g.node)
            if isinstance(nd, ast.Call) and any(isinstance(a, ast.Name) and a.id == "HOUR_MINUTE_REGEX" for a in nd.args)]
    chk.floor(rule, len(uses), 1, "uses of HOUR_MINUTE_REGEX")

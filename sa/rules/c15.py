"""C15 — Jalali and Hijri conversion (structural clauses only; the arithmetic lives in convertdate / hijridate).

R1 table well-formedness of jalali_parser (months, digits, spelled days, weekdays)
R2 rewrite-order interference: no earlier-applied replacement pattern is a proper substring of a later-applied one
   with a different replacement; no spelled day contains a suffix the ordinal strip removes
R3 plumbing: year/month/day reach the converter by keyword, the clock time is carried over unchanged, the Hijri
   wrapper forwards the same keywords, CalendarBase.get_date turns ValueError into None
R4 the day-token bound month_length(year, month) is evaluated on a (year, month) pair of one origin (reaching definitions)
"""
import ast

import regex

from ..core.data import WEEKDAYS, eval_literal
from ..core.index import iter_own_nodes
from ..core.repo import AnalysisError

LEVEL = "other"
EXPLANATION = (
    "Table and ordering analysis of calendars/jalali_parser.py and calendars/__init__.py: the month table has 12 entries "
    "whose stored index equals their position (the code uses list(keys()).index(token)+1), the digit table is a "
    "bijection onto 0..9, spelled days cover 0..31, weekdays are the seven English names; the to_latin step order is "
    "extracted from its body and the ordered (pattern, replacement) list of all str.replace steps is checked for "
    "substring interference (an earlier pattern inside a later one with a different replacement would corrupt the "
    "longer word); year/month/day are handed to calendar_converter.to_gregorian by keyword and every other datetime "
    "field is copied from the parsed params. Does not decide the conversion arithmetic of the third-party converters."
)
JP = "dateparser.calendars.jalali_parser:jalali_parser"
NG = "dateparser.calendars:non_gregorian_parser"


def _datetime_fields(f, params_name):
    """{field: source text} of the datetime(...) call returned by f; `**X` with X = <params>.copy() / dict(<params>)
    expands to <params>[field] for every field, overridden by X.update(dict(k=v)) / X.update(k=v) / X[k] = v"""
    POS = ("year", "month", "day", "hour", "minute", "second", "microsecond", "tzinfo")
    rets = [n for n in iter_own_nodes(f.node) if isinstance(n, ast.Return) and isinstance(n.value, ast.Call)
            and ast.unparse(n.value.func) in ("datetime", "datetime.datetime")]
    if len(rets) != 1:
        return None
    call = rets[0].value
    out = {}
    for i, a in enumerate(call.args):
        if isinstance(a, ast.Starred) or i >= len(POS):
            return None
        out[POS[i]] = ast.unparse(a)
    for kw in call.keywords:
        if kw.arg is not None:
            out[kw.arg] = ast.unparse(kw.value)
            continue
        if not isinstance(kw.value, ast.Name):
            return None
        x = kw.value.id
        base = None
        over = {}
        for n in iter_own_nodes(f.node):
            if isinstance(n, ast.Assign) and len(n.targets) == 1:
                t = n.targets[0]
                if isinstance(t, ast.Name) and t.id == x:
                    v = ast.unparse(n.value)
                    if v in ("%s.copy()" % params_name, "dict(%s)" % params_name, "{**%s}" % params_name):
                        base = params_name
                    else:
                        return None
                elif isinstance(t, ast.Subscript) and ast.unparse(t.value) == x and isinstance(t.slice, ast.Constant):
                    over[t.slice.value] = ast.unparse(n.value)
            elif isinstance(n, ast.Call) and ast.unparse(n.func) == x + ".update":
                if n.args and isinstance(n.args[0], ast.Call) and ast.unparse(n.args[0].func) == "dict" and not n.args[0].args:
                    over.update({k.arg: ast.unparse(k.value) for k in n.args[0].keywords})
                elif n.args and isinstance(n.args[0], ast.Dict) and all(isinstance(k, ast.Constant) for k in n.args[0].keys):
                    over.update({k.value: ast.unparse(v) for k, v in zip(n.args[0].keys, n.args[0].values)})
                elif not n.args:
                    over.update({k.arg: ast.unparse(k.value) for k in n.keywords})
                else:
                    return None
        if x == params_name:
            base = params_name
        if base is None:
            return None
        for fld in POS[:7]:
            out.setdefault(fld, "%s[%r]" % (base, fld))
        out.update(over)
    return out


class _NoValue(Exception):
    pass


def _const_eval(e, env):
    """evaluate a guard over concrete date components and literal constants (comparisons, tuples, boolean operators,
    constant subscripts, + and -); raises _NoValue for anything else"""
    if isinstance(e, ast.Constant):
        return e.value
    if isinstance(e, ast.Name):
        if e.id in env:
            return env[e.id]
        raise _NoValue(e.id)
    if isinstance(e, ast.Tuple):
        return tuple(_const_eval(x, env) for x in e.elts)
    if isinstance(e, ast.Subscript) and isinstance(e.slice, ast.Constant):
        return _const_eval(e.value, env)[e.slice.value]
    if isinstance(e, ast.UnaryOp) and isinstance(e.op, ast.Not):
        return not _const_eval(e.operand, env)
    if isinstance(e, ast.UnaryOp) and isinstance(e.op, ast.USub):
        return -_const_eval(e.operand, env)
    if isinstance(e, ast.BoolOp):
        vals = [_const_eval(v, env) for v in e.values]
        return all(vals) if isinstance(e.op, ast.And) else any(vals)
    if isinstance(e, ast.BinOp) and isinstance(e.op, (ast.Add, ast.Sub)):
        a, b = _const_eval(e.left, env), _const_eval(e.right, env)
        return a + b if isinstance(e.op, ast.Add) else a - b
    if isinstance(e, ast.Compare):
        left = _const_eval(e.left, env)
        for op, c in zip(e.ops, e.comparators):
            right = _const_eval(c, env)
            ok = {ast.Lt: left < right, ast.LtE: left <= right, ast.Gt: left > right, ast.GtE: left >= right,
                  ast.Eq: left == right, ast.NotEq: left != right}.get(type(op)) if not isinstance(op, (ast.In, ast.NotIn, ast.Is, ast.IsNot)) else None
            if ok is None:
                if isinstance(op, ast.In):
                    ok = left in right
                elif isinstance(op, ast.NotIn):
                    ok = left not in right
                else:
                    raise _NoValue("is")
            if not ok:
                return False
            left = right
        return True
    raise _NoValue(type(e).__name__)


def _third_party_constant(module, name):
    """literal value of NAME = <literal> in an installed third-party module, read from its source without importing it"""
    import importlib.util
    try:
        spec = importlib.util.find_spec(module)
    except Exception:
        return None
    if spec is None or not spec.origin or not spec.origin.endswith(".py"):
        return None
    try:
        tree = ast.parse(open(spec.origin, encoding="utf-8").read())
    except Exception:
        return None
    for n in tree.body:
        tg = n.targets[0] if isinstance(n, ast.Assign) and len(n.targets) == 1 else n.target if isinstance(n, ast.AnnAssign) else None
        if isinstance(tg, ast.Name) and tg.id == name and getattr(n, "value", None) is not None:
            try:
                return ast.literal_eval(n.value)
            except Exception:
                return None
    return None


HIJRI_DOMAIN = [(1343, 1, 1), (1343, 1, 2), (1343, 12, 29), (1400, 6, 15), (1433, 2, 30), (1500, 1, 1), (1500, 12, 29), (1500, 12, 30)]
JALALI_DOMAIN = [(1200, 1, 1), (1200, 12, 29), (1201, 12, 30), (1348, 1, 31), (1399, 12, 30), (1400, 6, 31), (1500, 1, 1), (1500, 12, 29)]


def domain_guard_rule(ctx, chk, rule):
    """explicit rejections in the converter adapters must not fire inside the property's domain: every `raise` whose guard is
    a closed expression over (year, month, day) and literal constants is evaluated at the corner dates of the supported ranges"""
    from ..core.ctx import enclosing_tests
    n = 0
    for ckey, domain in (("dateparser.calendars.hijri_parser:hijri", HIJRI_DOMAIN), ("dateparser.calendars.jalali_parser:jalali_parser", JALALI_DOMAIN)):
        cls = ctx.ix.classes.get(ckey)
        if cls is None:
            continue
        for m in cls.methods.values():
            if m.name not in ("to_gregorian", "from_gregorian", "month_length"):
                continue
            consts = {}
            for nm, imp in m.module.imports.items():
                if imp[0] == "attr" and not imp[1].startswith("dateparser"):
                    v = _third_party_constant(imp[1], imp[2])
                    if v is not None:
                        consts[nm] = v
            for r in [x for x in iter_own_nodes(m.node) if isinstance(x, ast.Raise)]:
                tests = enclosing_tests(m.node, r)
                n += 1
                params = [p for p in m.params() if p not in ("self", "cls")]
                fired = []
                evaluable = True
                for pt in domain:
                    env = dict(consts)
                    env.update(dict(zip(("year", "month", "day"), pt)))
                    for p_, v_ in zip(params, pt):
                        env[p_] = v_
                    try:
                        if all(bool(_const_eval(t, env)) == pol for t, pol in tests):
                            fired.append(pt)
                    except _NoValue:
                        evaluable = False
                        break
                if not evaluable:
                    chk.note("%s: the guard of the raise at line %d is not a closed expression over the date; not decided" % (m.qual, r.lineno))
                    continue
                chk.ob(rule, "%s: the rejection at line %d does not fire for a date of the supported range" % (m.qual, r.lineno), not fired,
                       "raises for %s, which lies inside the range the property quantifies over (the parser then returns None)" % fired[:3],
                       key={"function": m.key, "construct": "rejection inside the domain"}, file=m.file, function=m.qual, line=r.lineno,
                       text=" ".join(ast.unparse(tests[0][0]).split())[:100] if tests else "")
    chk.extra["domain_guards_examined"] = n
    # the rule normally matches nothing: keep a positive example so that a silent evaluator is noticed
    probe = ast.parse("not R[0] <= (year, month, day) < R[1]", mode="eval").body
    env = {"R": ((1343, 1, 1), (1500, 12, 30)), "year": 1500, "month": 12, "day": 30}
    if not (_const_eval(probe, env) is True and _const_eval(probe, dict(env, day=29)) is False):
        raise AnalysisError(rule, "the guard evaluator no longer recognises the half-open range example")


def _attr_literal(cls, name, rule):
    v = cls.attrs.get(name)
    if v is None:
        raise AnalysisError(rule, "%s.%s not found" % (cls.name, name))
    if isinstance(v, ast.Call) and ast.unparse(v.func) == "OrderedDict" and v.args:
        try:
            return list(ast.literal_eval(v.args[0]))
        except Exception:
            raise AnalysisError(rule, "%s.%s is not a literal OrderedDict" % (cls.name, name))
    try:
        x = ast.literal_eval(v)
    except Exception:
        raise AnalysisError(rule, "%s.%s is not a literal" % (cls.name, name))
    return list(x.items()) if isinstance(x, dict) else x


def run(ctx, chk):
    r1(ctx, chk)
    r2(ctx, chk)
    r3(ctx, chk)
    time_words_rule(ctx, chk, "C15.R6")


def r1(ctx, chk):
    rule = "C15.R1"
    J = ctx.ix.cls(JP)
    months = _attr_literal(J, "_months", rule)
    chk.ob(rule, "12 Jalali months", len(months) == 12, "found %d" % len(months), key={"table": "_months", "construct": "count"},
           file=J.module.rel, function=J.name, line=None)
    expected_len = [31] * 6 + [30] * 5 + [29]
    for i, (name, val) in enumerate(months):
        ok = isinstance(val, tuple) and len(val) == 3 and val[0] == i + 1 and isinstance(val[2], list) and val[2]
        chk.ob(rule, "month %d %s: stored index == position" % (i + 1, name), ok,
               "the month number is derived from the position in the table; entry says %s" % (val[0] if isinstance(val, tuple) else val),
               key={"table": "_months", "construct": name}, file=J.module.rel, function=J.name, line=None)
        if ok and i < 12:
            chk.ob(rule, "month %s: listed length %d" % (name, expected_len[i]), val[1] == expected_len[i], "is %s" % val[1],
                   key={"table": "_months", "construct": name + " length"}, file=J.module.rel, function=J.name, line=None)
    digits = dict(_attr_literal(J, "_digits", rule))
    chk.ob(rule, "_digits is a bijection onto 0..9", sorted(digits.values()) == list(range(10)) and len(digits) == 10, "%s" % digits,
           key={"table": "_digits", "construct": "bijection"}, file=J.module.rel, function=J.name, line=None)
    import unicodedata
    for ch, v in digits.items():
        chk.ob(rule, "digit %r means %d" % (ch, v), len(ch) == 1 and unicodedata.digit(ch, None) == v, "unicode digit value %s" % unicodedata.digit(ch, None) if len(ch) == 1 else "",
               key={"table": "_digits", "construct": "U+%04X" % ord(ch[0])}, file=J.module.rel, function=J.name, line=None)
    nl = dict(_attr_literal(J, "_number_letters", rule))
    chk.ob(rule, "_number_letters covers 0..31", sorted(nl) == list(range(32)), "keys %s" % sorted(nl),
           key={"table": "_number_letters", "construct": "coverage"}, file=J.module.rel, function=J.name, line=None)
    words = [w for v in nl.values() for w in v]
    chk.ob(rule, "no spelled day is listed for two numbers", len(words) == len(set(words)), "",
           key={"table": "_number_letters", "construct": "unique"}, file=J.module.rel, function=J.name, line=None)
    wd = _attr_literal(J, "_weekdays", rule)
    names = [k for k, v in wd]
    chk.ob(rule, "_weekdays are the seven English names", sorted(n.lower() for n in names) == sorted(WEEKDAYS), "%s" % names,
           key={"table": "_weekdays", "construct": "names"}, file=J.module.rel, function=J.name, line=None)
    chk.floor(rule, chk.instances.get(rule, 0), 30, "table obligations")


def replacement_sequence(ctx, rule):
    """ordered [(pattern, replacement, step)] of the str.replace operations of jalali to_latin"""
    ix = ctx.ix
    N = ix.cls(NG)
    J = ix.cls(JP)
    tl = N.methods.get("to_latin")
    if tl is None:
        raise AnalysisError(rule, "non_gregorian_parser.to_latin not found")
    steps = []
    for n in iter_own_nodes(tl.node):
        if isinstance(n, ast.Assign) and isinstance(n.value, ast.Call) and ast.unparse(n.value.func).startswith("cls._replace_"):
            steps.append(n.value.func.attr)
    if len(steps) < 5:
        raise AnalysisError(rule, "to_latin step sequence not recognised: %s" % steps)
    months = _attr_literal(J, "_months", rule)
    weekdays = _attr_literal(J, "_weekdays", rule)
    digits = _attr_literal(J, "_digits", rule)
    nl = _attr_literal(J, "_number_letters", rule)
    # conformance of the bodies: alpha-normalised fingerprints against the modelled reference
    from .c16 import _norm_fingerprint
    REF = {
        "_replace_digits": '''
def _replace_digits(cls, source):
    result = source
    for pers_digit, number in cls._digits.items():
        result = result.replace(pers_digit, str(number))
    return result
''',
        "_replace_months": '''
def _replace_months(cls, source):
    result = source
    for pers, latin in reduce(
        lambda a, b: a + b,
        [
            [(value, month) for value in repl[-1]]
            for month, repl in cls._months.items()
        ],
    ):
        result = result.replace(pers, latin)
    return result
''',
        "_replace_weekdays": '''
def _replace_weekdays(cls, source):
    result = source
    for pers, latin in reduce(
        lambda a, b: a + b,
        [
            [(value, weekday) for value in repl]
            for weekday, repl in cls._weekdays.items()
        ],
    ):
        result = result.replace(pers, latin)
    return result
''',
        "_replace_days": '''
def _replace_days(cls, source):
    result = re.sub(
        r"ام|م|ین", "", source
    )
    day_pairs = list(cls._number_letters.items())

    def comp_key(tup):
        return tup[0]

    day_pairs.sort(key=comp_key, reverse=True)

    thirteen, thirty = day_pairs[-14], day_pairs[1]
    day_pairs[-14] = thirty
    day_pairs[1] = thirteen

    for persian_number, number in reduce(
        lambda a, b: a + b,
        [[(val, repl) for val in persian_word] for repl, persian_word in day_pairs],
    ):
        result = result.replace(persian_number, str(number))
    return result
''',
    }
    import copy
    for name, src in REF.items():
        m = J.methods.get(name)
        if m is None:
            raise AnalysisError(rule, "jalali_parser.%s not found" % name)
        from ..core.ctx import fresh_copy
        node = fresh_copy(m.node)
        node.decorator_list = []
        want = ast.parse(src).body[0]
        if name == "_replace_days":
            # the strip pattern is data (extracted below), not part of the shape
            for t_ in (node, want):
                for c in ast.walk(t_):
                    if isinstance(c, ast.Call) and ast.unparse(c.func) == "re.sub" and c.args and isinstance(c.args[0], ast.Constant):
                        c.args[0] = ast.Constant(value="<strip>")
        if _norm_fingerprint(node) != _norm_fingerprint(want):
            raise AnalysisError(rule, "jalali_parser.%s no longer has the modelled shape" % name)
    strip = None
    for n in iter_own_nodes(J.methods["_replace_days"].node):
        if isinstance(n, ast.Call) and ast.unparse(n.func) == "re.sub" and isinstance(n.args[0], ast.Constant) and isinstance(n.args[1], ast.Constant) and n.args[1].value == "":
            strip = n.args[0].value
    if strip is None:
        raise AnalysisError(rule, "_replace_days: ordinal-suffix strip not found")
    seq = []
    for st in steps:
        if st == "_replace_months":
            for month, repl in months:
                for v in repl[-1]:
                    seq.append((v, month, st))
        elif st == "_replace_weekdays":
            for wdn, repl in weekdays:
                for v in repl:
                    seq.append((v, wdn, st))
        elif st == "_replace_digits":
            for d, num in digits:
                seq.append((d, str(num), st))
        elif st == "_replace_days":
            pairs = sorted(nl, key=lambda t: t[0], reverse=True)
            pairs[-14], pairs[1] = pairs[1], pairs[-14]
            for num, ws in pairs:
                for w in ws:
                    seq.append((w, str(num), st))
    return steps, seq, strip


def r2(ctx, chk):
    rule = "C15.R2"
    steps, seq, strip = replacement_sequence(ctx, rule)
    chk.floor(rule, len(seq), 60, "ordered replacement pairs")
    want = ["_replace_months", "_replace_weekdays", "_replace_digits", "_replace_days", "_replace_time", "_replace_time_conventions"]
    chk.ob(rule, "to_latin applies months -> weekdays -> digits -> days -> time -> conventions", steps == want, "order %s" % steps,
           key={"construct": "step order"}, file="dateparser/calendars/__init__.py", function="non_gregorian_parser.to_latin", line=None,
           nontrivial=False)
    n_pairs = 0
    for i, (p1, r1_, s1) in enumerate(seq):
        for p2, r2_, s2 in seq[i + 1:]:
            if p1 != p2 and p1 in p2 and r1_ != r2_:
                n_pairs += 1
                chk.ob(rule, "%r (-> %s) is applied before the longer %r (-> %s)" % (p1, r1_, p2, r2_), False,
                       "the shorter pattern rewrites part of the longer word first, so the longer word is never recognised",
                       key={"construct": "interference", "first": p1, "second": p2}, file="dateparser/calendars/jalali_parser.py",
                       function="jalali_parser", line=None)
    chk.ob(rule, "no earlier-applied pattern is a proper substring of a later-applied pattern with a different replacement (%d pairs)" % (len(seq) * (len(seq) - 1) // 2),
           n_pairs == 0, "", key={"construct": "interference-free"}, file="dateparser/calendars/jalali_parser.py", function="jalali_parser", line=None)
    # sensitivity: the order matters for these pairs (so the rule is not vacuous)
    sens = [(a[0], b[0]) for i, a in enumerate(seq) for b in seq[:i] if a[0] != b[0] and a[0] in b[0] and a[1] != b[1]]
    chk.ob(rule, "order-sensitive pairs exist (%d, e.g. %s)" % (len(sens), sens[:2]), bool(sens), "", key={"construct": "sensitivity"},
           file="dateparser/calendars/jalali_parser.py", function="jalali_parser", line=None)
    # the ordinal strip runs inside _replace_days before the day words: no day word may contain a stripped suffix
    srx = regex.compile(strip)
    for p, r_, s in seq:
        if s == "_replace_days":
            chk.ob(rule, "spelled day %r survives the ordinal-suffix strip /%s/" % (p, strip), srx.sub("", p) == p,
                   "the strip turns it into %r, so the table entry can never match" % srx.sub("", p),
                   key={"construct": "strip", "word": p}, file="dateparser/calendars/jalali_parser.py", function="jalali_parser._replace_days", line=None)
    # months / weekdays are replaced before the strip (they contain the stripped letters)
    chk.ob(rule, "month and weekday names are rewritten before the ordinal strip", steps.index("_replace_months") < steps.index("_replace_days")
           and steps.index("_replace_weekdays") < steps.index("_replace_days"), "", key={"construct": "names before strip"},
           file="dateparser/calendars/__init__.py", function="non_gregorian_parser.to_latin", line=None)


def r3(ctx, chk):
    rule = "C15.R3"
    ix = ctx.ix
    f = ix.func(NG + "._get_datetime_obj")
    conv = [n for n in iter_own_nodes(f.node) if isinstance(n, ast.Call) and ast.unparse(n.func).endswith("calendar_converter.to_gregorian")]
    ok = len(conv) == 1 and set(k.arg for k in conv[0].keywords) == {"year", "month", "day"} and not conv[0].args
    chk.ob(rule, "to_gregorian receives year/month/day by keyword", ok, "", key={"function": f.key, "construct": "converter kwargs"},
           file=f.file, function=f.qual, line=f.node.lineno)
    # year/month/day locals come from params[...] of the same part and are what the converter receives
    src = {}
    for n in iter_own_nodes(f.node):
        if isinstance(n, ast.Assign) and isinstance(n.targets[0], ast.Name) and isinstance(n.value, ast.Subscript) and ast.unparse(n.value.value) == "params" \
                and isinstance(n.value.slice, ast.Constant):
            src[n.targets[0].id] = n.value.slice.value
    kw = {k.arg: ast.unparse(k.value) for k in conv[0].keywords} if conv else {}
    ok = all(src.get(kw.get(part)) == part for part in ("year", "month", "day"))
    chk.ob(rule, "the converter's year/month/day come from the parsed params of the same name", ok, "kwargs %s, locals %s" % (kw, src),
           key={"function": f.key, "construct": "params plumbing"}, file=f.file, function=f.qual, line=f.node.lineno)
    import re as _re
    # the Gregorian datetime: year/month/day are the converter's results (in that order), every clock field is the parsed one
    unpack = [n for n in iter_own_nodes(f.node) if isinstance(n, ast.Assign) and conv and n.value is conv[0] and isinstance(n.targets[0], ast.Tuple)]
    greg = [ast.unparse(e) for e in unpack[0].targets[0].elts] if unpack and len(unpack[0].targets[0].elts) == 3 else None
    chk.ob(rule, "the converter's result is unpacked into three names (year, month, day order)", greg is not None, "",
           key={"function": f.key, "construct": "unpack order"}, file=f.file, function=f.qual, line=f.node.lineno)
    kwname = f.node.args.kwarg.arg if f.node.args.kwarg else None
    fields = _datetime_fields(f, kwname)
    if fields is None:
        raise AnalysisError(rule, "_get_datetime_obj: cannot find the datetime(...) it returns")
    for i_, part in enumerate(("year", "month", "day")):
        chk.ob(rule, "the returned datetime takes its %s from the converter's result" % part, greg is not None and fields.get(part) == greg[i_],
               "datetime(%s=%s)" % (part, fields.get(part)), key={"function": f.key, "construct": "gregorian " + part},
               file=f.file, function=f.qual, line=f.node.lineno)
    for part in ("hour", "minute", "second", "microsecond"):
        chk.ob(rule, "the returned datetime keeps the parsed %s" % part, fields.get(part) == "%s[%r]" % (kwname, part),
               "the %s of the clock time in the string is %s" % (part, "dropped" if part not in fields else "taken from " + str(fields.get(part))),
               key={"function": f.key, "construct": "time carried over: " + part}, file=f.file, function=f.qual, line=f.node.lineno)
    h = ix.cls("dateparser.calendars.hijri_parser:hijri")
    tg = h.methods.get("to_gregorian")
    t = " ".join(ast.unparse(tg.node).split()) if tg else ""
    ok = "Hijri(year=year, month=month, day=day, validate=False).to_gregorian()" in t and _re.search(r"(\w+) = Hijri\(.*\)\.to_gregorian\(\) return \1\.datetuple\(\)", t) is not None
    chk.ob(rule, "hijri.to_gregorian forwards year/month/day to Hijri(...) and returns its date tuple", ok, "",
           key={"function": "hijri.to_gregorian", "construct": "wrapper"}, file=h.module.rel, function="hijri.to_gregorian", line=None)
    J = ix.cls(JP)
    H = ix.cls("dateparser.calendars.hijri_parser:hijri_parser")
    chk.ob(rule, "jalali_parser converts with convertdate.persian", ast.unparse(J.attrs.get("calendar_converter")) == "persian" and
           J.module.imports.get("persian") == ("attr", "convertdate", "persian"), "", key={"function": JP, "construct": "converter"},
           file=J.module.rel, function=J.name, line=None)
    chk.ob(rule, "hijri_parser converts with the hijri wrapper", ast.unparse(H.attrs.get("calendar_converter")) == "hijri", "",
           key={"function": H.key, "construct": "converter"}, file=H.module.rel, function=H.name, line=None)
    # month names -> index through the ordered table; weekday tokens accepted
    g = ix.func(NG + "._get_date_obj")
    t = " ".join(ast.unparse(g.node).split())
    ok = _re.search(r"(\w+) = list\(self\._months\.keys\(\)\)\.index\(token\) \+ 1", t) is not None and "directive == '%B' and self._months and (token in self._months)" in t
    chk.ob(rule, "a month name maps to its position in the month table + 1", ok, "", key={"function": g.key, "construct": "month index"},
           file=g.file, function=g.qual, line=g.node.lineno)
    # R4: the day-token bound. month_length(year, month) must be evaluated on a consistent pair: both components the class
    # defaults (the loose "no longer than the longest month" bound used today) or both the parsed ones. A parsed month
    # combined with the default year rejects day 30 of months that are longer in the given year (leap-year Esfand 30).
    rule4 = "C15.R4"
    from ..core.cfg import CFG
    cg_ = CFG(g.node)
    bounds = [n for n in iter_own_nodes(g.node) if isinstance(n, ast.Call) and ast.unparse(n.func).endswith("calendar_converter.month_length")]
    chk.floor(rule4, len(bounds), 1, "day-token bounds in _get_date_obj")

    def provenance(name, at_node, nid=None, depth=0):
        if nid is None:
            nid = cg_.node_of_expr(g.node, at_node)
        rd = cg_.reaching_defs(name)
        out = set()
        for d in rd.get(nid, ()):
            st = cg_.nodes[d].stmt if d != cg_.entry.id else None
            if st is None:
                out.add("parameter")
                continue
            # value assigned to `name` by this statement
            val = None
            if isinstance(st, ast.Assign):
                tg = st.targets[0]
                if isinstance(tg, ast.Tuple) and isinstance(st.value, ast.Tuple):
                    for t_, v_ in zip(tg.elts, st.value.elts):
                        if isinstance(t_, ast.Name) and t_.id == name:
                            val = v_
                elif isinstance(tg, ast.Name):
                    val = st.value
            if isinstance(val, ast.Name) and depth < 4:      # a copy: follow it
                out |= provenance(val.id, None, d, depth + 1)
                continue
            txt = ast.unparse(val) if val is not None else "?"
            out.add("default" if _re.fullmatch(r"self\.default_\w+", txt) else "parsed" if _re.fullmatch(r"self\.(year|month|day)", txt)
                    else "token" if "token" in txt else "other:" + txt[:30])
        return out
    for b in bounds:
        if len(b.args) != 2 or not all(isinstance(a, ast.Name) for a in b.args):
            chk.ob(rule4, "the day bound is month_length(<year name>, <month name>)", False, ast.unparse(b)[:80],
                   key={"function": g.key, "construct": "day bound shape"}, file=g.file, function=g.qual, line=b.lineno)
            continue
        py, pm = provenance(b.args[0].id, b), provenance(b.args[1].id, b)
        chk.ob(rule4, "the day bound month_length(year, month) uses a year and a month of the same origin", py == pm and len(py) == 1,
               "year comes from %s, month from %s: a month parsed from the string is measured in another year (a day that exists in the "
               "given year is rejected)" % (sorted(py), sorted(pm)),
               key={"function": g.key, "construct": "day bound provenance"}, file=g.file, function=g.qual, line=b.lineno, text=ast.unparse(b)[:100])
    for cls_ in (J, H):
        dm = cls_.attrs.get("default_month")
        ok = isinstance(dm, ast.Constant) and dm.value == 1
        chk.ob(rule4, "%s.default_month is the first month (the longest one in both calendars: 31 / 30 days)" % cls_.name, ok,
               "default_month = %s" % (ast.unparse(dm) if dm is not None else None),
               key={"function": cls_.key, "construct": "default month is a longest month"}, file=cls_.module.rel, function=cls_.name, line=None)
    domain_guard_rule(ctx, chk, "C15.R5")
    # the calendar parsers read numeric fields under the caller's settings: nothing in the package overrides a setting
    n_set = 0
    for fn in ctx.ix.funcs.values():
        if not fn.module.rel.startswith("dateparser/calendars/"):
            continue
        for n_ in iter_own_nodes(fn.node):
            over = None
            if isinstance(n_, ast.Call) and isinstance(n_.func, ast.Attribute) and n_.func.attr == "replace" and any(
                    k.arg and k.arg.isupper() for k in n_.keywords):
                over = ", ".join(k.arg for k in n_.keywords if k.arg and k.arg.isupper())
            elif isinstance(n_, ast.Assign) and any(isinstance(t, ast.Attribute) and t.attr.isupper() and "settings" in ast.unparse(t.value).lower() for t in n_.targets):
                over = ast.unparse(n_.targets[0])
            if over:
                n_set += 1
                chk.ob("C15.R3", "%s does not override a setting (%s)" % (fn.qual, over), False,
                       "the calendar parser replaces the caller's %s: numeric Jalali/Hijri dates written in the order the settings say "
                       "(year-first under the default) are read in another order" % over,
                       key={"function": fn.key, "construct": "settings override " + over}, file=fn.file, function=fn.qual, line=n_.lineno,
                       text=" ".join(ast.unparse(n_).split())[:100], positive=True)
    chk.ob("C15.R3", "no function of dateparser/calendars overrides a setting of the caller", n_set == 0, "",
           key={"construct": "no settings override in calendars"}, file="dateparser/calendars/__init__.py", function="-", line=None)
    # parse applies to_latin first and then the generic parser
    p = ix.func(NG + ".parse")
    t = " ".join(ast.unparse(p.node).split())
    ok = "datestring = cls.to_latin(datestring)" in t and "return super().parse(datestring, settings)" in t
    chk.ob(rule, "non_gregorian_parser.parse rewrites to Latin first, then parses", ok, "", key={"function": p.key, "construct": "to_latin first"},
           file=p.file, function=p.qual, line=p.node.lineno)
    cb = ix.func("dateparser.calendars:CalendarBase.get_date")
    t = " ".join(ast.unparse(cb.node).split())
    ok = "self.parser.parse(self.source, settings)" in t and "except ValueError:" in t
    chk.ob(rule, "CalendarBase.get_date parses self.source and turns ValueError into None", ok, "", key={"function": cb.key, "construct": "get_date"},
           file=cb.file, function=cb.qual, line=cb.node.lineno)



def time_words_rule(ctx, chk, rule):
    """'... ساعت 11 و 01 دقیقه و 47 ثانیه' (hour 11 and 01 minute and 47 second) is turned into '11:01:47' by a chain of whole-string
    rewritings: the three unit words with their two digits are blanked to digits, every ' و ' becomes ':', the hour word goes.  Each stage
    must see the whole current string - an earlier stage may already have removed the word a later stage would look for to find "its" part
    - and the function returns the last stage's result."""
    J = ctx.ix.cls(JP)
    m = J.methods.get("_replace_time") if hasattr(J, "methods") else None
    f = m or ctx.ix.func(JP + "._replace_time")
    src = f.params()[1]
    cur = {src}
    var = None
    stages = 0
    for s in f.node.body:
        if isinstance(s, ast.FunctionDef) or (isinstance(s, ast.Expr) and isinstance(s.value, ast.Constant)):
            continue
        if isinstance(s, ast.Assign) and len(s.targets) == 1 and isinstance(s.targets[0], ast.Name) and isinstance(s.value, ast.Constant):
            continue            # pattern constants
        if isinstance(s, ast.Return) and (isinstance(s.value, ast.Name) or s.value is None):
            chk.ob(rule, "_replace_time returns the result of its last rewriting", isinstance(s.value, ast.Name) and s.value.id == var, "returns %s" % ast.unparse(s.value),
                   key={"function": f.key, "construct": "return last stage"}, file=f.file, function=f.qual, line=s.lineno)
            continue
        if isinstance(s, ast.Return):
            # the last rewriting handed back at once: `return re.sub(.., .., current)`
            tg, v = ast.Name(id="<returned>", ctx=ast.Store()), s.value
        elif not (isinstance(s, ast.Assign) and len(s.targets) == 1):
            raise AnalysisError(rule, "_replace_time: statement outside the rewriting chain: %s" % ast.unparse(s)[:60])
        else:
            tg = s.targets[0]
            v = s.value
        subject = None
        if isinstance(v, ast.Call) and ast.unparse(v.func) in ("re.sub", "regex.sub") and len(v.args) >= 3:
            subject = v.args[2]
        elif isinstance(v, ast.Call) and isinstance(v.func, ast.Attribute) and v.func.attr == "replace" and len(v.args) == 2:
            subject = v.func.value
        whole = isinstance(tg, ast.Name) and isinstance(subject, ast.Name) and subject.id in cur
        stages += 1
        chk.ob(rule, "_replace_time line %d: the rewriting is applied to the whole current string" % s.lineno, whole,
               "`%s` rewrites %s: a part of the string (or something other than the previous stage's result) - text outside that part keeps "
               "its ' و ' / unit words and the time is no longer read" % (" ".join(ast.unparse(s).split())[:80], "`%s`" % ast.unparse(subject) if subject is not None else "nothing recognisable"),
               key={"function": f.key, "construct": "whole-string stage %d" % stages}, file=f.file, function=f.qual, line=s.lineno,
               text=" ".join(ast.unparse(s).split())[:100])
        if whole:
            var = tg.id
            cur = {var}
    chk.floor(rule, stages, 4, "rewriting stages of _replace_time")
